"""C18 - parallel execution gives the same answer as sequential execution."""
from __future__ import annotations

import atexit
import itertools
import json
import os
import select
import signal
import subprocess
import sys

from check import Failure
from sfv.canon import tok
from sfv.props import c18_tasks as T

HARNESS = os.path.dirname(os.path.dirname(os.path.dirname(os.path.abspath(__file__))))

TARGETS = ['SFModel.Props.C18']
THEOREMS = [
    'SF.C18.chunks_flatten', 'SF.C18.chunks_boundaries', 'SF.C18.executor_map_eq_sequential',
    'SF.C18.schedule_independent', 'SF.C18.unscheduled_task_blocks', 'SF.C18.pool_zip_eq_sequential',
    'SF.C18.pool_eq_sequential', 'SF.C18.pool_pairs', 'SF.C18.lazy_map_counterexample',
    'SF.C18.failure_surfaces', 'SF.C18.ok_result_is_complete', 'SF.C18.pool_except_eq_sequential',
    'SF.C18.pool_except_exact', 'SF.C18.store_read_eq_sequential', 'SF.C18.store_write_eq_sequential',
]
PARTIAL = []
CORR_ONLY = [
    'concurrent.futures itself (Executor.map consumes its iterables eagerly and yields in submission order: recorded assumption, probed on every run)',
    'the iterator interfaces producing the (label, value) items and the container constructors consuming the zipped pairs',
    'pickling of arguments/results to worker processes; OS scheduling (completion orders are forced with per-task delays and the achieved order is recorded)',
]
RULE = ('iterator interface (Series/Frame: element, array, series, tuple, group, group_labels, window, window_array; values and items forms) '
        'x unit count n (0..6) x max_workers 1..8 x chunksize 1..n+1 x threads/processes x completion order (a permutation of the units realised '
        'as per-task sleeps; all n! for n<=4 in thorough) x failing task position (none / each position); Batch apply/apply_items/apply_except/'
        'apply_items_except/attribute ops with workers; zipped stores written and read with workers; non-trivial = at least two task units; '
        'distinct = distinct canonical case JSON')
TRUSTED = ['the per-task sleep really orders the completions (the achieved completion order is traced and counted in the evidence)']
ASSUMPTIONS = ['CPython Executor.map (thread and process pools) consumes its argument iterables before the first result is requested and yields results in submission order (probe case on every run)',
               'process pools use the fork start method or can import sfv.props.c18_tasks (task functions are module-level)']
BUDGET = {'quick': 75, 'thorough': 800}
SEARCH_BUDGET = {'quick': 40, 'thorough': 200}

# ------------------------------------------------------------------ worker process


class _Worker:
    def __init__(self):
        self.p = None

    def start(self):
        code = (f"import sys; sys.path[:0]=[{HARNESS!r}, {os.environ.get('SFV_REPO', '/repo')!r}]; "
                "from sfv.props import c18_tasks; c18_tasks.main()")
        self.p = subprocess.Popen([sys.executable, '-c', code], stdin=subprocess.PIPE, stdout=subprocess.PIPE,
                                  start_new_session=True, text=True, bufsize=1)

    def stop(self):
        if self.p is not None:
            try:
                os.killpg(self.p.pid, signal.SIGKILL)
            except Exception:
                pass
            try:
                self.p.wait(timeout=5)
            except Exception:
                pass
            self.p = None

    def call(self, case, timeout=120):
        if self.p is None or self.p.poll() is not None:
            self.start()
        try:
            self.p.stdin.write(json.dumps(case) + '\n')
            self.p.stdin.flush()
            r, _, _ = select.select([self.p.stdout], [], [], timeout)
            line = self.p.stdout.readline() if r else ''
        except (BrokenPipeError, OSError):
            line = ''
        if not line:
            self.stop()
            print(f'INFRASTRUCTURE-ERROR C18 pool worker gave no answer within {timeout}s (dead-lock or crash) on case {json.dumps(case)[:300]}')
            sys.stdout.flush()
            raise SystemExit(2)
        return json.loads(line)


_W = _Worker()
atexit.register(_W.stop)

# ------------------------------------------------------------------ interfaces

SERIES_IFACES = [
    ('iter_element', {}), ('iter_element_items', {}),
    ('iter_group', {}), ('iter_group_items', {}),
    ('iter_group_labels', {'depth_level': 0}), ('iter_group_labels_items', {'depth_level': 0}),
    ('iter_window', {'size': 2}), ('iter_window_items', {'size': 2}),
    ('iter_window_array', {'size': 2}), ('iter_window_array_items', {'size': 2, 'step': 2}),
]
FRAME_IFACES = [
    ('iter_element', {}), ('iter_element_items', {}),
    ('iter_array', {'axis': 0}), ('iter_array', {'axis': 1}), ('iter_array_items', {'axis': 0}), ('iter_array_items', {'axis': 1}),
    ('iter_series', {'axis': 0}), ('iter_series', {'axis': 1}), ('iter_series_items', {'axis': 0}), ('iter_series_items', {'axis': 1}),
    ('iter_tuple', {'axis': 0}), ('iter_tuple', {'axis': 1, 'constructor': 'tuple'}), ('iter_tuple_items', {'axis': 1}),
    ('iter_tuple_items', {'axis': 0, 'constructor': 'tuple'}),
    ('iter_group', {'key': 'g'}), ('iter_group_items', {'key': 'g'}),
    ('iter_group_labels', {'depth_level': 0}), ('iter_group_labels_items', {'depth_level': 0}),
    ('iter_window', {'size': 2}), ('iter_window_items', {'size': 2}),
    ('iter_window_array', {'size': 2}), ('iter_window_array_items', {'size': 2}),
]
ALL_IFACES = [('series', i, k) for i, k in SERIES_IFACES] + [('frame', i, k) for i, k in FRAME_IFACES]


def labels_for(rng, n, kind, groups=None):
    """n label tokens; `groups` (list of group ids per position) makes the outer level of a hierarchy."""
    if kind == 'str':
        return [tok('abcdefghijklmnopqrstuvwxyz'[i] if i < 26 else f'L{i}') for i in range(n)]
    if kind == 'int':
        return [tok(10 * (i + 1)) for i in range(n)]
    if kind == 'ih':
        if groups is None:
            groups = [i // 2 for i in range(n)]
        seen = {}
        out = []
        for g in groups:
            seen[g] = seen.get(g, 0) + 1
            out.append(tok(('PQRSTUVW'[g], seen[g])))
        return out
    raise ValueError(kind)


def group_pattern(rng, n_groups, extra):
    """positions -> group id, every group non-empty, first occurrences in random order."""
    pat = list(range(n_groups)) + [rng.randrange(n_groups) for _ in range(extra)] if n_groups else []
    rng.shuffle(pat)
    return pat


def contiguous(rng, pat):
    """Same multiset of group ids as contiguous blocks in a random block order (IndexHierarchy needs tree form)."""
    ids = sorted(set(pat))
    rng.shuffle(ids)
    return [g for i in ids for g in [i] * pat.count(i)]


def make_spec(rng, cont, iface, kw, n):
    """Placeholder spec (rank 0, no failure) whose sequential iteration has n task units (n may be 0)."""
    base = iface.replace('_items', '')
    if cont == 'series':
        if base == 'iter_group':
            pat = group_pattern(rng, n, rng.randint(0, 2) if n else 0)
            vals = [T.code(g) for g in pat]
            return {'kind': 'series', 'values': vals, 'index': labels_for(rng, len(vals), rng.choice(['str', 'int']))}
        if base == 'iter_group_labels':
            pat = contiguous(rng, group_pattern(rng, n, rng.randint(0, 2) if n else 0))
            return {'kind': 'series', 'values': [T.code(i) for i in range(len(pat))], 'index': labels_for(rng, len(pat), 'ih', pat)}
        if base in ('iter_window', 'iter_window_array'):
            size, step = kw.get('size', 1), kw.get('step', 1)
            ln = 0 if n == 0 else (n - 1) * step + size
            return {'kind': 'series', 'values': [T.code(i) for i in range(ln)], 'index': labels_for(rng, ln, rng.choice(['str', 'int']))}
        return {'kind': 'series', 'values': [T.code(i) for i in range(n)], 'index': labels_for(rng, n, rng.choice(['str', 'int', 'ih']))}
    # frame
    other = rng.randint(1, 3)
    if base == 'iter_element':
        shapes = [(r, c) for r in range(0, 7) for c in range(1, 4) if r * c == n and (r > 0 or n == 0)]
        rows, cols = rng.choice(shapes) if shapes else (n, 1)
    elif base in ('iter_array', 'iter_series', 'iter_tuple'):
        rows, cols = (other, n) if kw.get('axis', 0) == 0 else (n, other)
    elif base == 'iter_group':
        pat = group_pattern(rng, n, rng.randint(0, 2) if n else 0)
        rows, cols = len(pat), other
    elif base == 'iter_group_labels':
        pat = contiguous(rng, group_pattern(rng, n, rng.randint(0, 2) if n else 0))
        rows, cols = len(pat), other
    else:  # windows
        size, step = kw.get('size', 1), kw.get('step', 1)
        rows, cols = (0 if n == 0 else (n - 1) * step + size), other
    cells = [[T.code(i * cols + j) for j in range(cols)] for i in range(rows)]
    columns = [tok(f'c{j}') for j in range(cols)]
    if base == 'iter_group':
        for i, g in enumerate(pat):
            cells[i].append(T.code(200 + g))
        columns.append(tok('g'))
    if base == 'iter_group_labels':
        index = labels_for(rng, rows, 'ih', pat)
    elif base == 'iter_tuple' and kw.get('constructor') is None and kw.get('axis', 0) == 0:
        index = labels_for(rng, rows, 'str')     # namedtuple fields must be identifiers
    else:
        index = labels_for(rng, rows, rng.choice(['str', 'int', 'ih']))
    return {'kind': 'frame', 'cells': cells, 'index': index, 'columns': columns}


def recode(spec, lead_ranks, lead_fail):
    """Set rank/fail in the leading cell(s) of each unit (cells are matched by ident)."""
    def f(c):
        ident = T.decode(c)[0]
        if ident in lead_ranks:
            return T.code(ident, lead_ranks[ident], 1 if ident in lead_fail else 0)
        return c
    spec = json.loads(json.dumps(spec))
    if spec['kind'] == 'series':
        spec['values'] = [f(c) for c in spec['values']]
    else:
        spec['cells'] = [[f(c) for c in row] for row in spec['cells']]
    return spec


def sched_for(ranks, csize):
    """Intended completion order of the tasks (chunks of csize units): by total delay, ties by submission."""
    chunks = [ranks[i:i + csize] for i in range(0, len(ranks), csize)]
    return sorted(range(len(chunks)), key=lambda i: (sum(chunks[i]), i))


def iter_case(rng, cont, iface, kw, n, perm=None, fail=(), workers=None, chunksize=None, threads=None):
    spec0 = make_spec(rng, cont, iface, kw, n)
    units = T.units_of(spec0, iface, kw)
    n_real = len(units)
    leads = [T.decode(cells[0])[0] for _, cells in units]
    if perm is None:
        perm = list(range(n_real))
        rng.shuffle(perm)
        if rng.random() < 0.35:
            perm = list(range(n_real - 1, -1, -1))   # fully inverted order
    perm = list(perm)[:n_real]
    fail = [i for i in fail if i < n_real]
    spec = recode(spec0, {leads[i]: perm[i] for i in range(n_real)}, {leads[i] for i in fail})
    return {'k': 'iter', 'cont': cont, 'spec': spec, 'iface': iface, 'kw': kw, 'n': n_real,
            'ranks': perm, 'fail': sorted(fail), 'leads': leads,
            'workers': workers if workers is not None else rng.randint(1, 8),
            'chunksize': chunksize if chunksize is not None else rng.randint(1, n_real + 1),
            'threads': bool(rng.random() < 0.5) if threads is None else threads}


BATCH_OPS = ['apply', 'apply_items', 'apply_except', 'apply_items_except', 'apply_except_other', 'sum', 'iloc', 'add', 'chain']


def batch_case(rng, m, op=None, perm=None, fail=(), workers=None, chunksize=None, threads=None):
    op = op or rng.choice(BATCH_OPS)
    if perm is None:
        perm = list(range(m))
        rng.shuffle(perm)
    frames = []
    for i in range(m):
        lead = T.code(i, perm[i], 1 if i in fail else 0)
        frames.append([[lead, T.code(50 + i)], [T.code(60 + 2 * i), T.code(61 + 2 * i)]])
    kinds = rng.choice(['str', 'int', 'mixed'])
    labels = [tok('f' + 'abcdefgh'[i]) if kinds == 'str' or (kinds == 'mixed' and i % 2) else tok(7 * (i + 1)) for i in range(m)]
    if chunksize is None:
        chunksize = 1 if 'except' in op and rng.random() < 0.85 else rng.randint(1, m + 1)
    return {'k': 'batch', 'op': op, 'labels': labels, 'frames': frames, 'n': m, 'ranks': list(perm), 'fail': sorted(fail),
            'workers': workers if workers is not None else rng.randint(1, 8), 'chunksize': chunksize,
            'threads': bool(rng.random() < 0.5) if threads is None else threads,
            'ctor': rng.choice(['init', 'from_frames'])}


def store_case(rng, m, store=None, perm=None, fail=()):
    store = store or rng.choice(['DelayZipPickle', 'DelayZipPickle', 'DelayZipPickle', 'StoreZipPickle', 'StoreZipTSV', 'StoreZipCSV'])
    if perm is None:
        perm = list(range(m))
        rng.shuffle(perm)
    if store != 'DelayZipPickle':
        fail = ()
    frames = []
    for i in range(m):
        lead = T.code(i, perm[i], 1 if i in fail else 0)
        rows = [[lead, T.code(50 + i)], [T.code(60 + 2 * i), T.code(61 + 2 * i)]]
        # frames of different sizes, not in size order (a writer that reorders its tasks by size shows in the archive order)
        for k in range(rng.choice([0, 0, 1, 2, 3])):
            rows.append([T.code(70 + 3 * i + k), T.code(80 + 3 * i + k)])
        frames.append(rows)
    labels = [tok('s' + 'abcdefgh'[i]) for i in range(m)]
    order = list(range(m))
    r = rng.random()
    if r < 0.3:
        order.reverse()
    elif r < 0.5:
        rng.shuffle(order)
    elif r < 0.6 and m > 1:
        order = order[1:]
    return {'k': 'store', 'store': store, 'labels': labels, 'frames': frames, 'n': m, 'ranks': list(perm), 'fail': sorted(fail),
            'rworkers': rng.choice([None, 1, 2, 3, 4, 8]), 'rchunk': rng.randint(1, m + 1),
            'wworkers': rng.choice([None, 1, 2, 3, 4, 8]), 'wchunk': rng.randint(1, m + 1), 'read_order': order,
            'per_label': rng.randrange(m) if store in ('StoreZipTSV', 'StoreZipCSV') and rng.random() < 0.6 else None}


def nontrivial(c):
    if c['k'] == 'cfgmap':
        return True
    return c['k'] != 'probe' and c.get('n', 0) >= 2


WORKER_ATTRS = ['read_max_workers', 'read_chunksize', 'write_max_workers', 'write_chunksize']


def cfgmap_case(rng):
    """A per-label StoreConfig map: worker settings that differ from the default config must be refused
    (the pool is configured from the default alone)."""
    default = {a: rng.choice([None, 2, 4]) if 'workers' in a else rng.choice([1, 2, 3]) for a in WORKER_ATTRS}
    per = dict(default)
    if rng.random() < 0.6:
        a = rng.choice(WORKER_ATTRS)
        per[a] = rng.choice([v for v in ([None, 2, 4, 8] if 'workers' in a else [1, 2, 3, 5]) if v != default[a]])
    return {'k': 'cfgmap', 'default': default, 'per': per, 'pass_default': rng.random() < 0.8}


def eval_cfgmap(ctx, c):
    import static_frame as sf
    from static_frame.core.store import StoreConfigMap
    from static_frame.core.exception import ErrorInitStoreConfig
    differs = c['per'] != (c['default'] if c['pass_default'] else {'read_max_workers': None, 'read_chunksize': 1, 'write_max_workers': None, 'write_chunksize': 1})
    ctx.count('cfgmap_differs' if differs else 'cfgmap_aligned')
    try:
        m = StoreConfigMap({'a': sf.StoreConfig(index_depth=1, **c['per'])}, default=sf.StoreConfig(**c['default']) if c['pass_default'] else None)
        got = 'ok'
    except ErrorInitStoreConfig:
        got = 'refused'
    if differs and got != 'refused':
        return [Failure('oracle', f'StoreConfigMap accepted a per-label config whose worker settings {c["per"]} differ from the default {c["default"]}: the pool would silently use the default', c)]
    if not differs and (got != 'ok' or m['a'].index_depth != 1 or any(getattr(m.default, a) != (c['default'][a] if c['pass_default'] else getattr(sf.StoreConfig(), a)) for a in WORKER_ATTRS)):
        return [Failure('oracle', f'StoreConfigMap refused / lost an aligned per-label config {c["per"]} (default {c["default"]})', c)]
    return []


def cases(ctx):
    rng = ctx.rng('main')
    quick = ctx.tier == 'quick'
    yield {'k': 'probe', 'chunksize': 1}
    yield {'k': 'probe', 'chunksize': 2}
    for _ in range(12 if quick else 100):
        yield cfgmap_case(rng)
    if quick:
        ifaces = list(ALL_IFACES)
        rng.shuffle(ifaces)
        # every interface at least once with a non-trivial schedule; a failing task on every third
        for i, (cont, iface, kw) in enumerate(ifaces):
            n = rng.choice([2, 3, 3, 4, 4, 5, 6])
            fail = (rng.randrange(n),) if i % 3 == 0 else ()
            yield iter_case(rng, cont, iface, kw, n, fail=fail)
        for _ in range(70):
            cont, iface, kw = rng.choice(ALL_IFACES)
            n = rng.choice([0, 1, 2, 3, 4, 5])
            fail = tuple(sorted(rng.sample(range(n), rng.choice([1, 1, 2])))) if n >= 2 and rng.random() < 0.3 else ()
            yield iter_case(rng, cont, iface, kw, n, fail=fail)
        for _ in range(50):
            m = rng.choice([1, 2, 3, 3, 4, 5])
            fail = (rng.randrange(m),) if rng.random() < 0.45 else ()
            yield batch_case(rng, m, fail=fail)
        # more frames than two rounds of tasks (workers x chunksize x 2): a pool fed in bounded rounds must still deliver all
        for m, w, cs in ((5, 2, 1), (7, 2, 1), (8, 1, 2), (5, 1, 1), (8, 3, 1), (7, 1, 3)):
            for op in ('apply', 'apply_items', 'sum', 'iloc'):
                yield batch_case(rng, m, op=op, workers=w, chunksize=cs)
        for _ in range(30):
            m = rng.choice([1, 2, 3, 4, 5])
            fail = (rng.randrange(m),) if rng.random() < 0.3 else ()
            yield store_case(rng, m, fail=fail)
        # all 3! / a sample of 4! completion orders on one interface per run
        cont, iface, kw = rng.choice(ALL_IFACES)
        for perm in itertools.permutations(range(3)):
            yield iter_case(rng, cont, iface, kw, 3, perm=perm)
        perms4 = list(itertools.permutations(range(4)))
        for perm in rng.sample(perms4, 8):
            yield iter_case(rng, cont, iface, kw, 4, perm=perm)
        return
    # thorough: all completion orders for n <= 4 on every interface, each failing position
    for cont, iface, kw in ALL_IFACES:
        for n in (0, 1, 2, 3, 4):
            for perm in itertools.permutations(range(n)):
                yield iter_case(rng, cont, iface, kw, n, perm=perm)
            for pos in range(n):
                yield iter_case(rng, cont, iface, kw, n, fail=(pos,))
        # every (workers, chunksize, threads) configuration once on n = 3
        if iface in ('iter_element', 'iter_array_items', 'iter_group', 'iter_window_items'):
            for w in range(1, 9):
                for cs in range(1, 5):
                    for th in (False, True):
                        yield iter_case(rng, cont, iface, kw, 3, workers=w, chunksize=cs, threads=th)
        if iface in ('iter_element_items', 'iter_series', 'iter_group_items', 'iter_window'):
            for perm in itertools.permutations(range(5)):
                yield iter_case(rng, cont, iface, kw, 5, perm=perm)
        for _ in range(6):
            n = rng.choice([5, 6])
            fail = tuple(sorted(rng.sample(range(n), rng.choice([0, 1, 2]))))
            yield iter_case(rng, cont, iface, kw, n, fail=fail)
    for op in BATCH_OPS:
        for m in (1, 2, 3):
            for perm in itertools.permutations(range(m)):
                yield batch_case(rng, m, op=op, perm=perm)
                for pos in range(m):
                    yield batch_case(rng, m, op=op, perm=perm, fail=(pos,))
        for _ in range(10):
            m = rng.choice([4, 5])
            yield batch_case(rng, m, op=op, fail=tuple(sorted(rng.sample(range(m), rng.choice([0, 1, 2])))))
    for m in (1, 2, 3):
        for perm in itertools.permutations(range(m)):
            for _ in range(3):
                yield store_case(rng, m, store='DelayZipPickle', perm=perm)
            for pos in range(m):
                yield store_case(rng, m, store='DelayZipPickle', perm=perm, fail=(pos,))
    for _ in range(80):
        yield store_case(rng, rng.choice([2, 3, 4, 5]))


def search(ctx):
    rng = ctx.rng('search')
    for _ in range(400):
        cont, iface, kw = rng.choice(ALL_IFACES)
        n = rng.choice([2, 3, 4])
        yield iter_case(rng, cont, iface, kw, n, fail=(rng.randrange(n),) if rng.random() < 0.3 else ())


# ------------------------------------------------------------------ model

def wire_list(xs):
    return '(' + ' '.join(str(x) for x in xs) + ')'


def model_lines(c):
    if c['k'] == 'probe':
        return ['pool.chunks 2 (a b c d e)', 'pool.chunks 5 (a b c d e)', 'pool.chunks 6 (a b c d e)', 'pool.chunks 1 ()',
                'pool.map 0 2 (2 0) (a b c d e)', 'pool.chunks 0 (a)']
    if c['k'] == 'cfgmap':
        return []
    n = c['n']
    fail = set(c['fail'])
    if c['k'] == 'iter':
        th = 1 if c['threads'] else 0
        cs = c['chunksize']
        sched = sched_for(c['ranks'], 1 if th else cs)
        items = '(' + ' '.join(f'(L{i} {"!" if i in fail else "v"}{i})' for i in range(n)) + ')'
        yt = 0 if c['iface'].endswith('_items') else 1
        return [f'pool.apply {yt} {th} {cs} {wire_list(sched)} {items}', f'pool.seq {yt} {items}',
                f'pool.tasks {th} {cs} {n}']
    if c['k'] == 'batch':
        th = 1 if c['threads'] else 0
        cs = c['chunksize']
        op = c['op']
        if 'except' in op:
            tag = '!u' if op == 'apply_except_other' else '!c'
            items = '(' + ' '.join(f'(L{i} {tag if i in fail else "v"}{i})' for i in range(n)) + ')'
            return [f'pool.except {wire_list(sched_for(c["ranks"], 1))} {items}']
        items = '(' + ' '.join(f'(L{i} {"!" if i in fail else "v"}{i})' for i in range(n)) + ')'
        return [f'pool.apply 1 {th} {cs} {wire_list(sched_for(c["ranks"], 1 if th else cs))} {items}']
    if c['k'] == 'store':
        outs = wire_list(f'{"!" if i in fail else "v"}{i}' for i in range(n))
        order = c['read_order']
        routs = wire_list(f'{"!" if i in fail else "v"}{i}' for i in order)
        w = lambda x: 'N' if x is None else str(x)
        return [f'pool.write {w(c["wworkers"])} {c["wchunk"]} {wire_list(sched_for(c["ranks"], c["wchunk"]))} {outs}',
                f'pool.read {w(c["rworkers"])} {c["rchunk"]} {wire_list(sched_for([c["ranks"][i] for i in order], c["rchunk"]))} {routs}']
    return []


def parse_pairs(out):
    """'ok ((L0 v0) (L1 v1))' -> [('L0','v0'),...] ; 'err x' -> ('err', x)"""
    if out.startswith('err'):
        return ('err', out.split()[1])
    body = out[3:].strip()
    toks = body.replace('(', ' ').replace(')', ' ').split()
    return [(toks[i], toks[i + 1]) for i in range(0, len(toks), 2)]


def parse_atoms(out):
    if out.startswith('err'):
        return ('err', out.split()[1])
    return out[3:].strip().strip('()').split()


# ------------------------------------------------------------------ evaluation

def evaluate(ctx, c, outs):
    if c['k'] == 'probe':
        return eval_probe(ctx, c, outs)
    if c['k'] == 'cfgmap':
        return eval_cfgmap(ctx, c)
    res = _W.call(c)
    if 'harness_error' in res:
        return [Failure('corr', f'harness error in worker: {res["harness_error"]}', c, detail=res.get('tb'))]
    ctx.count(f'kind_{c["k"]}')
    ctx.count('runs_threads' if c.get('threads') else 'runs_processes') if c['k'] != 'store' else None
    # achieved completion order (idents in order of completion) vs submission order
    tr = res.get('trace') or []
    if len(tr) >= 2:
        if tr != sorted(tr):
            ctx.count('completion_order_differs_from_submission_order')
        else:
            ctx.count('completion_order_equals_submission_order')
    if c['k'] == 'iter':
        return eval_iter(ctx, c, outs, res)
    if c['k'] == 'batch':
        return eval_batch(ctx, c, outs, res)
    return eval_store(ctx, c, outs, res)


def eval_probe(ctx, c, outs):
    fails = []
    res = _W.call(c)
    for nm in ('threads', 'processes'):
        r = res.get(nm, {})
        if r.get('consumed_before_first') != [0, 1, 2, 3]:
            fails.append(Failure('corr', f'recorded assumption broken: Executor.map ({nm}) consumed {r.get("consumed_before_first")} of its arguments before the first result was requested (model assumes all)', c))
        if r.get('got') != [0, 10, 20, 30]:
            fails.append(Failure('corr', f'recorded assumption broken: Executor.map ({nm}) yielded {r.get("got")} (not submission order)', c))
    ctx.count('assumption_probe')
    if outs:
        exp = ['ok ((a b) (c d) (e))', 'ok ((a b c d e))', 'ok ((a b c d e))', 'ok ()', 'err shape', 'err value']
        # CPython reference for _get_chunks
        from concurrent.futures.process import _get_chunks
        ref = ['ok (' + ' '.join('(' + ' '.join(x[0] for x in ch) + ')' for ch in _get_chunks('abcde', chunksize=k)) + ')' for k in (2, 5, 6)]
        if outs[:3] != ref or outs != exp:
            fails.append(Failure('corr', f'model chunks/map probe: {outs} vs {exp} / CPython _get_chunks {ref}', c))
    return fails


def pairs_of_snapshot(snap):
    """(label token, value token) pairs of an apply result (Series, or Frame for iter_element)."""
    if snap['t'] == 'Series':
        return list(zip(snap['index'], snap['values']))
    out = []
    for i, r in enumerate(snap['index']):
        for j, cl in enumerate(snap['columns']):
            out.append((f't:({r} {cl})', snap['values'][j][i]))
    return out


def eval_iter(ctx, c, outs, res):
    fails = []
    n = c['n']
    items = c['iface'].endswith('_items')
    ctx.count(f'iface_{c["cont"]}.{c["iface"]}')
    ctx.count(f'units_{min(n, 6)}')
    ctx.count(f'chunk_{"1" if c["chunksize"] == 1 else ("gt_n" if c["chunksize"] > n else "mid")}')
    ctx.count(f'workers_{c["workers"]}')
    units = res['units']
    if c['threads'] and c['workers'] >= n >= 2 and not c['fail']:
        intended = [c['leads'][i] for i in sorted(range(n), key=lambda i: c['ranks'][i])]
        ctx.count('forced_order_achieved' if (res.get('trace') or []) == intended else 'forced_order_missed')
    # Lean-independent reference: plain sequential iteration + the task function
    exp_pairs, exp_err = [], None
    for lbl, cells in units:
        ident, fl, _ = T.decode(cells[0])
        if fl:
            exp_err = ident
            break
        d = T.digest(cells)
        exp_pairs.append((lbl, tok(f'{lbl}>{d}') if items else tok(d)))
    if [T.decode(cells[0])[0] for _, cells in units] != c['leads']:
        fails.append(Failure('corr', 'harness: unit enumeration differs from generation time', c))
        return fails
    par, seq = res['par'], res['seq']
    desc = f'{c["cont"]}.{c["iface"]}({c["kw"]}).apply_pool(max_workers={c["workers"]}, chunksize={c["chunksize"]}, use_threads={c["threads"]}) n={n} ranks={c["ranks"]} fail={c["fail"]}'
    if exp_err is not None:
        ctx.count('failing_task_injected')
        if 'ok' in par:
            fails.append(Failure('oracle', f'{desc}: task {exp_err} raises but apply_pool returned a result with {len(pairs_of_snapshot(par["ok"]))} entries', c,
                                 detail={'par': par}))
        elif par.get('cls') != 'PoolTaskError':
            fails.append(Failure('corr', f'{desc}: expected the task error, got {par.get("cls")}: {par.get("msg")}', c, detail={'cls': par.get('cls')}))
        elif par.get('ident') != exp_err:
            fails.append(Failure('corr', f'{desc}: error of task {par.get("ident")} surfaced, sequential form raises task {exp_err} first', c))
        if 'ok' in seq or seq.get('ident') != exp_err:
            fails.append(Failure('corr', f'{desc}: sequential apply did not raise the first failing task: {seq}', c))
    else:
        if 'ok' not in seq:
            # the sequential form itself refuses this input (e.g. element iteration of a zero-row Frame):
            # outside the claim as long as the pool form refuses it in the same way
            ctx.count('sequential_form_raises')
            if par.get('cls') != seq.get('cls'):
                fails.append(Failure('corr', f'{desc}: sequential apply raised {seq} but apply_pool gave {par}', c))
            return fails
        if 'ok' not in par:
            fails.append(Failure('oracle', f'{desc}: apply_pool raised {par.get("cls")}: {par.get("msg")} but the sequential form returns a result', c,
                                 detail={'cls': par.get('cls'), 'iface': c['iface'], 'threads': c['threads'], 'kw': c['kw']}))
        else:
            got = pairs_of_snapshot(par['ok'])
            if got != exp_pairs:
                fails.append(Failure('oracle', f'{desc}: (label, result) pairs {got} != reference {exp_pairs}', c))
            elif par['ok'] != seq['ok']:
                fails.append(Failure('oracle', f'{desc}: result differs from the sequential apply: {par["ok"]} vs {seq["ok"]}', c))
    # model correspondence
    if outs and not any(f.kind == 'oracle' for f in fails):
        mpar, mseq = parse_pairs(outs[0]), parse_pairs(outs[1])
        if mpar != mseq:
            fails.append(Failure('corr', f'model: parallel {outs[0]} != sequential {outs[1]}', c))
        lmap = {lbl: f'L{i}' for i, (lbl, _) in enumerate(units)}
        if exp_err is not None:
            real = ('err', par.get('err')) if 'ok' not in par else 'ok'
        elif 'ok' in par:
            vmap = {v: f'v{i}' for i, (_, v) in enumerate(exp_pairs)}
            real = [(lmap.get(l, 'L?'), vmap.get(v, 'v?')) for l, v in pairs_of_snapshot(par['ok'])]
        else:
            real = ('err', par.get('err'))
        if real != mpar and not fails:
            fails.append(Failure('corr', f'{desc}: model {outs[0]} vs real {real}', c))
        exp_tasks = n if c['threads'] else -(-n // c['chunksize'])
        if outs[2] != f'ok {exp_tasks}':
            fails.append(Failure('corr', f'model task count {outs[2]} vs ceil(n/c) {exp_tasks}', c))
    return fails


def norm_batch_items(lst):
    return [[k, v] for k, v in lst]


def eval_batch(ctx, c, outs, res):
    fails = []
    op, n = c['op'], c['n']
    fail = c['fail']
    ctx.count(f'batch_{op}')
    par, seq = res['par'], res['seq']
    desc = f'Batch({n} frames, max_workers={c["workers"]}, chunksize={c["chunksize"]}, use_threads={c["threads"]}).{op} ranks={c["ranks"]} fail={fail}'
    delayed = op in ('apply', 'apply_items', 'apply_except', 'apply_items_except', 'apply_except_other', 'chain')
    will_raise = bool(fail) and delayed and op not in ('apply_except', 'apply_items_except')
    if 'except' in op and c['chunksize'] != 1:
        # documented refusal of the except idioms with chunksize != 1
        ctx.count('batch_except_chunksize_refused')
        if par.get('cls') != 'NotImplementedError':
            fails.append(Failure('oracle' if 'ok' in par and par['ok'] != seq.get('ok') else 'corr',
                                 f'{desc}: expected NotImplementedError for chunksize != 1, got {par}', c))
        return fails
    if will_raise:
        ctx.count('failing_task_injected')
        first = min(fail)
        if 'ok' in par:
            fails.append(Failure('oracle', f'{desc}: frame {first} raises but the Batch delivered {len(par["ok"])} items', c))
        elif par.get('cls') != 'PoolTaskError' or par.get('ident') != first:
            fails.append(Failure('corr', f'{desc}: expected PoolTaskError({first}), got {par}', c))
        if 'ok' in seq:
            fails.append(Failure('corr', f'{desc}: sequential Batch did not raise', c))
    else:
        if 'ok' not in seq:
            fails.append(Failure('corr', f'{desc}: sequential Batch raised {seq}', c))
            return fails
        exp_labels = [c['labels'][i] for i in range(n) if not (delayed and i in fail)]
        if 'ok' not in par:
            fails.append(Failure('oracle', f'{desc}: Batch with workers raised {par.get("cls")}: {par.get("msg")}; without workers it returns {len(seq["ok"])} items', c,
                                 detail={'cls': par.get('cls')}))
        else:
            if [k for k, _ in par['ok']] != exp_labels:
                fails.append(Failure('oracle', f'{desc}: labels {[k for k, _ in par["ok"]]} != {exp_labels}', c))
            elif norm_batch_items(par['ok']) != norm_batch_items(seq['ok']):
                fails.append(Failure('oracle', f'{desc}: items differ from the Batch without workers: {brief(par["ok"])} vs {brief(seq["ok"])}', c))
            else:
                # pairing: the result under label i must derive from frame i (leading ident i is in every result)
                for (k, snap), i in zip(par['ok'], [i for i in range(n) if not (delayed and i in fail)]):
                    if not result_derives_from(snap, c['frames'][i], op, k):
                        fails.append(Failure('oracle', f'{desc}: result under label {k} does not derive from frame {i}: {snap}', c))
                        break
    if outs and not any(f.kind == 'oracle' for f in fails):
        m = parse_pairs(outs[0])
        if 'ok' in par:
            lmap = {lbl: f'L{i}' for i, lbl in enumerate(c['labels'])}
            real = [(lmap.get(k, 'L?'), 'v' + lmap.get(k, 'L?')[1:]) for k, _ in par['ok']]
        else:
            real = ('err', par.get('err'))
        if not delayed:
            m_ok = isinstance(m, list) or bool(fail)   # attribute ops never fail: the model was given the fail marks
            if 'ok' in par and isinstance(m, list) and real != m:
                fails.append(Failure('corr', f'{desc}: model {outs[0]} vs real {real}', c))
        elif real != m and not fails:
            fails.append(Failure('corr', f'{desc}: model {outs[0]} vs real {real}', c))
    return fails


def result_derives_from(snap, frame_cells, op, label):
    lead, c01 = frame_cells[0]
    c10, c11 = frame_cells[1]
    ident = T.decode(lead)[0]
    flat = [lead, c01, c10, c11]
    if op in ('apply', 'apply_except', 'apply_except_other', 'chain'):
        m = ident % 3
        if m == 0:
            return snap['t'] == 'Frame' and snap['values'] == [[tok(2 * lead), tok(2 * c10)]]
        if m == 1:
            return snap['t'] == 'Series' and snap['values'] == [tok(lead + c10), tok(c01 + c11)]
        return snap['t'] == 'Series' and snap['values'] == [tok(T.digest(flat))]
    if op in ('apply_items', 'apply_items_except'):
        return snap['t'] == 'Frame' and snap['name'] == tok(f'{label}>{T.digest(flat)}') and snap['values'] == [[tok(lead), tok(c10)], [tok(c01), tok(c11)]]
    if op == 'sum':
        return snap['values'] == [tok(lead + c10), tok(c01 + c11)]
    if op == 'iloc':
        return snap['values'] == [[tok(lead)], [tok(c01)]] or snap['values'] == [tok(lead), tok(c01)]
    if op == 'add':
        return snap['values'] == [[tok(lead + 1), tok(c10 + 1)], [tok(c01 + 1), tok(c11 + 1)]]
    return True


def brief(items):
    """Short rendering of [(label, snapshot)] for messages: label -> name and leading cell."""
    if not isinstance(items, list):
        return str(items)[:300]
    return [(k, s.get('name'), (s.get('values') or [[None]])[0][0] if s.get('t') == 'Frame' else s.get('values')) for k, s in items]


def eval_store(ctx, c, outs, res):
    fails = []
    n = c['n']
    fail = c['fail']
    ctx.count(f'store_{c["store"]}')
    ctx.count(f'store_write_{"pool" if (c["wworkers"] or 0) > 1 else "seq"}')
    ctx.count(f'store_read_{"pool" if c["rworkers"] is not None else "seq"}')
    desc = (f'{c["store"]} {n} frames write_max_workers={c["wworkers"]} write_chunksize={c["wchunk"]} read_max_workers={c["rworkers"]} '
            f'read_chunksize={c["rchunk"]} read_order={c["read_order"]} ranks={c["ranks"]} fail={fail}')
    seq = res.get('seq_read', {})
    if 'ok' not in seq:
        return [Failure('corr', f'{desc}: sequential store round trip failed: {seq}', c)]
    order = c['read_order']
    exp_labels = [c['labels'][i] for i in order]
    # reference: the frames themselves (pickle keeps everything; delimited stores compared with the sequential read)
    if [k for k, _ in seq['ok']] != exp_labels or [s['name'] for _, s in seq['ok']] != exp_labels:
        fails.append(Failure('oracle', f'{desc}: sequential read_many labels/names {[(k, s["name"]) for k, s in seq["ok"]]} != {exp_labels}', c))
    pe, pr = res['par_entries'], res['par_read']
    if fail:
        ctx.count('failing_task_injected')
        if 'ok' in pe:
            fails.append(Failure('oracle', f'{desc}: exporting frame {min(fail)} raises but write() completed with entries {pe["ok"]}', c))
        elif pe.get('cls') != 'PoolTaskError' or pe.get('ident') != min(fail):
            fails.append(Failure('corr', f'{desc}: write expected PoolTaskError({min(fail)}), got {pe}', c))
        first_r = next((i for i in order if i in fail), None)
        if first_r is not None:
            if 'ok' in pr:
                fails.append(Failure('oracle', f'{desc}: building frame {first_r} raises but read_many delivered {len(pr["ok"])} frames', c))
            elif pr.get('cls') != 'PoolTaskError' or pr.get('ident') != first_r:
                fails.append(Failure('corr', f'{desc}: read expected PoolTaskError({first_r}), got {pr}', c))
        elif 'ok' not in pr or pr['ok'] != seq['ok']:
            fails.append(Failure('oracle', f'{desc}: read_many with workers {brief(pr.get("ok", pr))} != without {brief(seq["ok"])}', c))
    else:
        if 'ok' not in pe:
            fails.append(Failure('oracle', f'{desc}: write with workers raised {pe}', c, detail={'cls': pe.get('cls')}))
        elif pe['ok'] != res['seq_entries']:
            fails.append(Failure('oracle', f'{desc}: zip entries {pe["ok"]} != sequential {res["seq_entries"]}', c))
        if 'ok' not in pr:
            fails.append(Failure('oracle', f'{desc}: read_many with workers raised {pr}', c, detail={'cls': pr.get('cls')}))
        elif pr['ok'] != seq['ok']:
            fails.append(Failure('oracle', f'{desc}: read_many with workers differs: {brief(pr["ok"])} vs {brief(seq["ok"])}', c))
        else:
            for (k, snap), i in zip(pr['ok'], order):
                if i == c.get('per_label'):
                    # read with its own configuration (index_depth 0): the index column arrives as data
                    ctx.count('store_per_label_config_reads')
                    if len(snap['values']) != 3 or len(snap['values'][0]) != len(c['frames'][i]):
                        fails.append(Failure('oracle', f'{desc}: frame {i} has its own configuration (index_depth=0) but was read as {snap}', c))
                        break
                    continue
                if snap['values'] != [[tok(row[j]) for row in c['frames'][i]] for j in range(2)]:
                    fails.append(Failure('oracle', f'{desc}: frame read under label {k} is not frame {i}: {snap}', c))
                    break
        w = res.get('par_written_read_seq', {})
        if 'ok' in pe and ('ok' not in w or w['ok'] != seq['ok']):
            fails.append(Failure('oracle', f'{desc}: file written with workers reads back {brief(w.get("ok", w))} != {brief(seq["ok"])}', c))
    if outs and not fails:
        mw, mr = parse_atoms(outs[0]), parse_atoms(outs[1])
        rw = [f'v{i}' for i in range(n)] if 'ok' in pe else ('err', pe.get('err'))
        rr = [f'v{i}' for i in order] if 'ok' in pr else ('err', pr.get('err'))
        if mw != rw or mr != rr:
            fails.append(Failure('corr', f'{desc}: model write {outs[0]} read {outs[1]} vs real {rw} {rr}', c))
    return fails


def classify(f):
    c = f.case or {}
    d = f.detail or {}
    if (c.get('k') == 'iter' and c.get('iface') in ('iter_tuple', 'iter_tuple_items') and not c.get('threads')
            and c.get('kw', {}).get('constructor') is None and d.get('cls') == 'PicklingError'):
        return 'F41-iter-tuple-process-pool-unpicklable'
    return None
