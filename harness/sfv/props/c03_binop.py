"""C03 / C06 - the operand splitting of TypeBlocks._ufunc_binary_operator (imported by c03.py).

Lean side: lean/SFModel/BlocksBinop.lean (mirror of block_compatible / reblock_compatible / _reblock_signature /
_reblock / values / _block_shape_slices / apply_binary_operator_blocks(_columnar)), theorems in
lean/SFModel/Props/C03Binop.lean, driver ops tbbinop.* in lean/SFModel/Drv/BlocksBinop.lean.

Case kinds (all cells are small integers, operators + - *, so every cell compares exactly whatever the dtype):
  bo_tb    : real tb_a._ufunc_binary_operator(operator, other=tb_b) for two TypeBlocks given as (dtypes, cells, layout)
             - model vs real: rows, cells, per-column dtypes, result block structure, branch taken, error category
             - tbbinop.diag: block_compatible, reblock_compatible, _reblock_signature of both, _block_shape_slices, _reblock
             - oracle (no Lean): cells == column j of a (op) column j of b; shapes differ -> NotImplementedError;
               no column -> ErrorInitTypeBlocks; per-column result dtype == dtype of (column a (op) column b)
  bo_arr   : other = 0-d / 1-D / 2-D / 3-D array (or a Python scalar / list) of every accepted and rejected shape, axis 0/1/2
  bo_frame : the property on the public operator: frame_a (op) frame_b under two block layouts of the operands with equal
             per-column dtypes must give equal cells and dtypes
The `.values` route (same shape, neither block- nor reblock-compatible) converts both operands to their row dtype first:
result dtypes (and, beyond 2**53, cells) depend on the layout - finding F74-binop-values-route-row-dtype, proved as
SF.C03.binop_result_dtype_layout_dependent / layout_unobservable_binop_counterexample on the mirror.
"""
from __future__ import annotations

import itertools
import operator

import numpy as np

from check import Failure
from sfv import gen
from sfv.canon import err_cat, dtype_tok
from sfv.tbwire import parse_sexp

TARGETS = ['SFModel.Props.C03Binop']
THEOREMS = [
    'SF.C03.reblock_signature_spec', 'SF.C03.reblock_eq_consolidate', 'SF.C03.reblock_cols',
    'SF.C03.block_shape_slices_cover', 'SF.C03.operands_never_padded',
    'SF.C03.binop_refines_tb_exact', 'SF.C03.binop_refines_tb_partial', 'SF.C03.binop_refines_tb_counterexample',
    'SF.C03.binop_refines_array', 'SF.C03.binop_result_wf', 'SF.C03.binop_error_iff',
    'SF.C03.layout_unobservable_binop_partial', 'SF.C03.layout_unobservable_binop_same_route',
    'SF.C03.layout_unobservable_binop_array', 'SF.C03.layout_unobservable_binop_counterexample',
    'SF.C03.binop_result_dtype_layout_dependent', 'SF.C03.binop_tb_agrees_zipCols',
    'SF.C03.reblock_compatible_layout_free', 'SF.C03.same_dtypes_reblock_compatible',
    'SF.C03.layout_unobservable_binop_same_dtypes',
]
PARTIAL = [
    'SF.C03.binop_refines_tb_partial / layout_unobservable_binop_partial: cells of TypeBlocks (op) TypeBlocks equal column (op) column '
    'for every pair of layouts UNDER the hypothesis that the conversion to the row dtype on the .values route keeps every cell '
    '(cast d e x = x); without it the statement is false (binop_refines_tb_counterexample, layout_unobservable_binop_counterexample: '
    'int64 2**53+1 stored into the float64 .values array), and the result dtype on that route is the row-dtype resolution whatever the '
    'conversion does (binop_result_dtype_layout_dependent); the unconditional exact statement is binop_refines_tb_exact',
]
CORR_ONLY = ['operator.__name__ in (matmul, rmatmul) is refused before the operand splitting (not modelled); comparison operators '
             'returning a bare bool (apply_binary_operator result is False/True expansion) are outside the + - * scope of these cases']
RULE = ('bo_tb: two TypeBlocks as (per-column dtypes over int64/float64/int32/float32/object, integer cells, layout) - quick: random, thorough: every pair '
        'of (dtype pattern over int64/float64, layout) for <= 3 columns, every pair of layouts of 4 columns under nine dtype patterns, differing shapes, zero '
        'columns; bo_arr: every accepted and rejected array shape (0-d .. 3-D, Python scalar / list) x axis 0/1/2 x layouts; bo_frame: Frame op Frame '
        'under two layouts of both operands; non-trivial = the left operand has at least two columns')
TRUSTED = ["binary operators: NumPy's element operation, its result dtype (a table read from the real NumPy for each case) and astype on one cell are "
           "parameters of the Lean model; iterable_to_array_nd turns a non-array operand into an array before the modelled part"]
FINDING = 'F74-binop-values-route-row-dtype'

OPS = {'add': operator.add, 'sub': operator.sub, 'mul': operator.mul}
DTS = ['int64', 'float64', 'object', 'int32', 'float32']
BIG = 2 ** 53 + 1


# ------------------------------------------------------------------ building
def col_arr(dt, vals):
    if dt == 'object':
        a = np.empty(len(vals), dtype=object)
        for i, v in enumerate(vals):
            a[i] = int(v)
        return a
    return np.array(vals, dtype=dt)


def build_blocks(side, rows):
    arrays = [col_arr(dt, v) for dt, v in zip(side['dts'], side['v'])]
    blocks, j = [], 0
    for w, is2d in side['layout']:
        part = arrays[j:j + w]
        j += w
        if w == 1 and not is2d:
            blocks.append(part[0])
        else:
            b = np.empty((rows, w), dtype=part[0].dtype)
            for k, p in enumerate(part):
                b[:, k] = p
            blocks.append(b)
    assert j == len(arrays), (side, rows)
    return blocks


def build_tb(side, rows):
    import static_frame as sf
    if not side['dts']:
        return sf.TypeBlocks.from_zero_size_shape((rows, 0))
    return sf.TypeBlocks.from_blocks(build_blocks(side, rows))


def build_other(o):
    """the array operand of a bo_arr case -> what is handed to the real method"""
    nd = o['nd']
    if nd == 0:
        return int(o['v']) if o.get('py') else np.array(o['v'], dtype=o['dt'])
    if nd == 1:
        return [int(x) for x in o['v']] if o.get('py') else col_arr(o['dt'], o['v'])
    if nd == 2:
        a = np.empty((o['rows'], len(o['cols'])), dtype=object if o['dt'] == 'object' else o['dt'])
        for j, c in enumerate(o['cols']):
            a[:, j] = col_arr(o['dt'], c)
        return a
    return np.zeros(o['shape'], dtype=o['dt'])


def as_array(other):
    from static_frame.core.util import iterable_to_array_nd
    return other if other.__class__ is np.ndarray else iterable_to_array_nd(other)


def cell_int(x):
    """a result cell as an exact integer (the cases never produce anything else); a marker otherwise"""
    if isinstance(x, (bool, np.bool_)):
        return f'bool:{x}'
    if isinstance(x, (int, np.integer)):
        return int(x)
    if isinstance(x, (float, np.floating)) and float(x).is_integer():
        return int(x)
    return f'?:{x!r}'


def tb_view(tb):
    cols, dts, layout = [], [], []
    for b in tb._blocks:
        if b.ndim == 1:
            cols.append([cell_int(x) for x in b.tolist()])
            dts.append(dtype_tok(b.dtype))
            layout.append([1, False])
        else:
            for j in range(b.shape[1]):
                cols.append([cell_int(x) for x in b[:, j].tolist()])
                dts.append(dtype_tok(b.dtype))
            layout.append([b.shape[1], True])
    return {'rows': int(tb._shape[0]), 'cols': cols, 'dtypes': dts, 'layout': layout}


# ------------------------------------------------------------------ wire
def sx(*items):
    """one s-expression list from its parts (the driver prints single spaces, nothing after the last item)"""
    return '(' + ' '.join(str(x) for x in items) + ')'


def block_wire(b):
    dt = dtype_tok(b.dtype)
    if b.ndim == 1:
        return sx('d1', dt, *[cell_int(x) for x in b.tolist()])
    return sx('d2', dt, *[sx(*[cell_int(x) for x in b[:, j].tolist()]) for j in range(b.shape[1])])


def tb_wire(tb, head='tb'):
    return sx(head, int(tb._shape[0]), *[block_wire(b) for b in tb._blocks])


def rd_tok(tb):
    return 'N' if tb._row_dtype is None else dtype_tok(tb._row_dtype)


def other_wire(arr):
    dt = dtype_tok(arr.dtype)
    if arr.ndim == 0:
        return sx('a0', dt, cell_int(arr.item()))
    if arr.ndim == 1:
        return sx('a1', dt, *[cell_int(x) for x in arr.tolist()])
    if arr.ndim == 2:
        return sx('a2', dt, arr.shape[0], *[sx(*[cell_int(x) for x in arr[:, j].tolist()]) for j in range(arr.shape[1])])
    return sx('aN', dt, arr.ndim)


def res_dtype(f, da, db, other_ndim=1):
    """the dtype NumPy gives `f(array of da, array of db)` (asked from NumPy on one-element arrays)"""
    x = np.ones(1, dtype=da)
    y = np.ones((), dtype=db) if other_ndim == 0 else np.ones(1, dtype=db)
    return f(x, y).dtype


def table_wire(f, das, dbs, other_ndim=1):
    rows = {}
    for da in das:
        for db in dbs:
            rows[(dtype_tok(da), dtype_tok(db))] = dtype_tok(res_dtype(f, da, db, other_ndim))
    return '(' + ' '.join(f'({a} {b} {r})' for (a, b), r in sorted(rows.items())) + ')'


def tb_dtypes_for_table(tb):
    ds = list({b.dtype for b in tb._blocks})
    if tb._row_dtype is not None and tb._row_dtype not in ds:
        ds.append(tb._row_dtype)
    return ds or [np.dtype('float64')]


# ------------------------------------------------------------------ case generation
def cell_a(i, j):
    return 1 + i + 3 * j


def cell_b(i, j):
    return 2 + 2 * i + 7 * j


def side_of(dts, layout, rows, cell):
    return {'dts': list(dts), 'v': [[cell(i, j) for i in range(rows)] for j in range(len(dts))], 'layout': [list(x) for x in layout]}


def rand_dts(rng, m, pool):
    out = []
    for _ in range(m):
        out.append(out[-1] if out and rng.random() < 0.55 else rng.choice(pool))
    return out


def rand_side(rng, m, rows, pool, cell):
    dts = rand_dts(rng, m, pool)
    lays = gen.layouts_for(dts)
    return side_of(dts, rng.choice(lays), rows, cell)


def all_sides(m, pool):
    """every (dtype pattern over `pool`, layout) for m columns"""
    for dts in itertools.product(pool, repeat=m):
        for lay in gen.layouts_for(list(dts)):
            yield list(dts), lay


def other_shapes(rows, m):
    """array operands of every accepted and rejected shape for a TypeBlocks of shape (rows, m): (nd, shape)"""
    out = [(0, ()), (1, (1,)), (1, (m,)), (1, (rows,)), (1, (0,)), (1, (m + 1,)), (1, (rows + 1,)), (1, (max(m, 1) - 1,)),
           (2, (rows, m)), (2, (rows, m + 1)), (2, (rows + 1, m)), (2, (1, m)), (2, (rows, 1)), (2, (m, rows)), (2, (1, 1)),
           (3, (1, rows, m)), (3, (rows, m, 1))]
    seen, res = set(), []
    for x in out:
        if x not in seen:
            seen.add(x)
            res.append(x)
    return res


def other_of(nd, shape, dt, py=False):
    if nd == 0:
        return {'nd': 0, 'dt': dt, 'v': 5, 'py': py}
    if nd == 1:
        return {'nd': 1, 'dt': dt, 'v': [3 + 2 * k for k in range(shape[0])], 'py': py}
    if nd == 2:
        return {'nd': 2, 'dt': dt, 'rows': shape[0], 'cols': [[2 + 2 * i + 7 * j for i in range(shape[0])] for j in range(shape[1])]}
    return {'nd': 3, 'dt': dt, 'shape': list(shape)}


def cases(ctx):
    rng = ctx.rng('binop')
    quick = ctx.tier == 'quick'
    opn = list(OPS)
    # -- designed: the layout-dependent conversion of the .values route (finding F74) at TypeBlocks and Frame level
    for lb in ([[1, False], [1, False]], [[2, True]], [[1, True], [1, False]]):
        for la in ([[1, False], [1, False]], [[1, True], [1, True]]):
            a = {'dts': ['int64', 'float64'], 'v': [[BIG, 1], [2, 3]], 'layout': la}
            b = {'dts': ['int64', 'int64'], 'v': [[0, 4], [5, 6]], 'layout': lb}
            yield {'k': 'bo_tb', 'rows': 2, 'a': a, 'b': b, 'op': 'add', 'big': True}
    yield {'k': 'bo_frame', 'rows': 2, 'op': 'add', 'big': True,
           'a': {'dts': ['int64', 'float64'], 'v': [[BIG, 1], [2, 3]], 'layout': [[1, False], [1, False]]},
           'b': {'dts': ['int64', 'int64'], 'v': [[0, 4], [5, 6]], 'layout': [[1, False], [1, False]]},
           'la2': [[1, False], [1, False]], 'lb2': [[2, True]]}
    # -- TypeBlocks (op) TypeBlocks
    if quick:
        for i in range(2600):
            rows = rng.choice([0, 1, 2, 2, 3])
            m = rng.choice([0, 1, 2, 3, 3, 4, 4, 5, 6])
            pool = rng.choice([['int64', 'float64'], ['int64', 'float64'], DTS, ['int64'], ['int64', 'int32', 'float64']])
            a = rand_side(rng, m, rows, pool, cell_a)
            r = rng.random()
            rows_b, m_b = rows, m
            if r < 0.06:
                rows_b = rows + rng.choice([1, 2])
            elif r < 0.12:
                m_b = max(0, m + rng.choice([-1, 1]))
            b = rand_side(rng, m_b, rows_b, pool, cell_b)
            if r >= 0.12 and rng.random() < 0.25:
                # same dtype runs as a, another layout: the reblock route
                b = side_of(a['dts'], rng.choice(gen.layouts_for(a['dts'])), rows, cell_b)
            yield {'k': 'bo_tb', 'rows': rows, 'rows_b': rows_b, 'a': a, 'b': b, 'op': opn[i % 3]}
    else:
        # every pair of (dtype pattern over two dtypes, layout) for m <= 3 columns; for m = 4 every pair of layouts under
        # selected dtype patterns (uniform: all 34 x 34 layouts; run structures that differ: the values route)
        for m in (0, 1, 2, 3):
            sides = list(all_sides(m, ['int64', 'float64']))
            for n, ((da, la), (db, lb)) in enumerate(itertools.product(sides, sides)):
                rows = (2, 2, 1, 0, 3)[n % 5]
                yield {'k': 'bo_tb', 'rows': rows, 'a': side_of(da, la, rows, cell_a), 'b': side_of(db, lb, rows, cell_b), 'op': opn[n % 3]}
        I, F = 'int64', 'float64'
        pats = [([I] * 4, [I] * 4), ([I] * 4, [F] * 4), ([I, I, F, F], [I, I, F, F]), ([I, F, F, F], [I, I, I, F]), ([I, F, I, F], [I, F, I, F]),
                ([I] * 4, [I, F, I, F]), ([I, I, F, F], [I] * 4), ([I, F, F, I], [I, I, F, F]), ([I, I, I, F], [F, I, I, I])]
        n = 0
        for da, db in pats:
            for la in gen.layouts_for(da):
                for lb in gen.layouts_for(db):
                    n += 1
                    rows = (2, 1, 2, 3)[n % 4]
                    yield {'k': 'bo_tb', 'rows': rows, 'a': side_of(da, la, rows, cell_a), 'b': side_of(db, lb, rows, cell_b), 'op': opn[n % 3]}
        # shapes that differ (NotImplementedError) and zero columns (ErrorInitTypeBlocks), all layouts of 2 / 3 columns
        for m, mb, rows, rows_b in ((2, 3, 2, 2), (3, 2, 2, 2), (2, 2, 2, 3), (2, 2, 0, 1), (0, 0, 2, 3), (0, 1, 2, 2), (3, 3, 1, 2)):
            for da, la in all_sides(m, ['int64', 'float64']):
                for db, lb in all_sides(mb, ['int64', 'float64']):
                    yield {'k': 'bo_tb', 'rows': rows, 'rows_b': rows_b, 'a': side_of(da, la, rows, cell_a), 'b': side_of(db, lb, rows_b, cell_b), 'op': 'sub'}
        for i in range(6000):
            rows = rng.choice([0, 1, 2, 3, 4])
            m = rng.choice([2, 3, 4, 5, 6, 7])
            a = rand_side(rng, m, rows, DTS, cell_a)
            b = rand_side(rng, m, rows, DTS, cell_b)
            yield {'k': 'bo_tb', 'rows': rows, 'a': a, 'b': b, 'op': opn[i % 3]}
    # -- TypeBlocks (op) array
    if quick:
        for i in range(1600):
            rows = rng.choice([0, 1, 2, 3])
            m = rng.choice([0, 1, 2, 3, 4, 5])
            a = rand_side(rng, m, rows, rng.choice([['int64', 'float64'], DTS]), cell_a)
            if rng.random() < 0.55:
                # an accepted shape with the axis it needs
                nd, shape, axis = rng.choice([(0, (), rng.choice([0, 1])), (1, (1,), rng.choice([0, 1])), (1, (m,), 0), (1, (m,), 0),
                                              (1, (rows,), 1), (1, (rows,), 1), (2, (rows, m), rng.choice([0, 1])), (2, (rows, m), 0)])
            else:
                nd, shape = rng.choice(other_shapes(rows, m))
                axis = rng.choice([0, 0, 1, 1, 2, -1])
            o = other_of(nd, shape, rng.choice(['int64', 'float64', 'int32', 'object']), py=nd <= 1 and rng.random() < 0.15)
            yield {'k': 'bo_arr', 'rows': rows, 'a': a, 'other': o, 'axis': axis, 'op': opn[i % 3]}
    else:
        n = 0
        for rows in (0, 1, 2, 3):
            for m in (0, 1, 2, 3, 4):
                pats = [['int64'] * m] + ([[('int64', 'float64')[j % 2] for j in range(m)], ['int64'] * (m - 1) + ['float64']] if m >= 2 else [])
                for dts in pats:
                    for lay in gen.layouts_for(dts):
                        for nd, shape in other_shapes(rows, m):
                            for axis in (0, 1, 2):
                                n += 1
                                o = other_of(nd, shape, ('int64', 'float64', 'object')[n % 3], py=nd <= 1 and n % 7 == 0)
                                yield {'k': 'bo_arr', 'rows': rows, 'a': side_of(dts, lay, rows, cell_a), 'other': o, 'axis': axis, 'op': opn[n % 3]}
    # -- the public operator under two layouts of both operands
    for i in range(500 if quick else 5000):
        rows = rng.choice([1, 2, 3])
        m = rng.choice([2, 3, 4, 5])
        pool = rng.choice([['int64', 'float64'], ['int64', 'float64', 'object'], ['int64']])
        a = rand_side(rng, m, rows, pool, cell_a)
        b = rand_side(rng, m, rows, pool, cell_b)
        yield {'k': 'bo_frame', 'rows': rows, 'a': a, 'b': b, 'op': opn[i % 3],
               'la2': rng.choice(gen.layouts_for(a['dts'])), 'lb2': rng.choice(gen.layouts_for(b['dts']))}


def nontrivial(c):
    return len(c['a']['dts']) >= 2


# ------------------------------------------------------------------ model lines
def model_lines(c):
    k = c['k']
    if k == 'bo_frame':
        return []
    rows = c['rows']
    ta = build_tb(c['a'], rows)
    f = OPS[c['op']]
    if k == 'bo_tb':
        tb = build_tb(c['b'], c.get('rows_b', rows))
        table = table_wire(f, tb_dtypes_for_table(ta), tb_dtypes_for_table(tb))
        return [f'tbbinop.apply {tb_wire(ta)} {rd_tok(ta)} {tb_wire(tb, "tb " + rd_tok(tb))} 0 {c["op"]} {table}',
                f'tbbinop.diag {tb_wire(ta)} {tb_wire(tb)}']
    arr = as_array(build_other(c['other']))
    table = table_wire(f, tb_dtypes_for_table(ta), [arr.dtype], other_ndim=arr.ndim)
    return [f'tbbinop.apply {tb_wire(ta)} {rd_tok(ta)} {other_wire(arr)} {c["axis"]} {c["op"]} {table}']


def parse_apply(ans):
    if ans.startswith('err '):
        return ('err', ans[4:].strip())
    assert ans.startswith('ok '), ans
    e = parse_sexp(ans[3:])
    path, t = e[0], e[1]
    cols, dts, layout = [], [], []
    for b in t[2:]:
        if b[0] == 'd1':
            cols.append([int(x) for x in b[2:]])
            dts.append(b[1])
            layout.append([1, False])
        else:
            for col in b[2:]:
                cols.append([int(x) for x in col])
                dts.append(b[1])
            layout.append([len(b) - 2, True])
    return ('ok', path, {'rows': int(t[1]), 'cols': cols, 'dtypes': dts, 'layout': layout})


# ------------------------------------------------------------------ evaluation
def run_real(ta, f, other, axis):
    try:
        return ('ok', tb_view(ta._ufunc_binary_operator(operator=f, other=other, axis=axis)))
    except Exception as ex:
        return ('err', err_cat(ex), type(ex).__name__)


def real_path_tb(ta, tb):
    """the branch the real method takes for a TypeBlocks operand, from the real predicates"""
    if ta.block_compatible(tb, axis=None):
        return 'compatible'
    if ta._shape == tb._shape:
        return 'reblock' if ta.reblock_compatible(tb) else 'values'
    return None


def ref_path_arr(shape, arr, axis):
    rows, m = shape
    if arr.ndim == 0 or (arr.ndim == 1 and len(arr) == 1):
        return 'scalar'
    if arr.ndim == 1:
        if axis == 0 and len(arr) == m:
            return 'rows'
        if axis == 1 and len(arr) == rows:
            return 'columnar'
        return None
    if arr.ndim == 2 and arr.shape == (rows, m):
        return 'array2d'
    return None


def values_dtype(tb):
    """the dtype of tb.values as _blocks_to_array decides it"""
    return tb._blocks[0].dtype if len(tb._blocks) == 1 else tb._row_dtype


def evaluate(ctx, c, outs):
    if c['k'] == 'bo_frame':
        return eval_frame(ctx, c)
    fails = []
    rows = c['rows']
    a = c['a']
    m = len(a['dts'])
    ta = build_tb(a, rows)
    f = OPS[c['op']]
    pyop = f
    ctx.count(c['k'])
    if c['k'] == 'bo_tb':
        b = c['b']
        rows_b = c.get('rows_b', rows)
        tb = build_tb(b, rows_b)
        real = run_real(ta, f, tb, 0)
        rpath = real_path_tb(ta, tb)
        what = f'TypeBlocks {c["op"]} TypeBlocks rows={rows}/{rows_b} a={a["dts"]}{a["layout"]} b={b["dts"]}{b["layout"]}'
        # reference: column j (op) column j, from the case alone
        if (rows, m) != (rows_b, len(b['dts'])):
            ref = ('err', 'shape')
        elif m == 0:
            ref = ('err', 'init')
        else:
            ref = ('ok', [[pyop(x, y) for x, y in zip(ca, cb)] for ca, cb in zip(a['v'], b['v'])],
                   [dtype_tok(res_dtype(f, da, db)) for da, db in zip(a['dts'], b['dts'])])
    else:
        other = build_other(c['other'])
        arr = as_array(other)
        axis = c['axis']
        real = run_real(ta, f, other, axis)
        rpath = ref_path_arr((rows, m), arr, axis)
        what = f'TypeBlocks {c["op"]} array{tuple(arr.shape)} axis={axis} rows={rows} a={a["dts"]}{a["layout"]}'
        if rpath is None:
            ref = ('err', 'shape')
        elif m == 0:
            ref = ('err', 'init')
        else:
            if rpath == 'scalar':
                v = cell_int(arr.reshape(-1)[0])
                cells = [[pyop(x, v) for x in col] for col in a['v']]
            elif rpath == 'rows':
                vs = [cell_int(x) for x in arr.tolist()]
                cells = [[pyop(x, vs[j]) for x in col] for j, col in enumerate(a['v'])]
            elif rpath == 'columnar':
                vs = [cell_int(x) for x in arr.tolist()]
                cells = [[pyop(x, vs[i]) for i, x in enumerate(col)] for col in a['v']]
            else:
                cells = [[pyop(x, cell_int(arr[i, j])) for i, x in enumerate(col)] for j, col in enumerate(a['v'])]
            ref = ('ok', cells, [dtype_tok(res_dtype(f, da, arr.dtype, arr.ndim)) for da in a['dts']])
    ctx.count(f'bo_path_{rpath}' if real[0] == 'ok' else f'bo_err_{real[1]}')
    # ---- oracle: the real code against the layout-free reference
    values_route = c['k'] == 'bo_tb' and rpath == 'values'
    finding = None
    if ref[0] == 'err':
        if real[0] != 'err' or real[1] != ref[1]:
            fails.append(Failure('oracle', f'{what}: expected error {ref[1]}, got {str(real)[:120]}', c))
    elif real[0] != 'ok':
        fails.append(Failure('oracle', f'{what}: raised {real[1:]}', c))
    else:
        r = real[1]
        if r['rows'] != rows or len(r['cols']) != m:
            fails.append(Failure('oracle', f'{what}: result shape ({r["rows"]}, {len(r["cols"])})', c))
        elif r['cols'] != ref[1]:
            # beyond 2**53 the conversion to the float64 row dtype of the .values route rounds: recorded (F74) when the
            # model (which performs that conversion) agrees with the real result
            finding = FINDING if values_route and c.get('big') else None
            fails.append(Failure('oracle', f'{what}: cells {r["cols"]} expected {ref[1]}', c, finding=finding))
        elif r['dtypes'] != ref[2]:
            # the .values route resolves ONE dtype for the whole result from the two row dtypes
            exp = [dtype_tok(res_dtype(f, values_dtype(ta), values_dtype(tb)))] * m if values_route else None
            finding = FINDING if exp == r['dtypes'] else None
            ctx.count('bo_dtype_layout_dependent')
            fails.append(Failure('oracle', f'{what}: result dtypes {r["dtypes"]}, per column {ref[2]}', c, finding=finding))
    # ---- correspondence: the model against the real code
    if outs:
        mod = parse_apply(outs[0])
        if real[0] == 'err':
            if mod[0] != 'err' or mod[1] != real[1]:
                fails.append(Failure('corr', f'{what}: model {outs[0][:120]} vs real error {real[1:]}', c))
        elif mod[0] != 'ok':
            fails.append(Failure('corr', f'{what}: model {outs[0][:120]} vs real ok', c))
        else:
            if mod[2] != real[1]:
                fails.append(Failure('corr', f'{what}: model {mod[2]} vs real {real[1]}', c))
            if mod[1] != rpath:
                fails.append(Failure('corr', f'{what}: model took branch {mod[1]}, the real predicates give {rpath}', c))
        if c['k'] == 'bo_tb' and len(outs) > 1:
            sig = lambda t: sx(*[sx(dtype_tok(d), int(n)) for d, n in t._reblock_signature()])
            rb = type(ta).from_blocks(ta._reblock(), shape_reference=ta._shape)
            exp = 'ok ' + sx(int(ta.block_compatible(tb, axis=None)), int(ta.reblock_compatible(tb)), sig(ta), sig(tb),
                             sx(*[sx(s.start, s.stop) for s in ta._block_shape_slices()]), tb_wire(rb))
            ctx.count('bo_diag')
            if outs[1] != exp:
                fails.append(Failure('corr', f'{what}: diag model {outs[1][:200]} vs real {exp[:200]}', c))
    return fails


def frame_of(side, rows, layout):
    import static_frame as sf
    s = dict(side, layout=layout)
    return sf.Frame(build_tb(s, rows), own_data=True)


def frame_view(fr):
    v = tb_view(fr._blocks)
    return (v['rows'], v['cols'], v['dtypes'])


def eval_frame(ctx, c):
    fails = []
    rows, a, b = c['rows'], c['a'], c['b']
    f = OPS[c['op']]
    ctx.count('bo_frame')
    res, routes, rcs = [], [], []
    for la, lb in ((a['layout'], b['layout']), (c['la2'], c['lb2'])):
        fa, fb = frame_of(a, rows, la), frame_of(b, rows, lb)
        routes.append(real_path_tb(fa._blocks, fb._blocks))
        rcs.append(bool(fa._blocks.reblock_compatible(fb._blocks)))
        try:
            res.append(('ok',) + frame_view(f(fa, fb)))
        except Exception as ex:
            res.append(('err', err_cat(ex)))
    ctx.count(f'bo_frame_routes_{"_".join(sorted(map(str, routes)))}')
    # reblock_compatible is a function of the per-column dtypes (SF.C03.reblock_compatible_layout_free); same dtypes on both
    # sides -> never the values route (SF.C03.same_dtypes_reblock_compatible)
    if rcs[0] != rcs[1] or (a['dts'] == b['dts'] and not rcs[0]):
        fails.append(Failure('oracle', f'reblock_compatible depends on the layout: {rcs} for a={a["dts"]}{a["layout"]}/{c["la2"]} b={b["dts"]}{b["layout"]}/{c["lb2"]}', c))
    if res[0] != res[1]:
        same_cells = res[0][0] == res[1][0] == 'ok' and res[0][1:3] == res[1][1:3]
        finding = FINDING if 'values' in routes and (same_cells or c.get('big')) else None
        fails.append(Failure('oracle', f'Frame {c["op"]} Frame differs between layouts a={a["layout"]} b={b["layout"]} and a={c["la2"]} b={c["lb2"]} '
                                       f'(dtypes a={a["dts"]} b={b["dts"]}): {str(res[0])[:150]} vs {str(res[1])[:150]}', c, finding=finding))
    return fails
