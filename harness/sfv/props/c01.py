"""C01 - immutability: no public operation changes an existing static container.

A case is a *program*: containers are built from caller-held NumPy arrays through public
constructors, then 1..8 public calls run over the pool of live containers (every public
property / zero-argument method found by a dir()/signature walk, the selector and iterator
interfaces with keys, and the argument-carrying catalogue of sfv.ops).  After every call:
  * every ndarray reachable from a live container or from the returned object must be read-only;
  * the deep snapshot of every live container must be what it was;
  * the caller writes through every array it still holds writeable, and through any returned array
    that is (wrongly) writeable, and the snapshots must still be unchanged.
The observed heap (array objects, their buffers, flags, which container reaches which array) is
handed to the Lean model, which evaluates its invariant on it; constructor programs are also
replayed as event traces through the model (legal / visible-write predictions).
"""
from __future__ import annotations

import copy
import inspect
import os
import pickle
import tempfile

import numpy as np

from check import Failure
from sfv import gen, ops
from sfv.canon import tok, untok, err_cat, dtype_tok, array_toks, frame_snapshot, series_snapshot, index_snapshot

TARGETS = ['SFModel.Props.C01']
THEOREMS = ['SF.C01.inv_step', 'SF.C01.snapshot_stable_step', 'SF.C01.snapshot_stable', 'SF.C01.filter_isolates',
            'SF.C01.filter_keeps_frozen', 'SF.C01.copy_freeze_isolated', 'SF.C01.construct_after_filter_legal']
PARTIAL = []
CORR_ONLY = ['which library call performs which heap events is not modelled per call: the model invariant is evaluated on the heap observed after each real call (trace validation), and constructor programs are replayed as event traces']
RULE = ('seeded programs: 1..3 containers (Frame, Series, Index, IndexHierarchy, HE / GO variants) built from caller-held arrays '
        '(writeable, read-only, views, 0-sized; all dtype kinds; random layouts), then 1..8 public calls; non-trivial = at least one '
        'call returned a container or array; distinct = distinct program JSON')
TRUSTED = ['NumPy enforces flags.writeable and derives views of read-only arrays read-only (sampled by the harness on every run)',
           'np.shares_memory / __array_interface__ as buffer identity']
ASSUMPTIONS = ['assigning to public slots (Series.values = ...) and flipping flags.writeable on an array that owns its data are outside "public calls"',
               'a caller-supplied array that is already read-only while the caller holds a writeable base is the alias the statement permits: not generated']
BUDGET = {'quick': 200, 'thorough': 1700}

SKIP_ATTRS = {'interface', 'to_clipboard', 'to_pandas', 'to_xarray', 'to_arrow', 'to_hdf5', 'to_sqlite', 'to_xlsx', 'to_parquet',
              'to_msgpack', 'to_npz', 'to_npy', 'mloc', 'memory', 'via_fill_value', 'via_re', 'nbytes', 'to_latex', 'to_html_datatables',
              'display_tall', 'display_wide', 'to_visidata', 'to_markdown', 'to_rst', 'to_html', 'to_xlsx', 'via_T'}


def nontrivial(c):
    return len(c['steps']) >= 1


# ------------------------------------------------------------------ heap walk
def sf_object(o):
    return type(o).__module__.startswith('static_frame')


def walk_arrays(root, limit=4000):
    """All ndarrays reachable from `root` through static-frame objects, lists, tuples and dicts."""
    out, seen, stack = [], set(), [root]
    while stack and len(seen) < limit:
        o = stack.pop()
        if id(o) in seen:
            continue
        seen.add(id(o))
        if isinstance(o, np.ndarray):
            if o.dtype == object and o.size and any(sf_object(x) for x in o.reshape(-1)[:4]):
                # an internal array of static-frame objects (IndexLevel targets inside ArrayGO): not obtainable
                # through the public interface; walk its members instead
                stack.extend(list(o.reshape(-1)[:200]))
                continue
            out.append(o)
            continue
        if isinstance(o, (list, tuple)):
            stack.extend(o[:200])
        elif isinstance(o, dict):
            stack.extend(list(o.values())[:200])
        elif isinstance(o, np.ma.MaskedArray):
            pass
        elif sf_object(o):
            for cls in type(o).__mro__:
                for s in getattr(cls, '__slots__', ()):
                    try:
                        stack.append(getattr(o, s))
                    except AttributeError:
                        pass
            d = getattr(o, '__dict__', None)
            if d:
                stack.extend(d.values())
    return out


def buffer_key(a):
    """identity of the memory an array reads: address of its ultimate base (or itself)"""
    b = a
    while isinstance(getattr(b, 'base', None), np.ndarray):
        b = b.base
    return id(b) if b.size == 0 else b.__array_interface__['data'][0]


def lookups(ix):
    """What the index ANSWERS for its own labels (label -> position, membership): a label map or the offsets of a hierarchy can be
    damaged while the labels themselves still read the same.  All labels of a small index, both ends of a long one."""
    labs = list(ix)
    pos = list(range(len(labs))) if len(labs) <= 48 else list(range(16)) + list(range(len(labs) - 16, len(labs)))
    out = []
    for p in pos:
        lab = labs[p]
        lab = tuple(lab) if ix.depth > 1 else lab
        try:
            r = ix.loc_to_iloc(lab)
            out.append(int(r) if isinstance(r, (int, np.integer)) else repr(r)[:40])
        except Exception as ex:
            out.append('err:' + err_cat(ex))
    return tuple(out)


def snap(o):
    import static_frame as sf
    from static_frame.core.index_base import IndexBase
    if isinstance(o, sf.Frame):
        return {'snap': frame_snapshot(o), 'index_answers': lookups(o.index), 'columns_answers': lookups(o.columns)}
    if isinstance(o, sf.Series):
        return {'snap': series_snapshot(o), 'index_answers': lookups(o.index)}
    if isinstance(o, IndexBase):
        return {'snap': index_snapshot(o), 'answers': lookups(o)}
    return None


def is_container(o):
    import static_frame as sf
    from static_frame.core.index_base import IndexBase
    return isinstance(o, (sf.Frame, sf.Series, IndexBase))


# ------------------------------------------------------------------ program generation
WRAPS = ['plain', 'plain', 'subclass', 'memmap', 'masked', 'arrayarray', 'recarray_field', 'fortran']


class ArraySub(np.ndarray):
    """an ndarray subclass as a caller might hold (np.matrix-like wrappers, unit arrays ...)"""


def wrap_array(a, wrap, caller, tmpdir):
    """Return an array-like with the content of 1-D array `a`, held (and later written) by the caller."""
    import array as pyarray
    if wrap == 'subclass' and a.dtype.kind in 'iufb':
        w = a.copy().view(ArraySub)
        caller.append(w)
        return w
    if wrap == 'memmap' and a.dtype.kind in 'iuf' and a.size:
        fp = os.path.join(tmpdir, f'mm{len(caller)}.dat')
        w = np.memmap(fp, dtype=a.dtype, mode='w+', shape=a.shape)
        w[:] = a
        caller.append(w)
        return w
    if wrap == 'masked' and a.dtype.kind in 'iuf':
        w = np.ma.MaskedArray(a.copy())
        caller.append(w.data)
        return w
    if wrap == 'arrayarray' and a.dtype in (np.dtype('int64'), np.dtype('float64')):
        w = pyarray.array('q' if a.dtype.kind == 'i' else 'd', a.tolist())
        caller.append(w)
        return w
    if wrap == 'fortran' and a.dtype.kind in 'iuf':
        base = np.asfortranarray(np.stack([a, a], axis=1))
        caller.append(base)
        return base[:, 0]
    caller.append(a)
    return a


CONSTRUCT = ['index_from_go', 'frame_go_to_frame', 'ih_from_ihgo', 'frame_2d', 'frame_items', 'frame_blocks', 'series', 'series_he', 'index', 'index_go', 'ih', 'frame_he', 'frame_go', 'frame_records', 'series_readonly', 'frame_view',
             'frame_structured', 'frame_concat_2d', 'ih_from_go', 'series_go_index', 'frame_go_axes']


def cases(ctx):
    rng = ctx.rng('main')
    quick = ctx.tier == 'quick'
    for i in range(450 if quick else 9000):
        ncont = rng.randint(1, 2)
        conts = []
        for _ in range(ncont):
            how = rng.choice(CONSTRUCT)
            spec = gen.rand_frame_spec(rng, 4, 4, dtypes=rng.choice([gen.DTYPES_BASIC, gen.DTYPES_ALL, ['int64', 'float64']]),
                                       index_kinds=('auto', 'str', 'ih', 'date'), column_kinds=('auto', 'str'), min_cols=1, min_rows=rng.choice([0, 1, 1]))
            conts.append([how, spec, rng.choice(WRAPS)])
        steps = []
        for _ in range(rng.randint(1, 8)):
            r = rng.random()
            if r < 0.5:
                steps.append(['auto', rng.randint(0, 7), rng.randint(0, 10 ** 6)])
            elif r < 0.85:
                name = rng.choice(ops.catalogue_names())
                steps.append(['op', rng.randint(0, 7), name, rng.randint(0, 10 ** 6)])
            elif r < 0.88:
                steps.append([rng.choice(['pickle', 'deepcopy', 'copy', 'selector']), rng.randint(0, 7), rng.randint(0, 10 ** 6)])
            elif r < 0.93:
                # operators and one-argument methods that return arrays or containers
                steps.append(['call1', rng.randint(0, 7), rng.randint(0, 10 ** 6)])
            else:
                # a public call that is handed an array the caller keeps (and later writes to)
                steps.append(['arr_arg', rng.randint(0, 7), rng.randint(0, 10 ** 6)])
        if i % (90 if quick else 1500) == 7:
            # a container longer than anything built so far in this process: library-wide caches that grow on demand
            # (the shared positions buffer) are rebuilt, and what they hand out afterwards must still be read-only
            steps.insert(rng.randint(0, len(steps) - 1), ['big', 0, rng.randint(0, 10 ** 6)])
        yield {'k': 'prog', 'conts': conts, 'steps': steps}


def build(how, spec, caller, wrap='plain', tmpdir=None):
    """Build a container through a public constructor from caller-held arrays (appended to `caller`)."""
    import static_frame as sf
    n, m = spec['rows'], len(spec['cols'])
    arrays = [gen.col_array(c['dt'], c['v']) for c in spec['cols']]
    index = gen.build_index(spec['index'])
    columns = gen.build_index(spec['columns'])
    if how == 'frame_2d':
        dt = np.result_type(*[a.dtype for a in arrays]) if len({a.dtype for a in arrays}) > 1 else arrays[0].dtype
        try:
            a2 = np.empty((n, m), dtype=dt)
            for j, a in enumerate(arrays):
                a2[:, j] = a
        except Exception:
            a2 = np.empty((n, m), dtype=object)
            for j, a in enumerate(arrays):
                a2[:, j] = a
        caller.append(a2)
        return sf.Frame(a2, index=index, columns=columns)
    if how in ('frame_items', 'frame_go', 'frame_he'):
        cls = {'frame_items': sf.Frame, 'frame_go': sf.FrameGO, 'frame_he': sf.FrameHE}[how]
        arrays = [wrap_array(a, wrap, caller, tmpdir) for a in arrays]
        labels = list(columns) if columns is not None else list(range(m))
        return cls.from_items(zip(labels, arrays), index=index)
    if how == 'frame_blocks':
        blocks = gen.build_blocks(spec)
        caller.extend(blocks)
        return sf.Frame(sf.TypeBlocks.from_blocks(blocks), index=index, columns=columns)
    if how in ('index_from_go', 'frame_go_to_frame', 'ih_from_ihgo'):
        # STATIC containers made from a grow-only container the caller keeps and grows afterwards: the label map of a static
        # index must be its own (a typed - datetime - index takes another route through Index.__init__ than an untyped one)
        typed = n % 2 == 0
        go = sf.IndexDateGO(('2020-01-01', '2020-01-02', '2020-01-05')) if typed else sf.IndexGO(('a', 'b', 'c'))
        caller.append(go)
        if how == 'index_from_go':
            return (sf.IndexDate if typed else sf.Index)(go)
        if how == 'frame_go_to_frame':
            g = sf.FrameGO(np.arange(6).reshape(2, 3), columns=go, own_columns=True)
            caller.append(g)
            return g.to_frame()
        hgo = sf.IndexHierarchyGO.from_product(('p', 'q'), go)
        caller.append(hgo)
        return sf.IndexHierarchy(hgo)
    if how in ('ih_from_go', 'series_go_index', 'frame_go_axes'):
        # containers built from grow-only indexes the caller keeps (and later grows): a static container must not follow
        outer = sf.IndexGO(('a', 'b'))
        inner = sf.IndexDateGO(('2020-01-01', '2020-01-02')) if n % 2 else sf.IndexGO((1, 2, 3))
        caller.extend([outer, inner])
        if how == 'ih_from_go':
            return sf.IndexHierarchy.from_product(outer, inner)
        if how == 'series_go_index':
            return sf.Series(np.arange(len(inner)), index=inner)
        return sf.Frame(np.arange(len(inner) * 2).reshape(len(inner), 2), index=inner, columns=outer)
    if how == 'frame_structured':
        # a structured array the caller keeps: every column of the Frame is a field of it
        num = [(f'c{j}', a) for j, a in enumerate(arrays) if a.dtype.kind in 'iufb']
        if not num:
            num = [('c0', np.arange(n))]
        sa = np.empty(n, dtype=[(nm, a.dtype) for nm, a in num])
        for nm, a in num:
            sa[nm] = a
        caller.append(sa)
        return sf.Frame.from_structured_array(sa)
    if how == 'frame_concat_2d':
        # several 2-D blocks of one dtype side by side (what operators and concatenation produce)
        a2 = np.arange(n * 2, dtype=np.int64).reshape(n, 2)
        b2 = (np.arange(n * 3, dtype=np.int64) * 7).reshape(n, 3)
        caller.extend([a2, b2])
        return sf.Frame.from_concat((sf.Frame(a2, index=index), sf.Frame(b2, index=index, columns=('x', 'y', 'z'))), axis=1)
    if how == 'frame_view':
        base = np.zeros((n + 1, m + 1))
        view = base[1:, 1:]
        caller.append(base)
        return sf.Frame(view, index=index, columns=columns)
    if how == 'frame_records':
        recs = [[untok(c['v'][i]) for c in spec['cols']] for i in range(n)]
        return sf.Frame.from_records(recs, index=index, columns=columns) if n else sf.Frame(columns=columns if columns is not None else range(m))
    if how in ('series', 'series_he'):
        cls = sf.Series if how == 'series' else sf.SeriesHE
        return cls(wrap_array(arrays[0], wrap, caller, tmpdir), index=index)
    if how == 'series_readonly':
        a = arrays[0].copy()
        a.flags.writeable = False      # the caller gives up writing: the library may use the array as it is
        return sf.Series(a, index=index)
    if how in ('index', 'index_go'):
        labs = np.array([untok(t) for t in spec['index']['labels']], dtype=object) if spec['index']['kind'] != 'date' else np.array([untok(t) for t in spec['index']['labels']])
        if spec['index']['kind'] == 'ih':
            return gen.build_index(spec['index'], go=how == 'index_go')
        try:
            labs2 = np.array([untok(t) for t in spec['index']['labels']])
            if labs2.ndim == 1:
                labs = labs2
        except Exception:
            pass
        return (sf.IndexGO if how == 'index_go' else sf.Index)(wrap_array(labs, wrap, caller, tmpdir))
    if how == 'ih':
        outer = np.array(['a', 'b'])
        inner = np.array([1, 2, 3])
        caller.extend([outer, inner])
        if n % 3 == 0:
            # depth 3, several outer labels: the offsets of the inner nodes matter
            return sf.IndexHierarchy.from_product(outer, inner, ('x', 'y'))
        if n % 3 == 1:
            return sf.IndexHierarchy.from_labels([('a', 1, 'x'), ('a', 1, 'y'), ('a', 2, 'x'), ('b', 1, 'y'), ('b', 3, 'x'), ('b', 3, 'z'), ('c', 2, 'w')])
        return sf.IndexHierarchy.from_product(outer, inner)
    raise ValueError(how)


def auto_targets(o):
    """(kind, name) for every public property and zero-argument method of the container's class."""
    out = []
    cls = type(o)
    for name in sorted(dir(cls)):
        if name.startswith('_') or name in SKIP_ATTRS or name.startswith('from_'):
            continue
        try:
            attr = inspect.getattr_static(cls, name)
        except AttributeError:
            continue
        if isinstance(attr, property):
            out.append(('prop', name))
        elif isinstance(attr, (staticmethod, classmethod)):
            continue
        elif callable(attr):
            try:
                sig = inspect.signature(attr)
            except (TypeError, ValueError):
                continue
            params = list(sig.parameters.values())[1:]
            if all(p.default is not inspect.Parameter.empty or p.kind in (p.VAR_POSITIONAL, p.VAR_KEYWORD) for p in params):
                out.append(('call0', name))
        else:
            out.append(('prop', name))
    return out


def consume(res, r):
    """Drive interface objects so that they produce containers / arrays."""
    import static_frame as sf
    name = type(res).__name__
    if name.startswith('IterNode'):
        try:
            it = res(axis=r % 2)
        except TypeError:
            it = res()
        return list(it)[:6]
    if name.startswith('InterfaceGetItem') or name.startswith('InterfaceSelect') or name.startswith('InterfaceAssign') or name.startswith('InterfaceAsType'):
        out = []
        for sel in ('iloc', 'loc'):
            g = getattr(res, sel, None)
            if g is not None and sel == 'iloc':
                for key in (slice(None), slice(0, 1), [0]):
                    try:
                        v = g[key]
                        if 'Assign' in name:
                            v = v(0)
                        elif 'AsType' in name:
                            v = v(object)
                        out.append(v)
                    except Exception:
                        pass
        try:
            v = res[slice(None)]
            if 'Assign' in name:
                v = v(0)
            elif 'AsType' in name:
                v = v(object)
            out.append(v)
        except Exception:
            pass
        return out
    if hasattr(res, '__next__') or name in ('generator', 'zip', 'map', 'dict_keyiterator'):
        out = []
        for k, x in enumerate(res):
            out.append(x)
            if k > 6:
                break
        return out
    return res


def run_step(step, live, r_aux):
    """returns the result object (or raises)"""
    import static_frame as sf
    kind = step[0]
    tgt = live[step[1] % len(live)]
    if kind == 'auto':
        targets = auto_targets(tgt)
        k, name = targets[step[2] % len(targets)]
        step_desc = f'{type(tgt).__name__}.{name}'
        res = getattr(tgt, name)
        if k == 'call0':
            res = res()
        return step_desc, consume(res, step[2])
    if kind == 'op':
        name = step[2]
        if not isinstance(tgt, sf.Frame):
            tgt = next((o for o in live if isinstance(o, sf.Frame)), None)
            if tgt is None:
                raise LookupError('no frame')
        import random
        rng = random.Random(step[3])
        spec_like = {'rows': tgt.shape[0], 'cols': [{'dt': 'x'}] * tgt.shape[1]}
        if tgt.shape[1] == 0:
            raise LookupError('no columns')
        args = ops.rand_args(name, rng, spec_like)
        return f'Frame.{name}{args}', ops.CATALOGUE[name][1](tgt, args)
    if kind == 'big':
        global BIG_NEXT
        n = BIG_NEXT
        # doubling stops at BIG_CAP: a run of several passes in one process (change-directed escalation) must not grow without bound
        BIG_NEXT = min(BIG_NEXT * 2 + 1, BIG_CAP)
        r = step[2] % 3
        if r == 0:
            return f'Index(<{n} labels>)', sf.Index(np.arange(n) * 2 + 1)
        if r == 1:
            return f'Series(<{n} values>, index=<{n} labels>)', sf.Series(np.arange(n), index=np.arange(n) * 3 + 1)
        return f'IndexHierarchy.from_product(<{n}>, 2)', sf.IndexHierarchy.from_product(np.arange(n) * 2, ('a', 'b'))
    if kind == 'call1':
        r = step[2]
        v = r % 11
        from static_frame.core.index_base import IndexBase
        if v == 0:
            return f'round({type(tgt).__name__})', round(tgt)
        if v == 1:
            return f'{type(tgt).__name__} + itself', tgt + tgt
        if v == 2:
            return f'{type(tgt).__name__} == itself', tgt == tgt
        if v == 3:
            return f'abs({type(tgt).__name__})', abs(tgt)
        ihs = [x for x in ([tgt] if isinstance(tgt, IndexBase) else [tgt.index] + ([tgt.columns] if isinstance(tgt, sf.Frame) else []))
               if isinstance(x, sf.IndexHierarchy)]
        if v in (4, 5, 6) and ihs and (r // 11) % 2:
            # calls that derive an index with fewer / more / re-arranged levels (a refused call is a call too)
            ih = ihs[0]
            w = (r // 22) % 6
            try:
                if w == 0:
                    return 'IndexHierarchy.level_drop(1)', ih.level_drop(1)
                if w == 1:
                    return 'IndexHierarchy.level_drop(-1)', ih.level_drop(-1)
                if w == 2:
                    return f'IndexHierarchy.level_drop({ih.depth - 1})', ih.level_drop(ih.depth - 1)
                if w == 3:
                    return 'IndexHierarchy.level_add', ih.level_add('top')
                if w == 4:
                    return 'IndexHierarchy.rehierarch(reversed)', ih.rehierarch(list(range(ih.depth))[::-1])
                if not isinstance(tgt, IndexBase):
                    return f'{type(tgt).__name__}.relabel_level_drop(index=1)', tgt.relabel_level_drop(index=1)
                return 'IndexHierarchy.flat', ih.flat()
            except (sf.ErrorInitIndex, NotImplementedError):
                return 'a refused level call', tgt
        if v == 4 and isinstance(tgt, sf.IndexHierarchy):
            return 'IndexHierarchy.unique(depth 1)', tgt.unique(1)
        if v == 5 and isinstance(tgt, sf.IndexHierarchy):
            return 'IndexHierarchy.unique([0, 1])', tgt.unique([0, 1])
        ix = tgt if isinstance(tgt, IndexBase) else tgt.index
        labs = list(ix)[:2]
        if v == 6 and labs and not isinstance(ix, sf.IndexHierarchy):
            return f'{type(ix).__name__}.loc_searchsorted(list)', ix.loc_searchsorted(labs)
        if v == 7 and labs and not isinstance(ix, sf.IndexHierarchy):
            return f'{type(ix).__name__}.iloc_searchsorted(list)', ix.iloc_searchsorted(labs)
        if v == 8 and labs:
            return f'{type(ix).__name__}.isin(list)', ix.isin(labs + ['__absent__'] if not isinstance(ix, sf.IndexHierarchy) else labs)
        if v == 9 and isinstance(tgt, sf.Series) and len(tgt):
            return 'Series.iloc_searchsorted(values)', tgt.iloc_searchsorted(list(tgt.values[:2]))
        if v == 10 and isinstance(tgt, sf.Frame) and tgt.shape[1]:
            return 'Frame.from_concat((f, f), axis=0).values', sf.Frame.from_concat((tgt, tgt), axis=0, index=sf.IndexAutoFactory)
        return f'-{type(tgt).__name__}', -tgt
    if kind == 'arr_arg':
        r = step[2]
        fr = tgt if isinstance(tgt, sf.Frame) else next((o for o in live if isinstance(o, sf.Frame)), None)
        se = tgt if isinstance(tgt, sf.Series) else next((o for o in live if isinstance(o, sf.Series)), None)
        variant = r % 7
        if variant in (0, 1, 2, 3, 4) and fr is not None and fr.shape[0] and fr.shape[1]:
            n, m = fr.shape
            a = (r // 7) % m
            b = min(m, a + 1 + (r // 49) % 3)
            if variant == 0:          # whole columns, 2-D value of the dtype the columns have
                val = np.array(fr.iloc[:, a:b].values)
                CALLER_EXTRA.append(val)
                return f'Frame.assign.iloc[:, {a}:{b}](<caller 2-D array {val.dtype}>)', fr.assign.iloc[:, a:b](val)
            if variant == 1:          # one column, 1-D value
                val = np.array(fr.iloc[:, a].values)
                CALLER_EXTRA.append(val)
                return f'Frame.assign.iloc[:, {a}](<caller 1-D array {val.dtype}>)', fr.assign.iloc[:, a](val)
            if variant == 2:          # some rows
                r1 = max(1, n - 1)
                val = np.array(fr.iloc[:r1, a:b].values)
                CALLER_EXTRA.append(val)
                return f'Frame.assign.iloc[:{r1}, {a}:{b}](<caller 2-D array>)', fr.assign.iloc[:r1, a:b](val)
            if variant == 3:          # a grow-only frame is handed a column
                val = np.array(fr.iloc[:, a].values)
                CALLER_EXTRA.append(val)
                g = fr.to_frame_go()
                g['__caller__'] = val
                return 'FrameGO.__setitem__(<caller 1-D array>)', g
            val = np.array(fr.iloc[:, a:b].values)       # by label
            CALLER_EXTRA.append(val)
            return f'Frame.assign[labels {a}:{b}](<caller 2-D array>)', fr.assign[list(fr.columns)[a:b]](val)
        if se is not None and len(se):
            val = np.array(se.values)
            CALLER_EXTRA.append(val)
            if variant == 5:
                return 'Series.assign.iloc[:](<caller 1-D array>)', se.assign.iloc[:](val)
            return 'Series.isin / reindex with a caller array', se.iloc[: len(val)].assign.iloc[:](val)
        raise LookupError('no target for arr_arg')
    if kind == 'pickle':
        return f'pickle({type(tgt).__name__})', pickle.loads(pickle.dumps(tgt))
    if kind == 'deepcopy':
        return f'deepcopy({type(tgt).__name__})', copy.deepcopy(tgt)
    if kind == 'copy':
        return f'copy({type(tgt).__name__})', copy.copy(tgt)
    if kind == 'selector':
        r = step[2]
        n = len(tgt) if not isinstance(tgt, sf.Frame) else tgt.shape[0]
        keys = [slice(None), slice(1, None), [0] if n else [], np.array([True] * n, dtype=bool), slice(None, None, -1), 0 if n else slice(0, 0)]
        key = keys[r % len(keys)]
        return f'{type(tgt).__name__}.iloc[{key!r}]', tgt.iloc[key]
    raise ValueError(kind)


CALLER_EXTRA = []    # arrays handed to the library by 'arr_arg' steps (moved into the caller's list after the step)
BIG_CAP = 150000
BIG_NEXT = 1100      # length of the next 'big' container (beyond every capacity reached so far in this process)


# ------------------------------------------------------------------ evaluation
HEAP_LINES = []   # (case, line)


def evaluate(ctx, c, outs):
    import static_frame as sf
    import warnings
    fails = []
    caller = []
    live = []
    tmp = tempfile.TemporaryDirectory(prefix='sfv_c01_')
    for ent in c['conts']:
        how, spec = ent[0], ent[1]
        wrap = ent[2] if len(ent) > 2 else 'plain'
        ctx.count(f'wrap_{wrap}')
        try:
            with warnings.catch_warnings():
                warnings.simplefilter('ignore')
                o = build(how, spec, caller, wrap, tmp.name)
        except Exception as ex:
            ctx.count('construct_raised')
            continue
        live.append(o)
        ctx.count(f'construct_{how}')
    if not live:
        tmp.cleanup()
        return fails
    snaps = [snap(o) for o in live]

    def handed_out(o):
        """arrays a container hands out through cheap public accessors (beyond what it references)"""
        out = []
        for name in ('values', 'positions'):
            try:
                a = getattr(o, name)
            except Exception:
                continue
            if isinstance(a, np.ndarray):
                out.append((name, a))
        if isinstance(o, sf.Frame) and o.shape[0] and o.shape[1]:
            try:
                out.append(('iter_array(axis=1) row', next(iter(o.iter_array(axis=1)))))
                out.append(('round(frame) block', round(o)._blocks._blocks[0]))
            except Exception:
                pass
        return out

    def check_all(desc, result):
        # (a0) arrays handed out by the containers of this step
        for o in ([result] if is_container(result) else []) + [x for x in (result if isinstance(result, list) else []) if is_container(x)][:3]:
            for name, a in handed_out(o):
                if a.flags.writeable:
                    fails.append(Failure('oracle', f'after {desc}: {type(o).__name__}.{name} of the returned container is a writeable ndarray (dtype {a.dtype}, shape {a.shape})', c,
                                         detail={'desc': desc, 'where': 'result'}))
        # (a) flags of everything reachable
        objs = list(live) + ([result] if result is not None else [])
        for oi, o in enumerate(objs):
            for a in walk_arrays(o):
                if a.flags.writeable:
                    where = 'the returned object' if (result is not None and oi == len(objs) - 1) else f'live container {oi} ({type(o).__name__})'
                    fails.append(Failure('oracle', f'after {desc}: a writeable ndarray (dtype {a.dtype}, shape {a.shape}) is reachable from {where}', c,
                                         detail={'desc': desc, 'where': 'result' if 'returned' in where else 'container'}))
                    # demonstrate: write through it and look for a visible change
                    try:
                        if a.size:
                            flat = a.reshape(-1)
                            flat[0] = flat[-1] if a.size > 1 else flat[0]
                    except Exception:
                        pass
        # (b) snapshots
        for i, o in enumerate(live[:len(snaps)]):
            s2 = snap(o)
            if s2 != snaps[i] and not getattr(o, 'STATIC', True) is False:
                fails.append(Failure('oracle', f'after {desc}: live container {i} ({type(o).__name__}) changed: {str(snaps[i])[:140]} -> {str(s2)[:140]}', c,
                                     detail={'desc': desc}))
                snaps[i] = s2

    def caller_writes(desc):
        grown_labels = []
        for a in caller:
            if type(a).__module__.startswith('static_frame') and not getattr(a, 'STATIC', True):
                try:            # a grow-only container the caller kept: it grows
                    if isinstance(a, sf.FrameGO):
                        lab = np.datetime64('2031-02-0%d' % (1 + a.shape[1] % 8)) if 'Date' in type(a.columns).__name__ else f'__callercol{a.shape[1]}__'
                        a[lab] = 0
                    elif isinstance(a, sf.IndexHierarchyGO):
                        last = tuple(a.iloc[-1]) if len(a) else None
                        inner_date = last is not None and isinstance(last[-1], np.datetime64)
                        lab = (last[:-1] + ((np.datetime64('2031-03-0%d' % (1 + len(a) % 8)) if inner_date else f'__caller{len(a)}__'),)) if last else None
                        if lab is not None:
                            a.append(lab)
                    else:
                        lab = np.datetime64('2031-01-0%d' % (1 + len(a) % 8)) if 'Date' in type(a).__name__ else f'__caller{len(a)}__'
                        a.append(lab)
                    if lab is not None:
                        grown_labels.append(lab)
                except Exception:
                    pass
                continue
            if not isinstance(a, np.ndarray):
                try:            # stdlib array.array and other buffer objects
                    if len(a):
                        a[0] = a[0] + 1
                except Exception:
                    pass
                continue
            if a.flags.writeable and a.size:
                try:
                    flat = a.reshape(-1)
                    v = flat[0]
                    if a.dtype.kind in 'iuf':
                        with np.errstate(all='ignore'):
                            flat[0] = v + 1
                    elif a.dtype.kind == 'b':
                        flat[0] = not v
                    elif a.dtype.kind == 'U':
                        flat[0] = 'Q'
                    elif a.dtype.kind == 'O':
                        flat[0] = '__caller__'
                    elif a.dtype.kind == 'M':
                        flat[0] = v + np.timedelta64(1, np.datetime_data(a.dtype)[0])
                except Exception:
                    pass
        for i, o in enumerate(live[:len(snaps)]):
            s2 = snap(o)
            if s2 != snaps[i] and getattr(o, 'STATIC', True):
                fails.append(Failure('oracle', f'after {desc}: a write by the caller through the array it supplied is visible in live container {i} ({type(o).__name__})', c))
                snaps[i] = s2
            if getattr(o, 'STATIC', True) and grown_labels:
                # a label the caller appended to ITS grow-only container is not a label of a static container made from it
                from static_frame.core.index_base import IndexBase as _IB
                axes = [o] if isinstance(o, _IB) else [o.index] + ([o.columns] if isinstance(o, sf.Frame) else [])
                for ax in axes:
                    held = {repr(x) for x in ax}
                    for lab in grown_labels:
                        if repr(lab) in held or (isinstance(lab, tuple) != (ax.depth > 1)):
                            continue
                        try:
                            leaked = lab in ax
                        except Exception:
                            leaked = False
                        if leaked:
                            fails.append(Failure('oracle', f'after {desc}: label {lab!r} appended by the caller to its grow-only container is found in live static container {i} ({type(o).__name__}) which does not hold it', c))
                            break

    check_all('construction', None)
    caller_writes('construction')
    observe_heap(ctx, c, live, caller)
    for step in c['steps']:
        src_before = live[step[1] % len(live)] if isinstance(step[1], int) else None
        with warnings.catch_warnings():
            warnings.simplefilter('ignore')
            try:
                desc, res = run_step(step, live, 0)
                ctx.count('calls_ok')
            except Exception as ex:
                ctx.count('calls_raised')
                desc, res = f'{step[:3]} raised {type(ex).__name__}', None
        ctx.count(f'kind_{step[0]}')
        check_all(desc, res)
        if CALLER_EXTRA:
            # the result of the call joins the live containers before the caller writes to what it handed over
            if is_container(res) and len(live) < 8:
                live.append(res)
                snaps.append(snap(res))
            caller.extend(CALLER_EXTRA)
            del CALLER_EXTRA[:]
        caller_writes(desc)
        # returned containers join the pool
        cands = res if isinstance(res, list) else [res]
        for x in cands:
            if isinstance(x, tuple) and len(x) == 2 and is_container(x[1]):
                x = x[1]
            if is_container(x) and len(live) < 8:
                live.append(x)
                snaps.append(snap(x))
            if isinstance(x, np.ndarray) and len(caller) < 12:
                caller.append(x)   # the caller keeps what it was handed
        if step[0] in ('pickle', 'deepcopy', 'copy') and is_container(res):
            src = src_before
            if snap(res) != snap(src) and type(res) is type(src):
                fails.append(Failure('oracle', f'{desc}: content differs after the round trip', c))
    observe_heap(ctx, c, live, caller)
    del caller[:]
    try:
        tmp.cleanup()
    except Exception:
        pass
    return fails


def observe_heap(ctx, c, live, caller):
    """encode the observed heap for the model: arrays (buffer, writeable) and containers (array ids)"""
    arrs, conts, ids = [], [], {}
    bufs = {}

    def aid(a):
        if id(a) not in ids:
            ids[id(a)] = len(arrs)
            b = bufs.setdefault(buffer_key(a), len(bufs))
            arrs.append((b, int(a.flags.writeable)))
        return ids[id(a)]
    for o in live:
        if getattr(o, 'STATIC', True) is False:
            continue
        conts.append([aid(a) for a in walk_arrays(o)])
    for a in caller:
        if isinstance(a, np.ndarray):
            aid(a)
    line = 'heap.inv (' + ' '.join(f'({b} {w})' for b, w in arrs) + ') (' + ' '.join('(' + ' '.join(map(str, cc)) + ')' for cc in conts) + ')'
    HEAP_LINES.append((c, line))


def extra(ctx):
    from sfv import lean
    import sys
    fails = []
    if getattr(sys.modules[__name__], 'MODEL_OFF', False):
        HEAP_LINES.clear()
        return fails
    # constructor traces: the model's prediction of legality / visibility of a caller write
    traces = [
        ('alloc filter construct write0', 'heap.run ((alloc (1 2 3)) (filter 0) (construct (1)) (write 0 0 9))', [1, 1, 1, 1]),
        ('alloc freeze filter construct write0', 'heap.run ((alloc (1 2 3)) (freeze 0) (filter 0) (construct (0)) (write 0 0 9))', [1, 1, 1, 1, 0]),
        ('alloc construct(unfiltered)', 'heap.run ((alloc (1 2 3)) (construct (0)))', [1, 0]),
        ('alloc view freeze(view) construct(view)', 'heap.run ((alloc (1 2 3)) (view 0) (freeze 1) (construct (1)))', [1, 1, 1, 0]),
    ]
    lines = [l for _, l in HEAP_LINES] + [t[1] for t in traces]
    outs = lean.run_driver(lines)
    for (c, line), out in zip(HEAP_LINES, outs):
        ctx.traces += 1
        if out != 'ok 1':
            fails.append(Failure('corr', f'the model invariant does not hold on the observed heap ({out}): a live static container reaches a writeable array or an array whose buffer has a writeable alias', c))
    for (name, line, legal), out in zip(traces, outs[len(HEAP_LINES):]):
        from sfv.tbwire import parse_sexp
        got = [int(s[0]) for s in parse_sexp(out[3:])] if out.startswith('ok ') else None
        if got != legal:
            fails.append(Failure('corr', f'event trace "{name}": model legality {got} vs expected {legal}', {'k': 'trace', 'name': name, 'steps': []}))
    # the real counterpart of the traces
    import static_frame as sf
    a = np.array([1, 2, 3]); s = sf.Series(a); a[0] = 9
    if s.values.tolist() != [1, 2, 3]:
        fails.append(Failure('oracle', 'Series(writeable array): caller write visible', {'k': 'trace', 'name': 'series-copy', 'steps': []}))
    b = np.array([1, 2, 3]); b.flags.writeable = False; s2 = sf.Series(b)
    try:
        b[0] = 9
        fails.append(Failure('oracle', 'NumPy let a write through a read-only array', {'k': 'trace', 'name': 'numpy-flag', 'steps': []}))
    except ValueError:
        pass
    v = s2.values[:2]
    if v.flags.writeable:
        fails.append(Failure('oracle', 'a view of a read-only array is writeable (NumPy assumption broken)', {'k': 'trace', 'name': 'numpy-view', 'steps': []}))
    HEAP_LINES.clear()
    return fails


def model_lines(c):
    return []


def classify(f):
    return None


def search(ctx):
    rng = ctx.rng('search')
    for i in range(3000):
        spec = gen.rand_frame_spec(rng, 3, 3, dtypes=gen.DTYPES_BASIC, index_kinds=('auto', 'str'), column_kinds=('auto', 'str'), min_cols=1, min_rows=1)
        steps = [[rng.choice(['auto', 'auto', 'selector']), rng.randint(0, 7), rng.randint(0, 10 ** 6)] for _ in range(6)]
        yield {'k': 'prog', 'conts': [[rng.choice(CONSTRUCT), spec]], 'steps': steps}
