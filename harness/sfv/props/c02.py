"""C02 - Index: unique labels, exact label-to-position bijection."""
from __future__ import annotations

import itertools

import numpy as np

from check import Failure
from sfv.canon import tok, untok, err_cat
from sfv.props import ixcommon as ic
from sfv.props.ixcommon import H, HT, Interner, parse_answer, check_bijection
from sfv import locmap_hook            # regenerates Gen/LocMap.lean with the other translators (see the module)
from sfv.props import locmap_grid as lmg

TARGETS = ['SFModel.Props.C02'] + locmap_hook.TARGETS
THEOREMS = [
    'SF.C02.mk_ok_iff_nodup', 'SF.C02.wf_bijection', 'SF.C02.bijection', 'SF.C02.auto_bijection',
    'SF.C02.slice_inclusive', 'SF.C02.slice_inclusive_descending', 'SF.C02.go_history', 'SF.C02.extend_atomic', 'SF.C02.append_rejected_unchanged',
    'SF.C02.fromLabels_sound', 'SF.C02.fromLabels_rejects', 'SF.C02.leaf_bijection',
    'SF.C02.appendPinned_counterexample', 'SF.C02.append_repaired_example', 'SF.C02.append_exact',
    'SF.C02.levelGO_history', 'SF.C02.levelGO_extend_rejected',
    'SF.C02.fromLabels_populated', 'SF.C02.level_drop_inner_spec', 'SF.C02.level_drop_inner_bijection', 'SF.C02.levelDropInnerPinned_counterexample',
    'SF.C02.level_drop_inner_repaired_example', 'SF.C02.level_drop_outer_spec', 'SF.C02.level_drop_outer_shared_label_example',
    'SF.C02.levelDropOuterPinned_counterexample', 'SF.C02.level_drop_outer_repaired_example',
    # + LocMap.map_slice_args / the slice branch of LocMap.loc_to_iloc TRANSLATED from the current source = the hand-mirrored
    # Index.mapSliceArgs / Index.locMap the theorems above (slice_inclusive, slice_inclusive_descending) are about
    # (BRIDGE_THEOREMS), and those theorems restated for the translated source (GEN_THEOREMS)
] + locmap_hook.BRIDGE_THEOREMS + locmap_hook.GEN_THEOREMS
PARTIAL = []
CORR_ONLY = [
    'aliasing of tree nodes (shared ArrayGO of targets built by from_product, un-shared by the copy in IndexHierarchy.__init__): the Lean '
    'Level is a value tree without object identity; covered by the oracle only (grow-only histories start from every construction / '
    'conversion route at depth 3-4; the static source and copies taken before the growth must stay unchanged)',
    'automap hashing (model parameter: "insertion raises iff the ==/hash class is present"), isinstance(value, INT_TYPES) (model parameter IntLabel)',
    'typed datetime indices (IndexDate/YearMonth/Year/Second): label conversion and the loose datetime slice branches of LocMap.map_slice_args',
    'derivation routes (selection, drop, relabel, roll, sort, set operations, level_add, flat, astype, rehierarch, copy/rename, static<->GO): tied by the oracle "the result satisfies the bijection" and a list reference (level_drop is modelled as well: Level.levelDropInner / levelDropOuter, compared tree by tree)',
    'from_product / from_tree / from_index_items build the tree without the observed_last builder: compared with the model tree built from the same tuples',
]
RULE = ('label sequences over typed pools (str/int/float/bool/tuple/mixed object/4 datetime units; 1 == 1.0 == True identified by hash class; '
        'with and without repeats) x index class x construction route; auto-integer indices; append/extend histories from mapped and '
        'loc_is_iloc starts; tuple sequences (tree-ordered, non-tree, repeated) x hierarchy routes; derivation routes on flat and hierarchical '
        'indices; thorough: all label lists of length <= 5 over 4 letters, all histories of length <= 4 over 4 candidates from auto starts 0..3, '
        'all tuple sequences of length <= 4 over a 2x2 alphabet; every run: the grid of ALL label slices (start, stop in labels + None + absent, '
        'step in None/1/2/-1/-2, offset None/0/3) over label lists of length 0..4 against the translated LocMap functions; non-trivial = at least 2 labels or an error branch; distinct = canonical case JSON')
TRUSTED = ['sfv.canon.hash_class / ixcommon.H as the reading of Python label identity', locmap_hook.TRUSTED]
ASSUMPTIONS = ['NaN labels excluded (as in the property text)', 'negative integers on auto-integer indices are not probed (finding F13 belongs to C04)']
BUDGET = {'quick': 70, 'thorough': 700}

FLAT_ROUTES = ['ctor', 'from_labels', 'gen', 'tuple', 'array', 'from_index']
IH_ROUTES = ['from_labels', 'from_labels_gen', 'type_blocks', 'from_tree', 'from_index_items', 'from_product', 'from_labels_ctor', 'copy_ctor']
DERIVE_FLAT = ['iloc', 'loc', 'getitem', 'drop_iloc', 'drop_loc', 'relabel_map', 'relabel_func', 'roll', 'sort', 'union', 'intersection',
               'difference', 'astype', 'rename', 'copy', 'ctor', 'to_go', 'to_static', 'level_add', 'head', 'tail']
DERIVE_IH = ['iloc', 'loc', 'drop_iloc', 'relabel_func', 'roll', 'sort', 'union', 'intersection', 'difference', 'astype',
             'rename', 'copy', 'to_go', 'to_static', 'level_add', 'level_drop', 'flat', 'rehierarch', 'frame_roundtrip']


def nontrivial(c):
    k = c['k']
    if k == lmg.K:
        return lmg.nontrivial(c)
    if k == 'flat':
        return len(c['toks']) >= 2
    if k == 'auto':
        return c['n'] >= 1
    if k in ('go', 'ihgo'):
        return len(c['ops']) >= 1
    if k == 'ih':
        return len(c['toks']) >= 2
    return True


# ----------------------------------------------------------------------------- generation
def flat_probes(rng, kind, toks):
    pool = ic.pool_tokens(kind)
    held = {H(untok(t)) for t in toks}
    out = [t for t in pool if H(untok(t)) not in held]
    rng.shuffle(out)
    return out[:3]


def gen_flat(rng, kinds=ic.FLAT_KINDS):
    kind = rng.choice(kinds)
    n = rng.choice([0, 1, 2, 3, 4, 5, 6, 8, 12])
    toks = ic.rand_flat_tokens(rng, kind, n, dup_p=0.2)
    if kind in ic.DT_CLASS:
        cls = ic.DT_CLASS[kind] + rng.choice(['', 'GO'])
        route = rng.choice(['ctor', 'from_labels', 'gen', 'iso', 'array'])
    else:
        cls = rng.choice(['Index', 'Index', 'IndexGO'])
        route = rng.choice(FLAT_ROUTES)
    return {'k': 'flat', 'kind': kind, 'cls': cls, 'route': route, 'toks': toks, 'probes': flat_probes(rng, kind, toks)}


def gen_go(rng):
    if rng.random() < 0.5:
        n = rng.randint(0, 4)
        start = {'auto': n}
        cands = [tok(n), tok(n + 1), tok(n + 2), tok(0), tok('a'), tok('b'), tok(n + 5), tok(2.5), tok(1.0), tok(True), tok(np.int64(n))]
        cur_n = n
    else:
        kind = rng.choice(['str', 'int', 'mixed', 'float'])
        toks = ic.rand_flat_tokens(rng, kind, rng.randint(0, 4), dup_p=0)
        start = {'toks': toks}
        cands = ic.pool_tokens(kind)
    ops = []
    for _ in range(rng.randint(1, 6)):
        if rng.random() < 0.7:
            ops.append(['ap', rng.choice(cands)])
        else:
            ops.append(['ex', [rng.choice(cands) for _ in range(rng.randint(0, 3))]])
    return {'k': 'go', 'start': start, 'ops': ops}


def mutate_tuples(rng, toks, kinds=None):
    """turn a tree-ordered tuple list into a malformed one (non-tree order / repeated tuple / wrong depth)"""
    toks = list(toks)
    if len(toks) < 2:
        return toks + toks
    how = rng.choice(['swap', 'repeat_adj', 'repeat_far', 'revisit', 'depth'])
    if how == 'swap':
        i, j = rng.sample(range(len(toks)), 2)
        toks[i], toks[j] = toks[j], toks[i]
    elif how == 'repeat_adj':
        i = rng.randrange(len(toks))
        toks.insert(i, toks[i])
    elif how == 'repeat_far':
        toks.append(toks[0])
    elif how == 'revisit':
        t0 = untok(toks[0])
        extra = ABSENT.get(kinds[-1]) if kinds else 'zz'
        toks.append(tok(t0[:-1] + (extra if extra is not None else t0[-1],)))
    else:
        t0 = untok(toks[-1])
        toks.append(tok(t0[:-1]))
    return toks


def gen_ih_auto_leaf(rng):
    """leaves that are automatic integer indices (labels are positions, no label map) of different sizes: a label held by one
    leaf is absent from a shorter one; probes name such labels, labels one past a leaf, and negative integers"""
    toks, kinds = ic.auto_leaf_tuples(rng)
    tups = [untok(t) for t in toks]
    sizes = {}
    for o, i in tups:
        sizes[H(o)] = (o, i + 1)
    probes = []
    big = max(n for _, n in sizes.values())
    for o, n in sizes.values():
        probes += [tok((o, n)), tok((o, -1))]
        if n < big:
            probes.append(tok((o, big - 1)))
    probes += ih_probes(toks, kinds)
    return {'k': 'ih', 'toks': toks, 'kinds': kinds, 'route': rng.choice(['from_index_items_auto', 'concat_items_auto']),
            'go': rng.random() < 0.3, 'probes': probes}


def gen_ih(rng):
    if rng.random() < 0.1:
        return gen_ih_auto_leaf(rng)
    depth = rng.choice([2, 2, 3, 3, 4])
    toks, kinds = ic.rand_tree_tuples(rng, depth, max_fan=3, max_leaves=rng.choice([1, 3, 6, 10]))
    bad = rng.random() < 0.25
    if bad:
        toks = mutate_tuples(rng, toks, kinds)
        route = rng.choice(['from_labels', 'from_labels_gen', 'type_blocks', 'from_labels_ctor'])
    else:
        route = rng.choice(IH_ROUTES)
    probes = ih_probes(toks, kinds)
    return {'k': 'ih', 'toks': toks, 'kinds': kinds, 'route': route, 'go': rng.random() < 0.4, 'probes': probes}


ABSENT = {'s': 'zz', 'i': 99, 'f': 9.5, 'D': np.datetime64('1990-01-01'), 'm': 'zz', 'b': None}


def ih_probes(toks, kinds):
    """absent tuples of the right depth (type-compatible per level) and keys of a wrong length"""
    if not toks:
        return []
    t0 = untok(toks[0])
    if len(t0) != len(kinds):
        return []
    out = []
    a_last, a_first = ABSENT[kinds[-1]], ABSENT[kinds[0]]
    if a_last is not None:
        out.append(tok(t0[:-1] + (a_last,)))
        out.append(tok(t0 + (a_last,)))
    if a_first is not None:
        out.append(tok((a_first,) + t0[1:]))
    out.append(tok(t0[:-1]))
    return out


def gen_ihgo(rng):
    depth = rng.choice([2, 2, 3])
    kinds = [rng.choice('si') for _ in range(depth)]
    toks, kinds = ic.rand_tree_tuples(rng, depth, kinds=kinds, max_fan=2, max_leaves=rng.choice([1, 2, 4]))
    pools = [ic.LEVEL_POOLS[k] for k in kinds]
    ops = []
    cur = [untok(t) for t in toks]
    for _ in range(rng.randint(1, 5)):
        r = rng.random()
        if r < 0.7:
            if cur and rng.random() < 0.7:
                base = rng.choice(cur[-2:] if rng.random() < 0.7 else cur)
                j = rng.randrange(depth)
                key = tuple(base[:j]) + tuple(rng.choice(pools[d]) for d in range(j, depth))
            else:
                key = tuple(rng.choice(pools[d]) for d in range(depth))
            if rng.random() < 0.05:
                key = key[:-1]
            ops.append(['ap', tok(key)])
            cur.append(key)
        else:
            o, _ = ic.rand_tree_tuples(rng, depth, kinds=kinds, max_fan=2, max_leaves=3)
            ops.append(['ex', o])
    return {'k': 'ihgo', 'toks': toks, 'kinds': kinds, 'ops': ops}


def gen_ihgo_routes(rng):
    """histories that start from every construction / conversion route at depth 3 and 4 (shared sub-trees of from_product,
    rebuilt trees of selections, static -> GO conversions, copies), appends at every depth of the right-most path"""
    depth = rng.choice([3, 3, 4])
    kinds = [rng.choice('sif') for _ in range(depth)]
    route = rng.choice(ic.GO_START_ROUTES)
    if route in ('from_product', 'static_product_to_go') or rng.random() < 0.4:
        while True:
            levels = [rng.sample(ic.GROW_POOLS[k][:4], rng.randint(1, 3)) for k in kinds]
            tups = [tuple(t) for t in itertools.product(*levels)]
            if len(tups) <= 18:
                break
    else:
        toks, kinds = ic.rand_tree_tuples(rng, depth, kinds=kinds, max_fan=3, max_leaves=rng.choice([2, 5, 9]))
        tups = [untok(t) for t in toks]
    return {'k': 'ihgo', 'toks': [tok(t) for t in tups], 'kinds': kinds, 'start': route,
            'ops': ic.rand_grow_history(rng, tups, kinds, rng.randint(2, 6))}


def gen_derive(rng):
    if rng.random() < 0.55:
        kind = rng.choice(['str', 'int', 'float', 'date', 'mixed', 'bool'])
        toks = ic.rand_flat_tokens(rng, kind, rng.choice([0, 1, 2, 3, 5, 7]), dup_p=0)
        base = {'flat': toks, 'kind': kind, 'go': rng.random() < 0.3, 'auto': None}
        if rng.random() < 0.3:
            base = {'flat': None, 'kind': 'int', 'go': rng.random() < 0.5, 'auto': rng.randint(0, 7)}
        op = rng.choice(DERIVE_FLAT)
        n = len(toks) if base['auto'] is None else base['auto']
    else:
        depth = rng.choice([2, 3])
        toks, kinds = ic.rand_tree_tuples(rng, depth, kinds=[rng.choice('sif') for _ in range(depth)], max_fan=3, max_leaves=rng.choice([1, 4, 8]))
        base = {'ih': toks, 'kinds': kinds, 'go': rng.random() < 0.3}
        op = rng.choice(DERIVE_IH)
        n = len(toks)
    arg = {'pos': rng.sample(range(n), rng.randint(0, n)) if n else [],
           # head slices with a step (start 0) are frequent: the derived index of an automatic one keeps labels that are
           # no longer positions
           'sl': [rng.choice([0, rng.randint(0, n)]), rng.choice([n, rng.randint(0, n)]), rng.choice([None, 1, 2, 2, 3])],
           'mask': [rng.random() < 0.5 for _ in range(n)],
           'shift': rng.randint(-n - 1, n + 1), 'asc': rng.random() < 0.5,
           'collide': rng.random() < 0.3, 'which': rng.choice(['list', 'slice', 'mask', 'int'])}
    other_kind = base.get('kind') if 'flat' in base else None
    if other_kind:
        arg['other'] = ic.rand_flat_tokens(rng, other_kind if other_kind != 'bool' else 'bool', rng.randint(0, 4), dup_p=0)
    else:
        o, _ = ic.rand_tree_tuples(rng, len(base['kinds']), kinds=base['kinds'], max_fan=2, max_leaves=4)
        arg['other'] = o
    return {'k': 'derive', 'base': base, 'op': op, 'arg': arg}


def cases(ctx):
    rng = ctx.rng('main')
    quick = ctx.tier == 'quick'
    scale = 5 if quick else 60
    # grid cross-check of the translated LocMap.map_slice_args / slice branch of LocMap.loc_to_iloc (every run)
    yield from lmg.cases(ctx, npstep=True)
    if not quick:
        # exhaustive small scopes
        letters = ['a', 'b', 'c', 'd']
        for n in range(0, 6):
            for combo in itertools.product(letters, repeat=n):
                yield {'k': 'flat', 'kind': 'str', 'cls': 'Index' if n % 2 else 'IndexGO', 'route': 'ctor',
                       'toks': [tok(x) for x in combo], 'probes': [tok('zz')]}
        for n0 in range(0, 4):
            cands = [tok(n0), tok(n0 + 1), tok('a'), tok(0)]
            for ln in range(1, 5):
                for hist in itertools.product(cands, repeat=ln):
                    yield {'k': 'go', 'start': {'auto': n0}, 'ops': [['ap', t] for t in hist]}
                if ln <= 3:
                    for hist in itertools.product(cands, repeat=ln):
                        yield {'k': 'go', 'start': {'auto': n0}, 'ops': [['ex', list(hist)], ['ap', cands[0]]]}
        alpha = [tok(t) for t in itertools.product(['a', 'b'], [1, 2])]
        for ln in range(0, 5):
            for seq in itertools.product(alpha, repeat=ln):
                yield {'k': 'ih', 'toks': list(seq), 'kinds': ['s', 'i'], 'route': 'from_labels' if ln % 2 else 'type_blocks',
                       'go': False, 'probes': [tok(('a', 3)), tok(('c', 1))]}
        # all append histories of length <= 3 over a 2x2 alphabet on hierarchies
        for start in ([], [alpha[0]], [alpha[0], alpha[2]], [alpha[0], alpha[1], alpha[2]]):
            for ln in range(1, 4):
                for hist in itertools.product(alpha + [tok(('c', 1))], repeat=ln):
                    yield {'k': 'ihgo', 'toks': list(start), 'kinds': ['s', 'i'], 'ops': [['ap', t] for t in hist]}
    # fixed boundary histories: zero-length grow-only hierarchy (append builds the chain; extend: repaired F43)
    yield {'k': 'ihgo', 'toks': [], 'kinds': ['s', 'i'], 'ops': [['ap', tok(('a', 1))], ['ap', tok(('a', 2))], ['ap', tok(('b', 1))], ['ap', tok(('a', 2))]]}
    yield {'k': 'ihgo', 'toks': [], 'kinds': ['s', 'i'], 'ops': [['ex', [tok(('a', 1)), tok(('b', 1))]]]}
    yield {'k': 'ihgo', 'toks': [tok(('a', 1)), tok(('b', 1))], 'kinds': ['s', 'i'], 'ops': [['ap', tok(('a', 2))]]}
    yield {'k': 'go', 'start': {'auto': 2}, 'ops': [['ap', tok(1.0)], ['ap', tok(2)]]}
    # stepped head slices of automatic indices (the derived index keeps labels that are no longer positions): every run
    for n in range(3, 8):
        for step in (2, 3):
            for go in (False, True):
                for op in ('iloc', 'getitem'):
                    yield {'k': 'derive', 'base': {'flat': None, 'kind': 'int', 'go': go, 'auto': n}, 'op': op,
                           'arg': {'pos': [], 'sl': [0, n, step], 'mask': [False] * n, 'shift': 0, 'asc': True, 'collide': False,
                                   'which': 'slice', 'other': []}}
    for n in range(0, 7):
        for go in (False, True):
            yield {'k': 'auto', 'n': n, 'go': go, 'route': 'factory'}
        yield {'k': 'auto', 'n': n, 'go': False, 'route': 'series'}
        yield {'k': 'auto', 'n': n, 'go': True, 'route': 'frame_cols'}
    for i in range(900 * scale):
        yield gen_flat(rng)
        if i % 3 == 0:
            yield gen_go(rng)
        if i % 3 == 1:
            yield gen_ih(rng)
        if i % 4 == 0:
            yield gen_derive(rng)
        if i % 5 == 0:
            yield gen_ihgo(rng)
        if i % 10 == 0:
            yield gen_ihgo_routes(rng)
        if i % 40 == 0:
            # level_drop of outer levels on depth >= 3 followed by lookups (the offsets of the promoted targets: repaired F45)
            depth = rng.choice([3, 3, 4])
            toks, kinds = ic.rand_tree_tuples(rng, depth, kinds=[rng.choice('sif') for _ in range(depth)], max_fan=3, max_leaves=rng.choice([4, 8, 12]))
            c = gen_derive(rng)
            c['base'] = {'ih': toks, 'kinds': kinds, 'go': rng.random() < 0.3}
            c['op'] = 'level_drop'
            yield c


def search(ctx):
    rng = ctx.rng('search')
    for i in range(200000):
        yield gen_flat(rng)
        yield gen_go(rng)
        yield gen_ih(rng)
        yield gen_derive(rng)
        yield gen_ihgo(rng)
        yield gen_ihgo_routes(rng)


# ----------------------------------------------------------------------------- model lines
def flat_vals(c):
    vals = ic.values(c['toks'])
    return vals


def flat_keys(c):
    """label keys probed on a flat case, derived deterministically from the labels"""
    toks = c['toks']
    n = len(toks)
    none_at = {i for i, t in enumerate(toks) if t == 'N'}      # None as slice endpoint means "open"
    has_probe = bool(c['probes'])
    keys = []
    for i in range(n):
        keys.append(('lab', i))
    for p in range(len(c['probes'])):
        keys.append(('probe', p))
    pairs = [(0, n - 1), (0, 0), (n // 2, n - 1), (1, n - 2), (n - 1, 0)] if n else []
    for (i, j) in pairs:
        if 0 <= i < n and 0 <= j < n and i not in none_at and j not in none_at:
            keys.append(('sl', i, j))
    if n:
        if n // 2 not in none_at:
            keys.append(('slopen', None, n // 2))
            keys.append(('slopen', n // 2, None))
        if has_probe and 0 not in none_at and c['probes'][0] != 'N':
            keys.append(('slprobe', 0))
            keys.append(('listprobe',))
        keys.append(('list', [n - 1, 0] if n > 1 else [0]))
        keys.append(('mask', [(i % 2 == 0) for i in range(n)]))
        # descending label slices (step -1): start and stop label both included (F47 repaired; F48 on datetime-typed indices)
        for (i, j) in ((n - 1, 0), (n - 1, n // 2), (n // 2, n // 2)):
            if i not in none_at and j not in none_at:
                keys.append(('slneg', i, j))
        # steps 2, 3, -2 and open ends with a step; an absent label at either end with a step
        for (i, j, st) in ((0, n - 1, 2), (0, n - 1, 3), (n - 1, 0, -2), (None, n // 2, 2), (n // 2, None, 2), (None, n // 2, -1),
                           (n // 2, None, -1), (None, 0, -2), (n - 1, None, -2)):
            if i not in none_at and j not in none_at:
                keys.append(('slstep', i, j, st))
        if has_probe and 0 not in none_at and c['probes'][0] != 'N':
            keys.append(('slprobestep', 'stop', -1))
            keys.append(('slprobestep', 'start', 2))
    keys.append(('mask', [True] * (n + 1)))
    return keys


def flat_wire_key(c, key, intern, vals, probes):
    k = key[0]
    if k == 'lab':
        return f'(lab {intern.lab(vals[key[1]])})'
    if k == 'probe':
        return f'(lab {intern.lab(probes[key[1]])})'
    if k == 'sl':
        return f'(sl {intern.lab(vals[key[1]])} {intern.lab(vals[key[2]])} N)'
    if k == 'slstep':
        a = 'N' if key[1] is None else intern.lab(vals[key[1]])
        b = 'N' if key[2] is None else intern.lab(vals[key[2]])
        return f'(sl {a} {b} {key[3]})'
    if k == 'slprobestep':
        pr = intern.lab(probes[0])
        return f'(sl {intern.lab(vals[0])} {pr} {key[2]})' if key[1] == 'stop' else f'(sl {pr} {intern.lab(vals[0])} {key[2]})'
    if k == 'slneg':
        return f'(sl {intern.lab(vals[key[1]])} {intern.lab(vals[key[2]])} -1)'
    if k == 'slopen':
        a = 'N' if key[1] is None else intern.lab(vals[key[1]])
        b = 'N' if key[2] is None else intern.lab(vals[key[2]])
        return f'(sl {a} {b} N)'
    if k == 'slprobe':
        pr = intern.lab(probes[0]) if probes else 'Lzz'
        return f'(sl {intern.lab(vals[0])} {pr} N)'
    if k == 'list':
        return '(list ' + ' '.join(intern.lab(vals[i]) for i in key[1]) + ')'
    if k == 'listprobe':
        pr = intern.lab(probes[0]) if probes else 'Lzz'
        return f'(list {intern.lab(vals[0])} {pr})'
    if k == 'mask':
        return '(mask ' + ' '.join('1' if b else '0' for b in key[1]) + ')'
    raise ValueError(key)


def flat_py_key(key, labels, probes):
    k = key[0]
    if k == 'lab':
        return labels[key[1]]
    if k == 'probe':
        return probes[key[1]]
    if k == 'sl':
        return slice(labels[key[1]], labels[key[2]])
    if k == 'slstep':
        return slice(None if key[1] is None else labels[key[1]], None if key[2] is None else labels[key[2]], key[3])
    if k == 'slprobestep':
        return slice(labels[0], probes[0], key[2]) if key[1] == 'stop' else slice(probes[0], labels[0], key[2])
    if k == 'slneg':
        return slice(labels[key[1]], labels[key[2]], -1)
    if k == 'slopen':
        return slice(None if key[1] is None else labels[key[1]], None if key[2] is None else labels[key[2]])
    if k == 'slprobe':
        return slice(labels[0], probes[0] if probes else 'zz')
    if k == 'list':
        return [labels[i] for i in key[1]]
    if k == 'listprobe':
        return [labels[0], probes[0] if probes else 'zz']
    if k == 'mask':
        return np.array(key[1], dtype=bool)
    raise ValueError(key)


def go_wire_ops(ops, intern):
    out = []
    for op in ops:
        if op[0] == 'ap':
            out.append(f'(ap {intern.lab(untok(op[1]))})')
        else:
            out.append('(ex ' + ' '.join(intern.lab(untok(t)) for t in op[1]) + ')')
    return '(' + ' '.join(out) + ')'


def tuples_wire(tups, intern):
    return '(' + ' '.join(intern.labs(t) for t in tups) + ')'


def model_lines(c):
    k = c['k']
    if k == lmg.K:
        return lmg.model_lines(c)
    intern = Interner()
    if k == 'flat':
        vals = flat_vals(c)
        probes = ic.values(c['probes'])
        ix = '(m ' + ' '.join(intern.lab(v) for v in vals) + ')'
        lines = [f'index.mk {ix}']
        hs = [H(v) for v in vals]
        if len(set(hs)) == len(hs):
            for key in flat_keys(c):
                lines.append(f'index.loc {ix} {flat_wire_key(c, key, intern, vals, probes)}')
            for p in probes:
                lines.append(f'index.contains {ix} {intern.lab(p)}')
        return lines
    if k == 'auto':
        n = c['n']
        ix = f'(a {n})'
        lines = [f'index.mk {ix}']
        for key in auto_keys(n):
            lines.append(f'index.loc {ix} {auto_wire_key(key, intern)}')
        for key in auto_keys(n):
            lines.append(f'index.locp {ix} {auto_wire_key(key, intern)} N 0')
        return lines
    if k == 'go':
        st = c['start']
        ix = f'(a {st["auto"]})' if 'auto' in st else '(m ' + ' '.join(intern.lab(untok(t)) for t in st['toks']) + ')'
        return [f'indexgo.run {ix} {go_wire_ops(c["ops"], intern)}']
    if k == 'ih':
        tups = [untok(t) for t in c['toks']]
        return [f'level.fromlabels {tuples_wire(tups, intern)}']
    if k == 'ihgo':
        return [ihgo_model_line(c)[0]]
    if k == 'derive' and c['op'] == 'level_drop' and 'ih' in c['base']:
        ml = level_drop_model_line(c)
        return [ml[0]] if ml else []
    return []


def level_drop_count(c):
    """signed count of a derive/level_drop case: inner (negative) for an odd shift, outer otherwise; two levels are
    dropped on every second case of depth >= 3 (derived from the case, no extra randomness)"""
    arg = c['arg']
    depth = len(c['base']['kinds'])
    mag = 2 if depth >= 3 and (arg['shift'] // 2) % 2 == 1 else 1
    return -mag if arg['shift'] % 2 == 1 else mag


def level_drop_model_line(c):
    """`level.dropinner/dropouter <tree> <k>` on the tree read off the real object (same tree for model and code)"""
    base = c['base']
    tups = [untok(t) for t in base['ih']]
    if not tups:
        return None
    intern = Interner()
    try:
        ix = ic.build_ih(tups, 'from_labels', go=base['go'])
    except Exception:
        return None
    cnt = level_drop_count(c)
    tree = ic.level_wire(ix._levels, intern)
    return (f'level.dropinner {tree} {-cnt}' if cnt < 0 else f'level.dropouter {tree} {cnt}'), intern


def compare_level_drop(ctx, c, out, real):
    """model answer of level_drop versus the real result: same rejection, same labels / tuples, and for a
    hierarchical result the same tree (labels per node AND offsets)"""
    fails = []
    ml = level_drop_model_line(c)
    if ml is None:
        return fails
    inv = ic.inv_map(ml[1])
    cnt = level_drop_count(c)
    ma = ic.parse_answer(out)
    side = 'inner' if cnt < 0 else 'outer'
    ctx.count(f'level_drop_model_{side}{abs(cnt)}')
    if ma[0] == 'bad':
        return [Failure('corr', f'level_drop({cnt}): model answered {out!r}', c)]
    if real[0] == 'err':
        ctx.count('level_drop_model_reject')
        if ma[0] != 'err' or ma[1] != real[1]:
            fails.append(Failure('corr', f'level_drop({cnt}): code raised {real[1]} ({type(real[2]).__name__}), model {out!r}', c))
        return fails
    if ma[0] != 'ok':
        return [Failure('corr', f'level_drop({cnt}): code answered an index, model {out!r}', c)]
    res = real[1]
    levels = getattr(res, '_levels', None)
    if levels is None:
        ctx.count('level_drop_model_flat')
        sx = ma[1] if isinstance(ma[1], list) else [ma[1]]
        if sx and sx[0] in ('l', 'n') and len(sx) in (3, 4) and isinstance(sx[1], list):
            return [Failure('corr', f'level_drop({cnt}): code answered a flat Index, model a tree {out!r}', c)]
        got = ['n:' + a[2:] if a.startswith('i:') else inv.get(a, a) for a in sx]
        exp = [H(x) for x in res]
        if got != exp:
            fails.append(Failure('corr', f'level_drop({cnt}): flat labels {exp} (code) != {got} (model)', c))
        return fails
    ctx.count('level_drop_model_tree')
    sx = ma[1]
    if not (isinstance(sx, list) and sx and sx[0] in ('l', 'n')):
        return [Failure('corr', f'level_drop({cnt}): code answered a hierarchy, model {out!r}', c)]
    mst = ic.struct_from_sexp(sx, inv)
    rst = ic.level_struct(levels)
    if ic.struct_tuples(mst) != [HT(x) for x in res]:
        fails.append(Failure('corr', f'level_drop({cnt}): tuples {[HT(x) for x in res]} (code) != {ic.struct_tuples(mst)} (model)', c))
    if mst != rst:
        fails.append(Failure('corr', f'level_drop({cnt}): tree (labels per node, offsets) {rst} (code) != {mst} (model)', c))
    return fails


def ihgo_model_line(c):
    """the history op needs the initial tree: it is read off the real object (same tree for model and code)"""
    import static_frame as sf
    tups = [untok(t) for t in c['toks']]
    depth = len(c['kinds'])
    intern = Interner()
    ih, _ = ic.build_go_start(tups, c.get('start', 'from_labels'), depth)
    tree0 = ic.level_wire(ih._levels, intern)
    wire_ops = []
    for op in c['ops']:
        if op[0] == 'ap':
            wire_ops.append('(ap ' + intern.labs(untok(op[1])) + ')')
        else:
            other = sf.IndexHierarchy.from_labels([untok(t) for t in op[1]])
            wire_ops.append('(ex ' + ic.level_wire(other._levels, intern) + ')')
    return f'hstate.run {tree0} {depth} ({" ".join(wire_ops)})', intern


def auto_keys(n):
    keys = [('lab', i) for i in range(n)] + [('lab', n), ('lab', n + 3), ('str',), ('frac',)]
    if n:
        keys += [('sl', 0, n - 1), ('sl', n // 2, n - 1), ('sl', 0, 0), ('sl', 1, n), ('slopen', None, n // 2), ('list', [n - 1, 0]),
                 ('list', [0, n]), ('mask', [(i % 2 == 0) for i in range(n)])]
    keys.append(('mask', [True] * (n + 1)))
    # negative / beyond-range endpoints, steps 2, 3, -1, -2, open ends (correspondence on the public Index.loc_to_iloc and on
    # Index._loc_to_iloc, the route Series.loc / Frame.loc take; negative integers are not labels on either container route)
    ends = [None, -n - 3, -1, 0, n // 2, n - 1, n, n + 2]
    for st in (None, 2, 3, -1, -2):
        for a in ends:
            for b in ends:
                if (a, b, st) != (None, None, None) and (hash((a, b, st, n)) % 3 == 0 or st in (None, -1)):
                    keys.append(('slx', a, b, st))
    keys += [('listx', [-1, 0]), ('listx', [0, n + 1]), ('listx', []), ('labx', -1), ('labx', -n - 2)]
    return keys


def auto_wire_key(key, intern):
    k = key[0]
    if k == 'slx':
        f = lambda v: 'N' if v is None else f'i:{v}'
        return f'(sl {f(key[1])} {f(key[2])} {"N" if key[3] is None else key[3]})'
    if k == 'listx':
        return '(list ' + ' '.join(f'i:{i}' for i in key[1]) + ')'
    if k == 'labx':
        return f'(lab i:{key[1]})'
    if k == 'lab':
        return f'(lab i:{key[1]})'
    if k == 'str':
        return '(lab Lstr)'
    if k == 'frac':
        return '(lab Lfrac)'
    if k == 'sl':
        return f'(sl i:{key[1]} i:{key[2]} N)'
    if k == 'slopen':
        a = 'N' if key[1] is None else f'i:{key[1]}'
        b = 'N' if key[2] is None else f'i:{key[2]}'
        return f'(sl {a} {b} N)'
    if k == 'list':
        return '(list ' + ' '.join(f'i:{i}' for i in key[1]) + ')'
    if k == 'mask':
        return '(mask ' + ' '.join('1' if b else '0' for b in key[1]) + ')'
    raise ValueError(key)


def auto_py_key(key):
    k = key[0]
    if k == 'slx':
        return slice(key[1], key[2], key[3])
    if k == 'listx':
        return list(key[1])
    if k == 'labx':
        return key[1]
    if k == 'lab':
        return key[1]
    if k == 'str':
        return 'a'
    if k == 'frac':
        return 1.5
    if k == 'sl':
        return slice(key[1], key[2])
    if k == 'slopen':
        return slice(key[1], key[2])
    if k == 'list':
        return list(key[1])
    if k == 'mask':
        return np.array(key[1], dtype=bool)
    raise ValueError(key)


# ----------------------------------------------------------------------------- evaluation
def real_ikey(ix, pykey):
    try:
        return ('ok', ix.loc_to_iloc(pykey))
    except Exception as ex:
        return ('err', err_cat(ex), ex)


def compare_ikey(model_ans, real, n):
    """model answer (driver line) vs real loc_to_iloc result: same error category / same kind and positions"""
    m = parse_answer(model_ans)
    if m[0] == 'bad':
        return f'model answered {model_ans}'
    if real[0] == 'err':
        if m[0] != 'err' or m[1] != real[1]:
            return f'model {model_ans} vs real {type(real[2]).__name__} ({real[1]})'
        return None
    if m[0] == 'err':
        return f'model {model_ans} vs real {real[1]!r}'
    rk = ic.ikey_kind(real[1])
    mk = m[1][0]
    mk_norm = {'int': 'int', 'list': 'list', 'sl': 'sl', 'arr': 'arr'}[mk]
    if rk != mk_norm:
        return f'model key kind {mk} vs real {type(real[1]).__name__} {real[1]!r}'
    if rk == 'sl':
        f = lambda a: None if a == 'N' else int(a)
        ms = (f(m[1][1]), f(m[1][2]), f(m[1][3]))
        rs = (real[1].start, real[1].stop, real[1].step)
        rs = tuple(None if x is None else int(x) for x in rs)
        if ms != rs:
            return f'model slice {ms} vs real {rs}'
        return None
    if ic.ikey_wire_positions(m[1], n) != ic.ikey_positions(real[1], n):
        return f'model positions {ic.ikey_wire_positions(m[1], n)} vs real {real[1]!r}'
    return None


def evaluate(ctx, c, outs):
    k = c['k']
    ctx.count('kind_' + k)
    if k == lmg.K:
        return lmg.evaluate(ctx, c, outs)
    if k == 'flat':
        return eval_flat(ctx, c, outs)
    if k == 'auto':
        return eval_auto(ctx, c, outs)
    if k == 'go':
        return eval_go(ctx, c, outs)
    if k == 'ih':
        return eval_ih(ctx, c, outs)
    if k == 'ihgo':
        return eval_ihgo(ctx, c, outs)
    if k == 'derive':
        return eval_derive(ctx, c, outs)
    raise ValueError(k)


def eval_flat(ctx, c, outs):
    fails = []
    vals = flat_vals(c)
    probes = ic.values(c['probes'])
    hs = [H(v) for v in vals]
    dup = len(set(hs)) != len(hs)
    route = c['route']
    ctx.count('flat_' + c['kind'])
    ctx.count('flat_route_' + route)
    try:
        if route == 'iso':
            ix = ic.build_flat(c['cls'], [str(v) for v in vals], 'ctor')
        else:
            ix = ic.build_flat(c['cls'], vals, route)
        real = ('ok', ix)
    except Exception as ex:
        real = ('err', err_cat(ex), ex)
    # oracle
    if dup:
        ctx.count('flat_duplicate')
        if real[0] == 'ok':
            fails.append(Failure('oracle', f'{c["cls"]}({route}) accepted non-unique labels {hs}', c))
        elif real[1] != 'nonUnique':
            fails.append(Failure('oracle', f'{c["cls"]}({route}) on non-unique labels raised {type(real[2]).__name__}, expected ErrorInitIndexNonUnique', c))
    else:
        if real[0] == 'err':
            fails.append(Failure('oracle', f'{c["cls"]}({route}) rejected unique labels {hs}: {type(real[2]).__name__}: {real[2]}', c))
        else:
            for v in check_bijection(real[1], absent=probes, expect=hs, what=f'{c["cls"]}({route})'):
                fails.append(Failure('oracle', v, c))
    if real[0] == 'ok' and not dup:
        ix = real[1]
        labels = list(ix)
        n = len(labels)
        keys = flat_keys(c)
        for ki, key in enumerate(keys):
            pykey = flat_py_key(key, labels, probes)
            r = real_ikey(ix, pykey)
            ctx.count('flat_key_' + key[0])
            # oracle for slices / lists / masks (label slices are stop-inclusive)
            exp = None
            det = None
            if key[0] == 'sl':
                exp = list(range(key[1], key[2] + 1))
            elif key[0] == 'slneg':
                exp = list(range(key[1], key[2] - 1, -1))
                det = {'negstep': True}
            elif key[0] == 'slstep':
                a, b, st = key[1], key[2], key[3]
                stop = None if b is None else (b + 1 if st > 0 else (b - 1 if b - 1 >= 0 else None))
                exp = list(range(n))[slice(a, stop, st)]
                det = {'negstep': st < 0 and b is not None}
            elif key[0] == 'slopen':
                exp = list(range(0 if key[1] is None else key[1], n if key[2] is None else key[2] + 1))
            elif key[0] == 'list':
                exp = list(key[1])
            elif key[0] == 'mask' and len(key[1]) == n:
                exp = [i for i, b in enumerate(key[1]) if b]
            if exp is not None:
                if r[0] != 'ok':
                    fails.append(Failure('oracle', f'{c["cls"]}.loc_to_iloc({pykey!r}) raised {type(r[2]).__name__}, expected positions {exp}', c, detail=det))
                elif ic.ikey_positions(r[1], n) != exp:
                    fails.append(Failure('oracle', f'{c["cls"]}.loc_to_iloc({pykey!r}) addresses {ic.ikey_positions(r[1], n)}, expected {exp}', c, detail=det))
            elif key[0] in ('slprobe', 'listprobe', 'slprobestep') or (key[0] == 'mask' and len(key[1]) != n):
                if r[0] == 'ok':
                    fails.append(Failure('oracle', f'{c["cls"]}.loc_to_iloc({pykey!r}) with an absent label / wrong length returned {r[1]!r}', c))
            # correspondence
            if outs and len(outs) == 1 + len(keys) + len(probes) and not (key[0] in ('slneg', 'slstep') and c['kind'] in ic.DT_CLASS and (key[0] == 'slneg' or (key[3] < 0 and key[2] is not None))):
                # (the datetime branch of map_slice_args is not modelled: finding F48 is reported by the oracle above)
                msg = compare_ikey(outs[1 + ki], r, n)
                if msg:
                    fails.append(Failure('corr', f'flat {c["cls"]} key {key}: {msg}', c))
    # correspondence of construction
    if outs:
        m = parse_answer(outs[0])
        if dup:
            if m != ('err', 'nonUnique'):
                fails.append(Failure('corr', f'model Index.mk? on duplicates answered {outs[0]}', c))
        elif m[0] != 'ok':
            fails.append(Failure('corr', f'model Index.mk? rejected unique labels: {outs[0]}', c))
        elif real[0] == 'ok':
            intern = Interner()
            atoms = [intern.lab(v) for v in vals]
            it, rev, vs, pos, ln, kind = m[1]
            if it != atoms or rev != atoms[::-1] or vs != atoms or [int(p) for p in pos] != list(range(len(atoms))) or int(ln) != len(atoms) or kind != 'M':
                fails.append(Failure('corr', f'model views {m[1]} differ from the label sequence', c))
            if (real[1]._map is None) != (kind == 'A'):
                fails.append(Failure('corr', 'map presence differs between model and real index', c))
            if len(outs) == 1 + len(flat_keys(c)) + len(probes):
                for pi, p in enumerate(probes):
                    ma = parse_answer(outs[1 + len(flat_keys(c)) + pi])
                    if ma != ('ok', '1' if (p in real[1]) else '0'):
                        fails.append(Failure('corr', f'contains({p!r}): model {ma} vs real {p in real[1]}', c))
    return fails


def build_auto_case(c):
    import static_frame as sf
    n, go, route = c['n'], c['go'], c['route']
    if route == 'factory':
        return ic.build_auto(n, go)
    if route == 'series':
        return sf.Series(list(range(10, 10 + n))).index
    if route == 'frame_cols':
        return sf.FrameGO.from_records([list(range(n))] if n else [], columns=None).columns if n else ic.build_auto(0, True)
    raise ValueError(route)


def eval_auto(ctx, c, outs):
    fails = []
    n = c['n']
    ix = build_auto_case(c)
    if ix._map is not None:
        fails.append(Failure('corr', f'auto route {c["route"]} produced an index with a map', c))
    hs = [f'n:{i}' for i in range(n)]
    for v in check_bijection(ix, absent=[n, n + 3, 'a', 1.5], expect=hs, what=f'auto({n},{c["route"]})'):
        fails.append(Failure('oracle', v, c))
    # an index of another class built from the automatic one (labels converted or not) is again a bijection
    import static_frame as sf
    for cls_name in ('Index', 'IndexGO', 'IndexDate', 'IndexYear', 'IndexSecond', 'IndexDateGO'):
        try:
            conv = getattr(sf, cls_name)(ix)
        except Exception as ex:
            fails.append(Failure('oracle', f'{cls_name}(auto index of {n}) raised {type(ex).__name__}: {ex}', c))
            continue
        ctx.count('auto_converted_class')
        for v in check_bijection(conv, absent=['a'] if cls_name in ('Index', 'IndexGO') else [], what=f'{cls_name}(auto({n},{c["route"]}))'):
            fails.append(Failure('oracle', v, c))
        if len(conv) != n:
            fails.append(Failure('oracle', f'{cls_name}(auto index of {n}) has length {len(conv)}', c))
    keys = auto_keys(n)
    for ki, key in enumerate(keys):
        pykey = auto_py_key(key)
        r = real_ikey(ix, pykey)
        exp = None
        if key[0] == 'sl' and key[2] < n:
            exp = list(range(key[1], key[2] + 1))
        elif key[0] == 'list' and all(i < n for i in key[1]):
            exp = list(key[1])
        elif key[0] == 'mask' and len(key[1]) == n:
            exp = [i for i, b in enumerate(key[1]) if b]
        elif key[0] == 'slopen' and key[2] is not None:
            exp = list(range(0, key[2] + 1))
        if exp is not None:
            if r[0] != 'ok':
                fails.append(Failure('oracle', f'auto index loc_to_iloc({pykey!r}) raised {type(r[2]).__name__}, expected positions {exp}', c))
            elif ic.ikey_positions(r[1], n) != exp:
                fails.append(Failure('oracle', f'auto index loc_to_iloc({pykey!r}) addresses {ic.ikey_positions(r[1], n)}, expected {exp}', c))
        elif key[0] in ('sl', 'list') or (key[0] == 'mask'):
            if r[0] == 'ok':
                fails.append(Failure('oracle', f'auto index loc_to_iloc({pykey!r}) beyond the labels returned {r[1]!r}', c))
        # the container route (Series.loc / Frame.loc / getitem): Index._loc_to_iloc
        try:
            rp = ('ok', ix._loc_to_iloc(pykey))
        except Exception as ex:
            rp = ('err', err_cat(ex), ex)
        neg = (key[0] in ('labx',) and key[1] < 0) or (key[0] == 'listx' and any(i < 0 for i in key[1])) \
            or (key[0] == 'slx' and any(v is not None and v < 0 for v in key[1:3]))
        if neg and rp[0] == 'ok':
            fails.append(Failure('oracle', f'auto index _loc_to_iloc({pykey!r}): a negative integer is not a label but {rp[1]!r} was returned', c))
        if key[0] == 'slx' and key[3] != 0 and not neg and all(v is None or v < n for v in key[1:3]) and rp[0] == 'ok' and n:
            a, b, st = key[1], key[2], key[3]
            step = st or 1
            stop = None if b is None else (b + 1 if step > 0 else (b - 1 if b - 1 >= 0 else None))
            exp = list(range(n))[slice(a, stop, st)]
            got = ic.ikey_positions(rp[1], n)
            if got != exp:
                fails.append(Failure('oracle', f'auto index _loc_to_iloc({pykey!r}) addresses {got}, expected {exp} (stop label included)', c,
                                     detail={'auto_negstep': step < 0}))
        if outs and len(outs) == 1 + 2 * len(keys):
            msg = compare_ikey(outs[1 + ki], r, n)
            if msg:
                fails.append(Failure('corr', f'auto key {key} (public loc_to_iloc): {msg}', c))
            # (a Boolean key of the wrong length is handed through by _loc_to_iloc and fails in NumPy when applied: the
            #  model folds that IndexError into the lookup)
            #  (likewise a non-integer label is handed through unchanged)
            msg = None if ((key[0] == 'mask' and len(key[1]) != n) or key[0] in ('str', 'frac')) else compare_ikey(outs[1 + len(keys) + ki], rp, n)
            if msg:
                fails.append(Failure('corr', f'auto key {key} (_loc_to_iloc): {msg}', c))
    if outs:
        m = parse_answer(outs[0])
        if m[0] != 'ok' or m[1][5] != 'A' or int(m[1][4]) != n or m[1][0] != [f'i:{i}' for i in range(n)]:
            fails.append(Failure('corr', f'model auto index {outs[0]}', c))
    return fails


def eval_go(ctx, c, outs):
    import static_frame as sf
    fails = []
    st = c['start']
    if 'auto' in st:
        ix = ic.build_auto(st['auto'], True)
        cur = [f'n:{i}' for i in range(st['auto'])]
    else:
        vals = ic.values(st['toks'])
        ix = sf.IndexGO(vals)
        cur = [H(v) for v in vals]
    raised = []
    stop_model = False
    for oi, op in enumerate(c['ops']):
        if op[0] == 'ap':
            v = untok(op[1])
            hv = H(v)
            ok_expected = hv not in cur
            try:
                ix.append(v)
                r = None
            except Exception as ex:
                r = ex
            ctx.count('go_append_' + ('accepted' if r is None else 'rejected'))
            if ok_expected:
                if r is not None:
                    fails.append(Failure('oracle', f'append({v!r}) of a new label raised {type(r).__name__}: {r}', c, detail={'op': oi}))
                    stop_model = True
                else:
                    cur.append(hv)
            else:
                if r is None:
                    fails.append(Failure('oracle', f'append({v!r}) of a held label was accepted', c, detail={'op': oi}))
                    cur.append(hv)
                # which exception a rejected append raises is not part of the claim (KeyError, or automap's
                # NonUniqueError for 1.0 on an automatic integer index holding 1); the unchanged index is checked below
        else:
            vs = ic.values(op[1])
            hvs = [H(v) for v in vs]
            ok_expected = len(set(hvs)) == len(hvs) and not (set(hvs) & set(cur))
            try:
                ix.extend(vs)
                r = None
            except Exception as ex:
                r = ex
            ctx.count('go_extend_' + ('accepted' if r is None else 'rejected'))
            if ok_expected:
                if r is not None:
                    fails.append(Failure('oracle', f'extend({vs!r}) of new labels raised {type(r).__name__}: {r}', c, detail={'op': oi}))
                    stop_model = True
                else:
                    cur += hvs
            else:
                if r is None:
                    fails.append(Failure('oracle', f'extend({vs!r}) with a held or repeated label was accepted', c, detail={'op': oi}))
                    cur += hvs
                else:
                    # a rejected extend must leave a valid index: unchanged, or (atomicity is property C09's subject)
                    # grown by a prefix of distinct new labels - the latter happens for a float equal to a held integer
                    # on an automatic integer index, which the pre-check of extend cannot see
                    try:
                        now = [H(l) for l in ix]
                    except Exception:
                        now = None
                    if now is not None and now != cur and now[:len(cur)] == cur:
                        grown = now[len(cur):]
                        if grown == hvs[:len(grown)] and len(set(now)) == len(now):
                            ctx.count('go_extend_rejected_after_partial_growth')
                            cur = now
                            stop_model = True
        raised.append(None if r is None else err_cat(r))
        vio = []
        if r is None and (oi + len(c['ops'])) % 2 == 0 and cur:
            # the FIRST thing asked of the index after it grew is the position of its newest label (no len / values /
            # iteration before it: those rebuild what the growth call left pending)
            newest = untok(op[1]) if op[0] == 'ap' else (ic.values(op[1])[-1] if op[1] else None)
            if newest is not None and H(newest) == cur[-1]:
                ctx.count('go_lookup_straight_after_growth')
                try:
                    p0 = ix.loc_to_iloc(newest)
                    if not isinstance(p0, (int, np.integer)) or int(p0) != len(cur) - 1:
                        vio.append(f'straight after op {oi} {op}: loc_to_iloc({newest!r}) = {p0!r}, label is at position {len(cur) - 1}')
                except Exception as ex:
                    vio.append(f'straight after op {oi} {op}: loc_to_iloc({newest!r}) raised {type(ex).__name__}: {ex}')
        # the index must be a bijection on exactly the accepted labels after every call
        vio += check_bijection(ix, absent=['zz', 99], expect=cur, what=f'after op {oi} {op}')
        for v in vio:
            fails.append(Failure('oracle', v, c, detail={'op': oi}))
        if vio:
            break
    if outs and not fails and not stop_model:
        m = parse_answer(outs[0])
        if m[0] != 'ok':
            fails.append(Failure('corr', f'model run answered {outs[0]}', c))
        else:
            (labels, kind, count, mut, ln), errs = m[1]
            intern = Interner()
            # re-intern in the same order as model_lines
            if 'toks' in st:
                for t in st['toks']:
                    intern.lab(untok(t))
            go_wire_ops(c['ops'], intern)
            exp_atoms = [intern.atom(h) for h in cur]
            if labels != exp_atoms or int(ln) != len(cur):
                fails.append(Failure('corr', f'model labels {labels} vs real {exp_atoms}', c))
            floaty = any(isinstance(v, float) and v == int(v) for op in c['ops']
                         for v in ([untok(op[1])] if op[0] == 'ap' else ic.values(op[1])))
            if (kind == 'A') != (ix._map is None) and not (kind == 'A' and floaty):
                # an integral float accepted as "next integer" promotes the real index to a map (INT_TYPES test), the
                # hash-class model keeps it map-less: same labels, same lookups
                fails.append(Failure('corr', f'model map kind {kind} vs real map {ix._map!r}', c))
            merr = [None if e == 'N' else e for e in errs]
            if [e is None for e in merr] != [e is None for e in raised]:
                fails.append(Failure('corr', f'model exceptions {merr} vs real {raised}', c))
    return fails


def ih_valid(hts):
    if not hts:
        return True
    d = len(hts[0])
    return d >= 2 and all(len(t) == d for t in hts) and len(set(hts)) == len(hts) and ic.tree_ordered(hts)


def eval_ih(ctx, c, outs):
    fails = []
    tups = [untok(t) for t in c['toks']]
    hts = [HT(t) for t in tups]
    valid = ih_valid(hts)
    route = c['route']
    if route == 'from_product' and not (valid and tups and ic.is_product(hts)):
        route = 'from_labels'
    if route == 'from_index_items' and not (valid and tups and len(tups[0]) == 2):
        route = 'from_labels'
    if route in ('from_index_items_auto', 'concat_items_auto') and not (valid and ic.is_auto_leaf(tups)):
        route = 'from_labels'
    if route in ('from_tree', 'copy_ctor') and not (valid and tups):
        route = 'from_labels'
    if route == 'from_labels_ctor' and not tups:
        route = 'from_labels'
    if route == 'type_blocks' and (not tups or len({len(t) for t in tups}) != 1 or len(tups[0]) < 1):
        route = 'from_labels'
    ctx.count('ih_route_' + route)
    ctx.count('ih_valid' if valid else 'ih_invalid')
    try:
        if not tups:
            import static_frame as sf
            ih = (sf.IndexHierarchyGO if c['go'] else sf.IndexHierarchy).from_labels((), depth_reference=len(c['kinds']))
        else:
            ih = ic.build_ih(tups, route, go=c['go'], kinds=c['kinds'])
        real = ('ok', ih)
    except Exception as ex:
        real = ('err', err_cat(ex), ex)
    probes = [untok(t) for t in c['probes']]
    if valid:
        if real[0] == 'err':
            fails.append(Failure('oracle', f'IndexHierarchy.{route} rejected a tree-ordered unique label set {hts}: {type(real[2]).__name__}: {real[2]}', c))
        elif tups:
            depth = len(tups[0])
            absent = [p for p in probes if isinstance(p, tuple) and len(p) == depth]
            for v in check_bijection(real[1], absent=absent, expect=hts, what=f'IH.{route}'):
                fails.append(Failure('oracle', v, c))
            if real[1].depth != depth:
                fails.append(Failure('oracle', f'IH.{route} depth {real[1].depth} != {depth}', c))
            for p in probes:
                if isinstance(p, tuple) and len(p) != depth:
                    ctx.count('ih_probe_wrong_length')
                    try:
                        inside = p in real[1]
                    except Exception:
                        inside = False
                    if inside:
                        fails.append(Failure('oracle', f'IH.{route}: key {p!r} of length {len(p)} (depth {depth}) reported as in index', c,
                                             detail={'overlong': len(p) > depth}))
        else:
            if len(real[1]) != 0:
                fails.append(Failure('oracle', 'empty label set gave a non-empty hierarchy', c))
    else:
        if real[0] == 'ok':
            fails.append(Failure('oracle', f'IndexHierarchy.{route} accepted a label set that is not a tree in the given order / not unique: {hts}', c))
        elif real[1] not in ('nonUnique', 'indexInit'):
            fails.append(Failure('oracle', f'IndexHierarchy.{route} on malformed labels raised {type(real[2]).__name__} (expected ErrorInitIndex)', c))
    if outs:
        m = parse_answer(outs[0])
        if valid and real[0] == 'ok' and tups:
            if m[0] != 'ok':
                fails.append(Failure('corr', f'model fromLabels rejected valid tuples: {outs[0]}', c))
            else:
                intern = Interner()
                tuples_wire(tups, intern)
                st = ic.struct_from_sexp(m[1], ic.inv_map(intern))
                rs = ic.level_struct(real[1]._levels)
                if st != rs:
                    fails.append(Failure('corr', f'model tree {st} vs real IndexLevel tree {rs} (route {route})', c))
        elif not valid:
            if m[0] != 'err':
                fails.append(Failure('corr', f'model fromLabels accepted malformed tuples: {outs[0]}', c))
            elif real[0] == 'err' and route in ('from_labels', 'from_labels_gen', 'type_blocks') and m[1] != real[1]:
                fails.append(Failure('corr', f'model error {m[1]} vs real {type(real[2]).__name__} ({real[1]})', c))
    return fails


def eval_ihgo(ctx, c, outs):
    """histories on IndexHierarchyGO: oracle after every call; the model is run through a second
    driver call because the history op needs the real initial tree."""
    import static_frame as sf
    fails = []
    tups = [untok(t) for t in c['toks']]
    depth = len(c['kinds'])
    ih, keep = ic.build_go_start(tups, c.get('start', 'from_labels'), depth)
    ctx.count('ihgo_start_' + c.get('start', 'from_labels'))
    cur = [HT(t) for t in tups]
    hts0 = list(cur)
    raised = []
    for oi, op in enumerate(c['ops']):
        if op[0] == 'ap':
            key = untok(op[1])
            hk = HT(key)
            ok_expected = len(key) == depth and hk not in cur and ic.tree_ordered(cur + [hk])
            must_fail = len(key) != depth or hk in cur
            try:
                ih.append(key)
                r = None
            except Exception as ex:
                r = ex
            ctx.count('ihgo_append_' + ('accepted' if r is None else 'rejected'))
            if r is None:
                if must_fail:
                    fails.append(Failure('oracle', f'append({key!r}) of a held / wrong-depth key was accepted', c,
                                         detail={'op': oi, 'why': 'held', 'f11': f11_shape(cur, hk)}))
                elif not ok_expected:
                    fails.append(Failure('oracle', f'append({key!r}) names a closed sub-tree (not a tree in the given order) but was accepted', c,
                                         detail={'op': oi}))
                cur.append(hk)
            else:
                if ok_expected:
                    fails.append(Failure('oracle', f'append({key!r}) of a new key in tree order raised {type(r).__name__}: {r}', c, detail={'op': oi}))
        else:
            otups = [untok(t) for t in op[1]]
            other = sf.IndexHierarchy.from_labels(otups)
            ho = [HT(t) for t in otups]
            outer_cur = {t[0] for t in cur}
            ok_expected = not ({t[0] for t in ho} & outer_cur)
            was_empty = not cur
            try:
                ih.extend(other)
                r = None
            except Exception as ex:
                r = ex
            ctx.count('ihgo_extend_' + ('accepted' if r is None else 'rejected'))
            if r is None:
                cur += ho
                if not ok_expected and cur and ({t[0] for t in ho} & outer_cur):
                    fails.append(Failure('oracle', f'extend with an outer label already held was accepted', c, detail={'op': oi}))
            elif ok_expected and not was_empty:
                fails.append(Failure('oracle', f'extend by {ho} (new outer labels) raised {type(r).__name__}: {r}', c,
                                     detail={'op': oi, 'empty_extend': was_empty}))
        raised.append(None if r is None else err_cat(r))
        vio = []
        if r is None and depth >= 3 and oi % 2 == 0:
            # derived straight after the growth call, before anything re-reads the arrays of the grown index (a cached table
            # that is out of date must not be handed to the derived index)
            for cnt in (1, -1):
                try:
                    d = ih.level_drop(cnt)
                except Exception:
                    ctx.count('ihgo_level_drop_refused')
                    continue
                exp_d = [t[cnt:] for t in cur] if cnt > 0 else list(dict.fromkeys(t[:cnt] for t in cur))
                ctx.count('ihgo_level_drop_after_growth')
                vio += check_bijection(d, expect=exp_d, what=f'level_drop({cnt}) straight after op {oi} {op[0]}')
        vio += check_bijection(ih, absent=[('zz',) * depth], expect=cur, what=f'after op {oi} {op}')
        vio += ic.check_unchanged(keep, hts0, f'after op {oi} {op[0]}')
        for v in vio:
            fails.append(Failure('oracle', v, c, detail={'op': oi, 'key': op[1] if op[0] == 'ap' else None,
                                                        'empty_extend': op[0] == 'ex' and not cur and raised[-1] is not None,
                                                        'f11': op[0] == 'ap' and f11_shape(cur[:-1] if raised[-1] is None else cur, HT(untok(op[1])) if op[0] == 'ap' else None)}))
        if vio:
            break
    if outs and not fails:
        intern = ihgo_model_line(c)[1]
        ans = outs[0]
        m = parse_answer(ans)
        if m[0] != 'ok':
            fails.append(Failure('corr', f'model history answered {ans}', c))
        else:
            st = ic.struct_from_sexp(m[1][0], ic.inv_map(intern))
            rs = ic.level_struct(ih._levels)
            if st != rs:
                fails.append(Failure('corr', f'model tree after history {st} vs real {rs}', c))
            mr = [None if o == 'N' else o[1] for o in m[1][1]]
            if [x is None for x in mr] != [x is None for x in raised]:
                fails.append(Failure('corr', f'model exceptions {mr} vs real {raised}', c))
    return fails


def f11_shape(cur, hk):
    """the key's prefix names an existing subtree that is not the right-most path (finding F11)"""
    if hk is None or not cur:
        return False
    last = cur[-1]
    if len(hk) != len(last):
        return False
    for d in range(1, len(hk)):
        p = hk[:d]
        if any(t[:d] == p for t in cur) and last[:d] != p:
            return True
        if last[:d] != p:
            return False
    return False


# ----------------------------------------------------------------------------- derivations
def eval_derive(ctx, c, outs):
    import static_frame as sf
    fails = []
    base, op, arg = c['base'], c['op'], c['arg']
    ctx.count('derive_' + op)
    hier = 'ih' in base
    if hier:
        tups = [untok(t) for t in base['ih']]
        if not tups:
            return fails
        ix = ic.build_ih(tups, 'from_labels', go=base['go'])
        labels = list(ix)
        hs = [HT(t) for t in tups]
    elif base['auto'] is not None:
        ix = ic.build_auto(base['auto'], base['go'])
        labels = list(ix)
        hs = [H(l) for l in labels]
    else:
        vals = ic.values(base['flat'])
        cls = {'date': 'IndexDate'}.get(base['kind'], 'Index') + ('GO' if base['go'] else '')
        ix = ic.build_flat(cls, vals, 'ctor')
        labels = list(ix)
        hs = [H(l) for l in labels]
    n = len(labels)
    hf = (lambda l: HT(l)) if hier else H
    exp = None          # expected label hash classes in order
    exp_set = None      # expected as a set (order unspecified)
    expect_dup = False
    res_hier = hier
    try:
        pos = [p for p in arg['pos'] if p < n]
        sl = slice(min(arg['sl'][0], n), min(arg['sl'][1], n), arg['sl'][2])
        mask = np.array((arg['mask'] + [False] * n)[:n], dtype=bool)
        which = arg['which']
        if op in ('iloc', 'getitem', 'loc', 'drop_iloc', 'drop_loc'):
            if which == 'list':
                sel = pos
            elif which == 'slice':
                sel = list(range(n))[sl]
            elif which == 'mask':
                sel = [i for i in range(n) if mask[i]]
            else:
                sel = pos[:1]
            ikey = {'list': pos, 'slice': sl, 'mask': mask, 'int': (pos[0] if pos else None)}[which]
            if which == 'int' and not pos:
                return fails
            if op in ('iloc', 'getitem'):
                if which != 'int':
                    exp = [hs[i] for i in sel]
                    if hier and not ic.tree_ordered(exp):
                        expect_dup = True
                res = ix.iloc[ikey] if op == 'iloc' else ix[ikey]
                if which == 'int':
                    if hf(res) != hs[pos[0]]:
                        fails.append(Failure('oracle', f'{op}[{pos[0]}] returned {res!r}, label at that position is {labels[pos[0]]!r}', c))
                    return fails
                exp = [hs[i] for i in sel]
            elif op == 'loc':
                if which == 'int':
                    return fails
                if which == 'slice':
                    a, b = (sl.start or 0), sl.stop
                    if n == 0 or a >= n or b is None or b >= n or b < a or labels[a] is None or labels[b] is None:
                        return fails
                    lkey = slice(labels[a], labels[b], sl.step)
                    exp = [hs[i] for i in range(a, b + 1, sl.step or 1)]
                elif which == 'mask':
                    lkey = mask
                    exp = [hs[i] for i in sel]
                else:
                    lkey = [labels[i] for i in pos]
                    exp = [hs[i] for i in pos]
                if hier and not ic.tree_ordered(exp):
                    expect_dup = True
                res = ix.loc[lkey]
            elif op == 'drop_iloc':
                if hier:
                    res = ix._drop_iloc(ikey)
                else:
                    res = ix.drop.iloc[ikey]
                exp = [hs[i] for i in range(n) if i not in set(sel)]
            else:
                if hier or which in ('slice', 'int'):
                    return fails
                lkey = mask if which == 'mask' else [labels[i] for i in pos]
                res = ix.drop.loc[lkey]
                exp = [hs[i] for i in range(n) if i not in set(sel)]
        elif op == 'relabel_map':
            if hier or base.get('kind') in ('date',):
                return fails
            targets = ['r0', 'r1', 'r2', 'r3']
            mp = {}
            for j, i in enumerate(pos[:3]):
                mp[labels[i]] = targets[0] if (arg['collide'] and j > 0) else targets[j]
            res_exp = [H(mp[l]) if l in mp else H(l) for l in labels]
            expect_dup = len(set(res_exp)) != len(res_exp)
            exp = res_exp
            res = ix.relabel(mp)
        elif op == 'relabel_func':
            if hier:
                f = (lambda t: tuple(t[:-1]) + (H(t[-1]),)) if not arg['collide'] else (lambda t: (t[0],) + tuple('k' for _ in t[1:]))
                res_exp = [HT(f(l)) for l in labels]
                expect_dup = (len(set(res_exp)) != len(res_exp)) or not ic.tree_ordered(res_exp)
            else:
                if base.get('kind') == 'date':
                    return fails
                f = (lambda x: (x, 'x')) if not arg['collide'] else (lambda x: 'k')
                res_exp = [H(f(l)) for l in labels]
                expect_dup = len(set(res_exp)) != len(res_exp)
            exp = res_exp
            res = ix.relabel(f)
        elif op == 'roll':
            if n == 0:
                return fails      # roll of an empty index raises ZeroDivisionError (reported, outside the bijection claim)
            sh = arg['shift'] % n if n else 0
            exp = hs[-sh:] + hs[:-sh] if sh else list(hs)
            if hier and not ic.tree_ordered(exp):
                expect_dup = True
            res = ix.roll(arg['shift'])
        elif op == 'sort':
            if not hier and base.get('kind') in ('mixed',):
                return fails
            res = ix.sort(ascending=arg['asc'])
            exp_set = set(hs)
        elif op in ('union', 'intersection', 'difference'):
            if not hier and base.get('kind') in ('mixed', 'bool') :
                return fails
            if hier:
                otups = [untok(t) for t in arg['other']]
                if not otups:
                    return fails
                other = sf.IndexHierarchy.from_labels(otups)
                ho = [HT(t) for t in otups]
            else:
                ovals = ic.values(arg['other'])
                ocls = 'IndexDate' if base.get('kind') == 'date' else 'Index'
                other = ic.build_flat(ocls, ovals, 'ctor')
                ho = [H(l) for l in other]
            res = getattr(ix, op)(other)
            a, b = set(hs), set(ho)
            exp_set = {'union': a | b, 'intersection': a & b, 'difference': a - b}[op]
        elif op == 'astype':
            if hier:
                res = ix.astype[len(base['kinds']) - 1](object)
                exp = hs
            else:
                if base.get('kind') not in ('int', 'float', 'str', 'bool') or base['auto'] is not None and False:
                    return fails
                res = ix.astype(object)
                exp = hs
                res_hier = False
        elif op == 'rename':
            res = ix.rename('nm')
            exp = hs
        elif op == 'copy':
            res = ix.copy()
            exp = hs
        elif op == 'ctor':
            if hier:
                return fails
            res = type(ix)(ix)
            exp = hs
        elif op == 'to_go':
            is_date = (not hier) and base.get('kind') == 'date' and base['auto'] is None
            res = (sf.IndexHierarchyGO if hier else (sf.IndexDateGO if is_date else sf.IndexGO))(ix)
            exp = hs
            if not hier:
                new = np.datetime64('1990-01-01') if is_date else 'zzq'
                res.append(new)
                exp = hs + [H(new)]
        elif op == 'to_static':
            res = (sf.IndexHierarchy if hier else sf.Index)(ix)
            exp = hs
        elif op == 'level_add':
            if (not hier and base.get('kind') in ('mixed', 'tuple')) or n == 0:
                return fails      # level_add on an empty index raises ErrorInitIndexLevel (reported)
            res = ix.level_add('top')
            exp = [(H('top'),) + (h if hier else (h,)) for h in hs]
            res_hier = True
        elif op == 'level_drop' and arg['shift'] % 2 == 1:
            # inner levels dropped: the tree keeps one node per remaining prefix (repaired: the offsets of the kept targets)
            cnt = level_drop_count(c)
            d = len(base['kinds'])
            seen_p = []
            for h in hs:
                if h[:cnt] not in seen_p:
                    seen_p.append(h[:cnt])
            exp = seen_p
            if d + cnt == 1:
                exp = [h[0] for h in exp]
                res_hier = False
            res = ix.level_drop(cnt)
        elif op == 'level_drop':
            cnt = level_drop_count(c)
            d = len(base['kinds'])
            res_exp = [h[cnt:] for h in hs]
            if d - cnt == 1:
                res_exp = [h[0] for h in res_exp]
                res_hier = False
                expect_dup = len(set(res_exp)) != len(res_exp)
            else:
                expect_dup = len(set(res_exp)) != len(res_exp) or not ic.tree_ordered(res_exp)
            # the promoted targets keep their own label lists: a label held under two different dropped parents makes
            # the new outer index non-unique, which level_drop rejects (ErrorInitIndexNonUnique) instead of merging;
            # this holds for the outer index of every round
            for j in range(1, cnt + 1):
                parents = {}
                for h in hs:
                    parents.setdefault(h[j], set()).add(h[:j])
                if any(len(v) > 1 for v in parents.values()):
                    expect_dup = True
            exp = res_exp
            res = ix.level_drop(cnt)
        elif op == 'flat':
            res = ix.flat()
            exp = [H(tuple(l)) for l in labels]
            res_hier = False
        elif op == 'rehierarch':
            d = len(base['kinds'])
            dm = list(range(d))[::-1]
            res = ix.rehierarch(dm)
            exp_set = {tuple(h[i] for i in dm) for h in hs}
        elif op == 'frame_roundtrip':
            fr = sf.Frame.from_records([[i] for i in range(n)], index=ix)
            exp = [hs[i] for i in pos] if pos else hs
            if hier and not ic.tree_ordered(exp):
                expect_dup = True
            res = fr.iloc[pos].index if pos else fr.index
        elif op in ('head', 'tail'):
            k = min(2, n)
            res = getattr(ix, op)(k)
            exp = hs[:k] if op == 'head' else hs[n - k:] if k else []
        else:
            return fails
        real = ('ok', res)
    except Exception as ex:
        real = ('err', err_cat(ex), ex)
    if op == 'level_drop' and hier and outs:
        fails.extend(compare_level_drop(ctx, c, outs[0], real))
    # selection by a list naming one position twice / tree-breaking order is rejected, not an index with duplicates
    if exp is not None and op in ('iloc', 'getitem', 'loc', 'frame_roundtrip') and hier and not ic.tree_ordered(exp):
        expect_dup = True
    if expect_dup:
        ctx.count('derive_expect_reject')
        if real[0] == 'ok':
            r = real[1]
            try:
                rl = [HT(x) if isinstance(x, tuple) and res_hier else H(x) for x in r]
            except Exception:
                rl = None
            if rl is not None and len(set(rl)) != len(rl):
                fails.append(Failure('oracle', f'{op} produced an index with duplicate labels {rl}', c))
        elif real[1] not in ('nonUnique', 'indexInit'):
            fails.append(Failure('oracle', f'{op} towards a non-unique / non-tree label set raised {type(real[2]).__name__}: {real[2]}', c))
        return fails
    if real[0] == 'err':
        fails.append(Failure('oracle', f'{op} raised {type(real[2]).__name__}: {real[2]} (base {hs}, arg {arg})', c,
                             detail={'exc': type(real[2]).__name__}))
        return fails
    res = real[1]
    for v in check_bijection(res, absent=[], expect=exp, hier=res_hier, what=f'derive {op}'):
        fails.append(Failure('oracle', v, c))
    if exp_set is not None:
        got = [HT(x) if res_hier else H(x) for x in res]
        if set(got) != exp_set or len(got) != len(exp_set):
            fails.append(Failure('oracle', f'{op} result {got} is not the expected label set {sorted(map(str, exp_set))}', c))
        if op == 'sort' and len(got) > 1:
            vals = list(res)
            srt = sorted(vals, reverse=not arg['asc']) if not res_hier else sorted(vals, reverse=not arg['asc'])
            if [hf(v) for v in srt] != got:
                fails.append(Failure('oracle', f'sort(ascending={arg["asc"]}) order {got}', c))
    return fails


# ----------------------------------------------------------------------------- findings
def classify(f):
    c = f.case
    d = f.detail or {}
    if c.get('k') == 'flat' and f.kind == 'oracle' and d.get('negstep') and c.get('kind') in ic.DT_CLASS:
        return 'F48-datetime-label-slice-negative-step-stop'
    return None
