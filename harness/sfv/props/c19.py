"""C19 - Quilt and Batch are faithful views over the Frames they hold.

Three parties per case:
  * the real Quilt / Batch (static_frame from /repo),
  * the ORACLE, a direct statement of the property on the real code: the single Frame
    `Frame.from_concat(frames, axis)` (labels not retained) / `Frame.from_concat_items(items, axis)` (labels
    retained) subjected to the same operation; for Batch the dict {label: op(frame)},
  * the Lean MODEL (lean/SFModel/Quilt.lean) that mirrors quilt.py / batch.py (correspondence).
"""
from __future__ import annotations

import io
import itertools
import os
import tempfile
import warnings
import zipfile

import numpy as np

from check import Failure
from sfv import gen
from sfv.canon import tok, err_cat, dtype_tok, array_toks, frame_snapshot, series_snapshot

TARGETS = ['SFModel.Props.C19']
THEOREMS = [
    'SF.C19.quilt_shape_labels',
    'SF.C19.select_flatten',
    'SF.C19.quilt_extract_refines_partial',
    'SF.C19.ascending_key_kinds',
    'SF.C19.quilt_extract_descending_counterexample',
    'SF.C19.quilt_extract_empty_counterexample',
    'SF.C19.quilt_to_frame',
    'SF.C19.quilt_axis_items',
    'SF.C19.batch_pointwise',
    'SF.C19.batch_pool_pointwise',
    'SF.C19.batch_except_pointwise',
    'SF.C19.batch_chain_pointwise',
    'SF.C19.batch_to_frame_concat',
    'SF.C19.batch_to_bus_items',
]
PARTIAL = [
    'SF.C19.quilt_extract_refines_partial: proved for keys whose positions on the Quilt axis are strictly ascending and '
    'non-empty (ints, ascending slices, masks, sorted duplicate-free lists); the unrestricted statement is FALSE of the '
    'mirrored algorithm (per-member Boolean masks): quilt_extract_descending_counterexample (finding C19-F8) and '
    'quilt_extract_empty_counterexample (finding C19-EMPTY) are proved and replayed on the real code',
]
CORR_ONLY = [
    'label routes (.loc, [], head, tail) of Quilt: oracle only (the model is positional)',
    'iter_array/iter_series/iter_tuple(_items), iter_window(_items), iter_window_array(_items), items, values, to_frame, '
    'store export: oracle (concatenated Frame) and, for the supported direction, the model (Quilt.axisItems)',
    'Bus built in memory or store-backed (zip pickle) with max_persist 1..k: oracle only; the loaded count is checked against max_persist',
    'Batch operators / reductions / apply on arbitrary dtypes: oracle {label: op(frame)}; the model covers selection, +,*,neg, '
    'fillna/isna/dropna, sum/count on float frames holding integers and NaN',
    'Quilt.iter_element does not exist in this version (nothing to check)',
]
RULE = ('one random Frame (all basic dtypes, random block layout, int/str labels) cut into 1..4 members along the Quilt axis '
        '(so opposite labels and dtypes are aligned), optionally relabelled so that inner labels repeat across members '
        '(retain_labels only), Bus in memory or zip-pickle store with max_persist None/1/2/k; keys: ints, slices, lists, masks on '
        'both axes incl. boundaries of members, spanning 0..k members; thorough additionally enumerates every distinct '
        'position sequence of every slice, every mask, every int and every list of length<=2 over 2-3 members of 1-3 lines; '
        'non-trivial = the key is not the null slice on both axes; distinct = distinct canonical case JSON. '
        'Frame `name` of a result is not compared (it is an argument of from_concat).')
TRUSTED = ['Frame.from_concat / from_concat_items and Frame.iloc/.loc/iterators on the concatenated Frame are the reference (C04, C11 check them)']
ASSUMPTIONS = ['members of one Quilt share dtypes per opposite label (they are slices of one Frame); flat int/str labels on members',
               'CPython Executor.map consumes its iterable eagerly and yields in submission order (Batch pool path)']
BUDGET = {'quick': 70, 'thorough': 840}
SEARCH_BUDGET = {'quick': 20, 'thorough': 120}

NAMES = ['A', 'B', 'C', 'D', 'E', 'a b']

# ---------------------------------------------------------------------------------------------- findings
F8 = 'C19-F8-nonascending-key'
F_EMPTY = 'C19-EMPTY-selection-unbound-local'
F_ZEROW = 'C19-ZEROWIDTH-opposite-selection'
F_NOTIMPL = 'C19-NOTIMPL-cross-axis-iteration'
F_CONFIG = 'C19-EXPORT-no-config-attribute'
F_EMPTYMEMBER = 'C19-EMPTYMEMBER-zero-length-member'
F_LINEDTYPE = 'C19-LINEDTYPE-per-member-consolidation'


def empty_candidate_window(n, size, step, wopt):
    """does the loop of container_util.axis_window_items, run over n labels, extract a candidate window that addresses no
    position?  (the loop's own arithmetic, written out once more: candidates are extracted before they are judged)"""
    label_shift, start_shift = wopt.get('label_shift', 0), wopt.get('start_shift', 0)
    size_increment = wopt.get('size_increment', 0)
    count_max = n if start_shift >= 0 else n + abs(start_shift)
    idx_left_max, idx_left, count = count_max - 1, start_shift, 0
    while True:
        idx_right = idx_left + size - 1
        lo, hi = (idx_left if idx_left > 0 else 0), (idx_right if idx_right > -1 else -1) + 1
        if len(range(n)[lo:hi]) == 0:
            return True
        idx_left += step
        size += size_increment
        count += 1
        if count > count_max or idx_left > idx_left_max or size < 0:
            return False


def classify(f):
    d = f.detail or {}
    if f.kind != 'oracle':
        return None
    return d.get('finding')


# ---------------------------------------------------------------------------------------------- s-expressions
def parse_sexp(s):
    """Parse one s-expression (atoms may hold quoted strings)."""
    toks = []
    cur = ''
    inq = esc = False
    for ch in s:
        if inq:
            cur += ch
            if esc:
                esc = False
            elif ch == '\\':
                esc = True
            elif ch == '"':
                inq = False
        elif ch == '"':
            cur += ch
            inq = True
        elif ch in '()':
            if cur:
                toks.append(cur)
                cur = ''
            toks.append(ch)
        elif ch in ' \t\n':
            if cur:
                toks.append(cur)
                cur = ''
        else:
            cur += ch
    if cur:
        toks.append(cur)
    stack = [[]]
    for t in toks:
        if t == '(':
            stack.append([])
        elif t == ')':
            top = stack.pop()
            stack[-1].append(top)
        else:
            stack[-1].append(t)
    assert len(stack) == 1 and len(stack[0]) == 1, s
    return stack[0][0]


def parse_answer(ans):
    if ans.startswith('ok '):
        return ('ok', parse_sexp(ans[3:]))
    if ans.startswith('err '):
        return ('err', ans[4:].strip())
    raise ValueError(f'driver answered {ans!r}')


# ---------------------------------------------------------------------------------------------- containers
def rand_container(rng, max_members=4, max_lines=3, max_opp=3, dtypes=gen.DTYPES_BASIC, small=False):
    """JSON description of a Bus of aligned Frames + Quilt configuration."""
    axis = rng.randint(0, 1)
    k = rng.randint(1, max_members)
    sizes = [rng.randint(1, max_lines) for _ in range(k)]
    n = sum(sizes)
    m = rng.randint(1, max_opp)
    rows, cols = (n, m) if axis == 0 else (m, n)
    spec = gen.rand_frame_spec(rng, rows, cols, dtypes=dtypes, index_kinds=('int', 'str'), column_kinds=('int', 'str'),
                               min_rows=rows, min_cols=cols)
    retain = rng.random() < 0.5
    store = rng.choice(['mem', 'mem', 'zip'])
    mp = None
    if store == 'zip':
        mp = rng.choice([None, 1, 1, 2, k])
    return {'spec': spec, 'axis': axis, 'retain': retain, 'sizes': sizes, 'names': rng.sample(NAMES, k),
            'dup': bool(retain and k > 1 and rng.random() < 0.4), 'store': store, 'mp': mp}


def member_frames(cont):
    """The member Frames (named) of a container description."""
    big = gen.build_frame(cont['spec'])
    axis = cont['axis']
    out = []
    a = 0
    along = big.index if axis == 0 else big.columns
    shared = list(along)
    for nm, sz in zip(cont['names'], cont['sizes']):
        f = big.iloc[a:a + sz] if axis == 0 else big.iloc[:, a:a + sz]
        if cont.get('dup'):
            # inner labels repeat across members: every member is labelled with a prefix of one label list
            f = f.relabel(index=shared[:sz]) if axis == 0 else f.relabel(columns=shared[:sz])
        out.append(f.rename(nm))
        a += sz
    return out


class Built:
    """Real Quilt + oracle Frame for a container description (context manager: owns the temp dir)."""

    def __init__(self, cont):
        import static_frame as sf
        self.cont = cont
        self.frames = member_frames(cont)
        self.axis = cont['axis']
        self.retain = cont['retain']
        self.tmp = None
        self.bus = None

    def __enter__(self):
        import static_frame as sf
        cont = self.cont
        if cont['store'] == 'zip':
            self.tmp = tempfile.TemporaryDirectory(prefix='c19_')
            fp = os.path.join(self.tmp.name, 'bus.zip')
            sf.Bus.from_frames(self.frames).to_zip_pickle(fp)
            self.bus = sf.Bus.from_zip_pickle(fp, max_persist=cont['mp'])
        else:
            self.bus = sf.Bus.from_frames(self.frames)
        self.quilt = sf.Quilt(self.bus, axis=self.axis, retain_labels=self.retain)
        if self.retain:
            self.oracle = sf.Frame.from_concat_items([(f.name, f) for f in self.frames], axis=self.axis)
        else:
            self.oracle = sf.Frame.from_concat(self.frames, axis=self.axis)
        return self

    def __exit__(self, *a):
        if self.tmp is not None:
            self.tmp.cleanup()

    def check_persist(self):
        mp = self.cont.get('mp')
        if self.cont['store'] == 'zip' and mp is not None:
            loaded = int(self.bus.status['loaded'].sum())
            if loaded > mp:
                return f'Bus holds {loaded} loaded Frames with max_persist={mp}'
        return None


def bus_wire(frames, axis):
    """Bus for the model: labels are canonical tokens, cells are ids `m<k>_<line>_<opp>`; returns (text, id->token)."""
    parts = []
    table = {}
    for k, f in enumerate(frames):
        along = f.index if axis == 0 else f.columns
        opp = f.columns if axis == 0 else f.index
        vals = f.values if f.size else np.empty(f.shape, dtype=object)
        lines = []
        for i in range(len(along)):
            cells = []
            for j in range(len(opp)):
                cid = f'm{k}_{i}_{j}'
                v = f.iloc[i, j] if axis == 0 else f.iloc[j, i]
                table[cid] = tok(v)
                cells.append(cid)
            lines.append('(' + ' '.join(cells) + ')')
        parts.append(f'({tok(f.name)} ({" ".join(tok(x) for x in along)}) ({" ".join(tok(x) for x in opp)}) ({" ".join(lines)}))')
    return '(' + ' '.join(parts) + ')', table


def lab_form(x):
    """canonical form of an axis label of a result: token, or [bus token, inner token] for a retained label"""
    if isinstance(x, tuple):
        return [tok(y) for y in x]
    return tok(x)


def real_sel_form(res, axis, sel_int, opp_int):
    """Real result -> the model's Sel shape (flags, labels, opposite labels, lines of tokens)."""
    import static_frame as sf
    if isinstance(res, sf.Frame):
        if axis == 0:
            labels, opp = [lab_form(x) for x in res.index], [tok(x) for x in res.columns]
            lines = [array_toks(res._blocks._extract_array(row_key=i)) for i in range(res.shape[0])]
        else:
            labels, opp = [lab_form(x) for x in res.columns], [tok(x) for x in res.index]
            lines = [array_toks(res._blocks._extract_array(column_key=j)) for j in range(res.shape[1])]
        return {'flags': (False, False), 'labels': labels, 'opp': opp, 'lines': lines}
    if isinstance(res, sf.Series):
        vals = array_toks(res.values)
        if sel_int and not opp_int:
            return {'flags': (True, False), 'labels': [lab_form(res.name)], 'opp': [tok(x) for x in res.index], 'lines': [vals]}
        return {'flags': (False, True), 'labels': [lab_form(x) for x in res.index], 'opp': [tok(res.name)], 'lines': [[v] for v in vals]}
    return {'flags': (True, True), 'labels': None, 'opp': None, 'lines': [[tok(res)]]}


def model_sel_form(sx, table):
    flags = (sx[0] == '1', sx[1] == '1')
    labels = [x if isinstance(x, str) else list(x) for x in sx[2]]
    lines = [[table[c] for c in ln] for ln in sx[4]]
    return {'flags': flags, 'labels': labels, 'opp': list(sx[3]), 'lines': lines}


def cell_equal(a, b):
    """Cells of a row taken across dtypes are consolidated (i:1 -> f:1.0 / object): numeric cells compare with ==."""
    if a == b:
        return True
    ka, kb = a.partition(':')[0], b.partition(':')[0]
    num = {'i', 'f', 'b'}
    if ka in num and kb in num:
        try:
            fa = float(a[2:]) if ka != 'b' else float(a[2:] == '1')
            fb = float(b[2:]) if kb != 'b' else float(b[2:] == '1')
            return fa == fb
        except ValueError:
            return False
    return False


def sel_forms_equal(real, model):
    if real['flags'] != model['flags']:
        return f'kind flags {real["flags"]} vs model {model["flags"]}'
    if real['flags'] != (True, True):
        if real['labels'] != model['labels']:
            return f'axis labels {real["labels"]} vs model {model["labels"]}'
        if real['opp'] != model['opp']:
            return f'opposite labels {real["opp"]} vs model {model["opp"]}'
    if len(real['lines']) != len(model['lines']):
        return f'{len(real["lines"])} lines vs model {len(model["lines"])}'
    for i, (a, b) in enumerate(zip(real['lines'], model['lines'])):
        if len(a) != len(b) or not all(cell_equal(x, y) for x, y in zip(a, b)):
            return f'line {i}: {a} vs model {b}'
    return None


def canon(res):
    """Canonical snapshot of any result for the oracle comparison (Frame name excluded)."""
    import static_frame as sf
    from static_frame.core.index_base import IndexBase
    if isinstance(res, sf.Frame):
        d = dict(frame_snapshot(res))
        d.pop('name')
        return ('Frame', d)
    if isinstance(res, sf.Series):
        return ('Series', series_snapshot(res))
    if isinstance(res, np.ndarray):
        return ('array', dtype_tok(res.dtype), res.shape, array_toks(res) if res.ndim else tok(res.item()))
    if isinstance(res, tuple):
        return ('tuple', getattr(res, '_fields', None), tuple(tok(x) for x in res))
    if isinstance(res, IndexBase):
        return ('Index', res.depth, tuple(tok(x) for x in res))
    if isinstance(res, (list,)):
        return ('list', tuple(canon(x) for x in res))
    return ('elem', tok(res))


def loosen(x):
    """Canonical form with dtypes dropped and numeric tokens compared by value (1 == 1.0 == True)."""
    if isinstance(x, str):
        k = x[:2]
        if k in ('i:', 'f:', 'b:'):
            try:
                return 'n:' + repr(float(x[2:]))
            except ValueError:
                return x
        return x
    if isinstance(x, dict):
        out = {}
        for key, v in x.items():
            if key == 'dtype':
                continue
            if key == 'cols':
                out[key] = tuple(loosen(col[1]) for col in v)
            else:
                out[key] = loosen(v)
        return out
    if isinstance(x, (list, tuple)):
        if len(x) == 4 and x[0] == 'array':
            return ('array', loosen(x[2]), loosen(x[3]))
        return tuple(loosen(y) for y in x)
    return x


def attempt(fn):
    try:
        return ('ok', fn())
    except Exception as ex:  # the real code's exception is data here
        return ('err', ex)


# ---------------------------------------------------------------------------------------------- keys
def ref_positions(key, n):
    """Python reference: positions or ('err', cat)."""
    k = key[0]
    if k == 'all':
        return list(range(n))
    if k == 'int':
        i = key[1]
        if n and -n <= i < n:
            return [i % n]
        return ('err', 'lookup')
    if k == 'sl':
        if key[3] == 0:
            return ('err', 'value')
        return list(range(n))[slice(key[1], key[2], key[3])]
    if k == 'list':
        out = []
        for i in key[1:]:
            if not -n <= i < n:
                return ('err', 'lookup')
            out.append(i % n)
        return out
    if k == 'mask':
        if len(key) - 1 != n:
            return ('err', 'lookup')
        return [i for i, b in enumerate(key[1:]) if b]
    raise ValueError(key)


def strictly_ascending(ps):
    return all(a < b for a, b in zip(ps, ps[1:]))


def boundary_key(rng, sizes):
    """Key on the Quilt axis built around member boundaries (spanning 0..k members)."""
    n = sum(sizes)
    cuts = [0] + list(itertools.accumulate(sizes))
    r = rng.random()
    if r < 0.35:
        a = rng.choice(cuts) + rng.choice([-1, 0, 0, 1])
        b = rng.choice(cuts) + rng.choice([-1, 0, 0, 1])
        step = rng.choice([None, None, None, 1, 1, 2, 2, 3, -1, -2] + ([0] if rng.random() < 0.1 else []))
        return ['sl', a if rng.random() < 0.85 else None, b if rng.random() < 0.85 else None, step]
    if r < 0.5:
        p = rng.choice(cuts) + rng.choice([-1, 0])
        p = max(-n, min(n - 1, p))
        return ['int', p if rng.random() < 0.7 else p - n if p >= 0 else p]
    if r < 0.75:
        cnt = rng.randint(0, min(n, 5))
        ps = sorted(rng.sample(range(n), cnt))
        return ['list'] + [p if rng.random() < 0.8 else p - n for p in ps]
    if r < 0.85:
        return ['mask'] + [int(rng.random() < 0.45) for _ in range(n)]
    if r < 0.92:
        # not ascending (finding C19-F8 zone): descending slice or unsorted list
        if rng.random() < 0.5:
            return ['sl', rng.choice([None, n - 1, rng.randint(0, n)]), rng.choice([None, 0, rng.randint(0, n)]), rng.choice([-1, -1, -2])]
        cnt = rng.randint(2, min(n, 4)) if n >= 2 else 1
        ps = rng.sample(range(n), min(cnt, n))
        return ['list'] + ps
    return gen.rand_key(rng, n)


def label_friendly_key(rng, n):
    """A positional key that has a label form: in-range endpoints, positive steps, no repeats."""
    r = rng.random()
    if r < 0.45 and n:
        a, b = sorted([rng.randint(0, n - 1), rng.randint(0, n - 1)])
        return ['sl', a if rng.random() < 0.8 else None, b if rng.random() < 0.8 else None, rng.choice([None, None, 1, 2])]
    if r < 0.6 and n:
        return ['int', rng.randint(0, n - 1)]
    if r < 0.85 and n:
        return ['list'] + sorted(rng.sample(range(n), rng.randint(1, min(n, 4))))
    return ['mask'] + [int(rng.random() < 0.5) for _ in range(n)]


def label_key(key, labels):
    """Positional key -> equivalent label key on the given labels, or (None, False) when there is none."""
    import static_frame as sf
    k = key[0]
    n = len(labels)
    hier = n > 0 and isinstance(labels[0], tuple)
    if k == 'all':
        return slice(None), True
    if k == 'int':
        if n and -n <= key[1] < n:
            lab = labels[key[1]]
            return (sf.HLoc[lab] if hier else lab), True
        return None, False
    if k == 'list':
        if n and all(-n <= i < n for i in key[1:]):
            return [labels[i] for i in key[1:]], True
        return None, False
    if k == 'mask':
        if len(key) - 1 == n:
            return np.array([bool(b) for b in key[1:]], dtype=bool), True
        return None, False
    if k == 'sl':
        a, b, st = key[1], key[2], key[3]
        if st not in (None, 1, 2, 3) or hier:
            return None, False
        if (a is not None and not 0 <= a < n) or (b is not None and not 0 <= b < n):
            return None, False
        return slice(None if a is None else labels[a], None if b is None else labels[b], st), True
    return None, False


def incl_positions(key, n):
    a, b, st = key[1], key[2], key[3]
    return list(range(n))[slice(a, None if b is None else b + 1, st)]


# ---------------------------------------------------------------------------------------------- case streams
def nontrivial(c):
    if c['k'] == 'sel':
        return any(not (rk == ['all'] and ck == ['all']) for _, rk, ck in c['keys'])
    return True


def sel_keys_random(rng, cont, count):
    axis, sizes = cont['axis'], cont['sizes']
    n = sum(sizes)
    m = cont['spec']['rows'] if axis == 1 else len(cont['spec']['cols'])
    out = []
    for _ in range(count):
        sk = boundary_key(rng, sizes)
        r = rng.random()
        if r < 0.4:
            ok = ['all']
        elif r < 0.9:
            ok = gen.rand_key(rng, m, allow_oob=0.03)
        else:
            ok = ['list']  # zero-width opposite selection (C19-ZEROWIDTH zone)
        route = rng.choice(['iloc2', 'iloc2', 'iloc2', 'iloc1', 'loc2', 'loc2', 'loc1', 'loc1', 'getitem', 'head', 'tail'])
        if route in ('loc2', 'loc1', 'getitem') and rng.random() < 0.7:
            sk = label_friendly_key(rng, n)
            if ok[0] not in ('all', 'int') and rng.random() < 0.5:
                ok = label_friendly_key(rng, m)
        rk, ck = (sk, ok) if axis == 0 else (ok, sk)
        if route == 'head' or route == 'tail':
            rk, ck = ['int', rng.randint(0, n + 1)], ['all']
        out.append([route, rk, ck])
    return out


def cases(ctx):
    rng = ctx.rng('main')
    quick = ctx.tier == 'quick'
    # construction: invalid buses
    for _ in range(120 if quick else 1500):
        cont = rand_container(rng)
        cont['store'], cont['mp'] = 'mem', None
        yield {'k': 'init', 'cont': cont, 'defect': rng.choice(['none', 'opp_label', 'opp_order', 'opp_len', 'dup_flat', 'empty_member'])}
    # selection
    for _ in range(900 if quick else 12000):
        cont = rand_container(rng, dtypes=gen.DTYPES_BASIC)
        yield {'k': 'sel', 'cont': cont, 'keys': sel_keys_random(rng, cont, 6)}
    # whole-container battery (iterators, windows, export)
    for _ in range(250 if quick else 3000):
        cont = rand_container(rng)
        n = sum(cont['sizes'])
        wopt = {}
        if rng.random() < 0.6:
            # the remaining options of the window iterators: the values-only forms must drop / keep the same windows as the items forms
            wopt = {'label_shift': rng.choice([0, 1, 1, 2, -1, -2, 3]), 'start_shift': rng.choice([0, 0, 1, 2, -1]),
                    'size_increment': rng.choice([0, 0, 1, -1]), 'window_sized': rng.random() < 0.7}
        yield {'k': 'all', 'cont': cont, 'wsize': rng.randint(1, min(n, 3) + 1), 'wstep': rng.randint(1, 2), 'wopt': wopt}
    # Batch
    for _ in range(1000 if quick else 12000):
        yield rand_batch_case(rng)
    for _ in range(800 if quick else 10000):
        yield rand_bmodel_case(rng)
    if not quick:
        yield from exhaustive_cases(ctx)


def exhaustive_cases(ctx):
    """Every distinct positional key over 2-3 members of 1-3 lines, both axes, retain on/off."""
    rng = ctx.rng('exhaustive')
    configs = [list(p) for k in (2, 3) for p in itertools.product((1, 2, 3), repeat=k)]
    for sizes in configs:
        n = sum(sizes)
        keys = exhaustive_keys(n)
        for axis in (0, 1):
            for retain in (False, True):
                if axis == 1 and len(sizes) == 3 and sum(sizes) > 6:
                    continue  # the same code path as axis 0; keep the run inside the budget
                m = 2
                rows, cols = (n, m) if axis == 0 else (m, n)
                spec = gen.rand_frame_spec(rng, rows, cols, dtypes=['int64', 'str'], index_kinds=('str',), column_kinds=('str',),
                                           min_rows=rows, min_cols=cols)
                cont = {'spec': spec, 'axis': axis, 'retain': retain, 'sizes': sizes, 'names': NAMES[:len(sizes)],
                        'dup': False, 'store': 'mem', 'mp': None}
                oks = [['all'], ['int', 1], ['list', 1, 0]]
                for i in range(0, len(keys), 60):
                    chunk = keys[i:i + 60]
                    ok = oks[(i // 60) % 3]
                    ks = [['iloc2', sk, ok] if axis == 0 else ['iloc2', ok, sk] for sk in chunk]
                    yield {'k': 'sel', 'cont': cont, 'keys': ks, 'exh': True}


def exhaustive_keys(n):
    seen = set()
    out = []

    def add(key):
        ps = ref_positions(key, n)
        sig = (key[0] if key[0] in ('int',) else 'multi', tuple(ps) if isinstance(ps, list) else ps)
        if key[0] == 'mask':
            sig = ('mask', tuple(key[1:]))
        if sig not in seen:
            seen.add(sig)
            out.append(key)
    for i in range(-n - 1, n + 1):
        add(['int', i])
    for s in gen.all_slices(n):
        add(s)
    for bits in itertools.product((0, 1), repeat=n):
        add(['mask'] + list(bits))
    for ln in (1, 2):
        for ps in itertools.product(range(n), repeat=ln):
            add(['list'] + list(ps))
    for ps in itertools.permutations(range(n), 3):
        add(['list'] + list(ps))
    add(['list', -1, 0])
    add(['mask'] + [1] * (n + 1))
    return out


def search(ctx):
    rng = ctx.rng('search')
    for _ in range(4000):
        cont = rand_container(rng)
        yield {'k': 'sel', 'cont': cont, 'keys': sel_keys_random(rng, cont, 8)}


def effective(route, rk, ck):
    """The positional keys a route stands for (label routes: the keys their label form is derived from)."""
    cnt = None
    if route in ('iloc1', 'loc1'):
        ck = ['all']
    elif route == 'getitem':
        rk = ['all']
    elif route in ('head', 'tail'):
        cnt = rk[1]
        rk = ['sl', None, cnt, None] if route == 'head' else ['sl', -cnt, None, None]
        ck = ['all']
    return rk, ck, cnt


# ---------------------------------------------------------------------------------------------- model lines
def model_lines(c):
    k = c['k']
    if k == 'init':
        frames, _ = init_frames(c)
        if frames is None:
            return []
        text, _ = bus_wire(frames, c['cont']['axis'])
        return [f'quilt.init {int(c["cont"]["retain"])} {text}']
    if k == 'sel':
        cont = c['cont']
        frames = member_frames(cont)
        text, _ = bus_wire(frames, cont['axis'])
        r = int(cont['retain'])
        lines = []
        for route, rk, ck in c['keys']:
            rk, ck, _ = effective(route, rk, ck)
            sk, ok = (rk, ck) if cont['axis'] == 0 else (ck, rk)
            lines.append(f'quilt.extract {r} {text} {gen.key_to_wire(sk)} {gen.key_to_wire(ok)}')
            lines.append(f'quilt.spec {r} {text} {gen.key_to_wire(sk)} {gen.key_to_wire(ok)}')
        return lines
    if k == 'all':
        cont = c['cont']
        frames = member_frames(cont)
        text, _ = bus_wire(frames, cont['axis'])
        r = int(cont['retain'])
        return [f'quilt.init {r} {text}', f'quilt.items {r} {text}', f'quilt.extract {r} {text} (all) (all)', f'quilt.concat {r} {text}']
    if k == 'bmodel':
        return bmodel_lines(c)
    return []


# ---------------------------------------------------------------------------------------------- evaluate
def evaluate(ctx, c, outs):
    with warnings.catch_warnings():
        warnings.simplefilter('ignore')   # All-NaN slice etc. of NumPy reductions
        return evaluate_(ctx, c, outs)


def evaluate_(ctx, c, outs):
    k = c['k']
    if k == 'init':
        return eval_init(ctx, c, outs)
    if k == 'sel':
        return eval_sel(ctx, c, outs)
    if k == 'all':
        return eval_all(ctx, c, outs)
    if k == 'batch':
        return eval_batch(ctx, c)
    if k == 'bmodel':
        return eval_bmodel(ctx, c, outs)
    raise ValueError(k)


# ---- construction
def init_frames(c):
    """Member frames with the requested defect; (frames, expected error category or None)."""
    import static_frame as sf
    cont = c['cont']
    fs = member_frames(cont)
    axis = cont['axis']
    d = c['defect']
    if d == 'none' or len(fs) < 2 and d != 'empty_member':
        return fs, None
    last = fs[-1]
    opp = list(last.columns if axis == 0 else last.index)

    def relabel_opp(f, labs):
        return f.relabel(columns=labs) if axis == 0 else f.relabel(index=labs)
    if d == 'opp_label':
        new = opp[:-1] + ['__other__']
        fs[-1] = relabel_opp(last, new).rename(last.name)
        return fs, 'init'
    if d == 'opp_order':
        if len(opp) < 2:
            return fs, None
        pos = list(range(len(opp)))[::-1]
        fs[-1] = (last.iloc[:, pos] if axis == 0 else last.iloc[pos]).rename(last.name)
        return fs, 'init'
    if d == 'opp_len':
        if len(opp) < 2:
            return fs, None
        fs[-1] = (last.iloc[:, :-1] if axis == 0 else last.iloc[:-1]).rename(last.name)
        return fs, 'init'
    if d == 'dup_flat':
        # an inner label of the first member repeated in the last member
        first = fs[0]
        lab0 = (first.index if axis == 0 else first.columns)[0]
        along = list(last.index if axis == 0 else last.columns)
        along[-1] = lab0
        if len(set(map(tok, along))) != len(along):
            return fs, None
        fs[-1] = (last.relabel(index=along) if axis == 0 else last.relabel(columns=along)).rename(last.name)
        return fs, ('nonUnique' if not cont['retain'] else None)
    if d == 'empty_member':
        f0 = fs[0]
        fs.insert(min(1, len(fs)), (f0.iloc[0:0] if axis == 0 else f0.iloc[:, 0:0]).rename('__empty__'))
        return fs, 'emptymember'
    return fs, None


def eval_init(ctx, c, outs):
    import static_frame as sf
    fails = []
    cont = c['cont']
    axis, retain = cont['axis'], cont['retain']
    fs, exp = init_frames(c)
    ctx.count(f'init_{c["defect"]}_{exp}')
    q = sf.Quilt.from_frames(fs, axis=axis, retain_labels=retain)
    got = attempt(lambda: (q.shape, [lab_form(x) for x in (q.index if axis == 0 else q.columns)],
                           [tok(x) for x in (q.columns if axis == 0 else q.index)]))
    if exp == 'emptymember':
        # oracle: the concatenated Frame exists
        orc = attempt(lambda: sf.Frame.from_concat_items([(f.name, f) for f in fs], axis=axis) if retain else sf.Frame.from_concat(fs, axis=axis))
        if got[0] == 'err' and orc[0] == 'ok':
            fails.append(Failure('oracle', f'Quilt over a Bus with a zero-length member raises {type(got[1]).__name__}: {got[1]}; the concatenated Frame has shape {orc[1].shape}',
                                 c, detail={'finding': F_EMPTYMEMBER, 'exc': type(got[1]).__name__}))
        return fails
    if exp is None:
        orc = sf.Frame.from_concat_items([(f.name, f) for f in fs], axis=axis) if retain else sf.Frame.from_concat(fs, axis=axis)
        if got[0] == 'err':
            fails.append(Failure('oracle', f'valid Bus: Quilt raises {type(got[1]).__name__}: {got[1]}', c))
            return fails
        shape, labels, opp = got[1]
        o_labels = [lab_form(x) for x in (orc.index if axis == 0 else orc.columns)]
        o_opp = [tok(x) for x in (orc.columns if axis == 0 else orc.index)]
        if shape != orc.shape or labels != o_labels or opp != o_opp:
            fails.append(Failure('oracle', f'Quilt shape/labels {shape} {labels} {opp} differ from the concatenated Frame {orc.shape} {o_labels} {o_opp}', c))
    else:
        if got[0] == 'ok':
            fails.append(Failure('oracle', f'Bus with defect {c["defect"]}: Quilt accepted it (shape {got[1][0]}); expected {exp}', c))
        elif err_cat(got[1]) != exp:
            fails.append(Failure('oracle', f'Bus with defect {c["defect"]}: expected error {exp}, got {type(got[1]).__name__}: {got[1]}', c))
    if outs:
        ans = parse_answer(outs[0])
        if got[0] == 'err':
            if ans != ('err', err_cat(got[1])):
                fails.append(Failure('corr', f'Quilt.init: model {outs[0]} vs real {type(got[1]).__name__}', c))
        else:
            shape, labels, opp = got[1]
            n_along = shape[0] if axis == 0 else shape[1]
            n_opp = shape[1] if axis == 0 else shape[0]
            if ans[0] != 'ok':
                fails.append(Failure('corr', f'Quilt.init: model {outs[0]} vs real shape {shape}', c))
            else:
                sx = ans[1]
                mlabels = [x if isinstance(x, str) else list(x) for x in sx[2]]
                if (int(sx[0]), int(sx[1])) != (n_along, n_opp) or mlabels != labels or list(sx[3]) != opp:
                    fails.append(Failure('corr', f'Quilt.init: model {outs[0]} vs real {shape} {labels} {opp}', c))
    return fails


# ---- selection
def eval_sel(ctx, c, outs):
    import static_frame as sf
    fails = []
    cont = c['cont']
    axis = cont['axis']
    with Built(cont) as b:
        q, orc = b.quilt, b.oracle
        _, table = bus_wire(b.frames, axis)
        n_rows, n_cols = orc.shape
        ctx.count(f'sel_members_{len(cont["sizes"])}')
        ctx.count(f'sel_axis{axis}_retain{int(cont["retain"])}')
        ctx.count(f'sel_store_{cont["store"]}_mp{cont["mp"]}')
        if cont.get('dup'):
            ctx.count('sel_dup_inner_labels')
        rlabels, clabels = list(orc.index), list(orc.columns)
        for idx, (route, rk, ck) in enumerate(c['keys']):
            mo = outs[2 * idx: 2 * idx + 2] if outs else []
            fails.extend(one_selection(ctx, c, b, table, route, rk, ck, rlabels, clabels, mo))
        msg = b.check_persist()
        if msg:
            fails.append(Failure('oracle', msg, c))
    return fails


def one_selection(ctx, c, b, table, route, rk, ck, rlabels, clabels, mo):
    import static_frame as sf
    fails = []
    cont = c['cont']
    axis = cont['axis']
    q, orc = b.quilt, b.oracle
    n_rows, n_cols = orc.shape
    positional = True
    rk, ck, cnt = effective(route, rk, ck)
    use_rk, use_ck = gen.key_to_py(rk), gen.key_to_py(ck)
    if route in ('loc2', 'loc1', 'getitem'):
        lrk, ok1 = label_key(rk, rlabels)
        lck, ok2 = label_key(ck, clabels)
        if route == 'loc2' and ok1 and ok2:
            use_rk, use_ck = lrk, lck
            positional = False
        elif route == 'loc1' and ok1:
            use_rk = lrk
            positional = False
        elif route == 'getitem' and ok2:
            use_ck = lck
            positional = False
        else:
            route = 'iloc2' if route != 'loc1' else 'iloc1'
    rpos = ref_positions(rk, n_rows)
    cpos = ref_positions(ck, n_cols)
    if not positional:
        # label slices include the stop label
        if rk[0] == 'sl' and route in ('loc2', 'loc1'):
            rpos = incl_positions(rk, n_rows)
        if ck[0] == 'sl' and route in ('loc2', 'getitem'):
            cpos = incl_positions(ck, n_cols)
    sk, ok = (rk, ck) if axis == 0 else (ck, rk)
    spos, opos = (rpos, cpos) if axis == 0 else (cpos, rpos)

    def call(x):
        if route == 'iloc2':
            return x.iloc[use_rk, use_ck]
        if route == 'iloc1':
            return x.iloc[use_rk]
        if route == 'loc2':
            return x.loc[use_rk, use_ck]
        if route == 'loc1':
            return x.loc[use_rk]
        if route == 'getitem':
            return x[use_ck]
        if route == 'head':
            return x.head(cnt)
        if route == 'tail':
            return x.tail(cnt)
        raise AssertionError(route)
    got = attempt(lambda: call(q))
    exp = attempt(lambda: call(orc))
    ctx.count(f'route_{route}')
    ctx.count(f'selkey_{sk[0]}')
    ctx.count(f'oppkey_{ok[0]}')
    # --- how many members does the key touch
    if isinstance(spos, list):
        cuts = list(itertools.accumulate(cont['sizes']))
        touched = {next(i for i, cbound in enumerate(cuts) if p < cbound) for p in spos}
        ctx.count(f'members_touched_{len(touched)}')
        asc = strictly_ascending(spos)
        ctx.count('selkey_strictly_ascending' if asc else 'selkey_not_ascending')
    else:
        asc = True
        ctx.count('selkey_error')
    desc = f'{route} rk={rk} ck={ck} axis={axis} retain={cont["retain"]} sizes={cont["sizes"]}'
    detail = {'spos': spos if isinstance(spos, list) else None, 'opos': opos if isinstance(opos, list) else None,
              'q_exc': type(got[1]).__name__ if got[0] == 'err' else None, 'f_exc': type(exp[1]).__name__ if exp[0] == 'err' else None}

    # ---------------- oracle: Quilt versus the concatenated Frame
    zero_width = isinstance(opos, list) and len(opos) == 0 and ok[0] != 'int'
    empty_sel = isinstance(spos, list) and len(spos) == 0
    finding = None
    if not asc:
        # exact predicate of C19-F8: the Quilt returns what per-member Boolean masks give (members in order of
        # first appearance, lines ascending inside a member; a member met again later / a repeated position is refused)
        if f8_holds(got, orc, spos, opos, ok, cont):
            finding = F8
        else:
            ctx.count('nonascending_not_as_predicted')
    if finding is not None:
        pass
    elif empty_sel and got[0] == 'err' and isinstance(got[1], UnboundLocalError):
        finding = F_EMPTY
    elif zero_width and ((got[0] == 'err' and type(got[1]).__name__ in ('ErrorInitFrame', 'ErrorInitTypeBlocks'))
                         or (exp[0] == 'err' and type(exp[1]).__name__ in ('ErrorInitFrame', 'ErrorInitTypeBlocks'))):
        finding = F_ZEROW
    detail['finding'] = finding
    differs = None
    if got[0] == 'err' and exp[0] == 'err':
        ctx.count('both_raise')
    elif got[0] == 'err':
        differs = f'Quilt raises {type(got[1]).__name__}: {str(got[1])[:90]}; the concatenated Frame returns {type(exp[1]).__name__}'
    elif exp[0] == 'err':
        differs = f'Quilt returns {type(got[1]).__name__}; the concatenated Frame raises {type(exp[1]).__name__}: {str(exp[1])[:90]}'
    else:
        a, e = canon(got[1]), canon(exp[1])
        if a != e:
            differs = f'Quilt result differs from the concatenated Frame: {first_diff(a, e)}'
            if finding is None and axis == 1 and loosen(a) == loosen(e):
                finding = detail['finding'] = F_LINEDTYPE
        else:
            ctx.count('same_as_concatenated_frame')
    if differs:
        if finding == F_ZEROW and exp[0] == 'err':
            # the reference itself fails here (C04 finding F28); nothing to hold the Quilt to
            ctx.count('reference_fails_zero_width')
        else:
            fails.append(Failure('oracle', f'{desc}: {differs}', c, detail=detail))
        if finding:
            ctx.count(f'finding_{finding}')

    # ---------------- correspondence: model versus the real Quilt (positional routes, outside the F28 zone)
    if mo and positional and route in ('iloc2', 'iloc1', 'head', 'tail') and not zero_width:
        ans = parse_answer(mo[0])
        if got[0] == 'err':
            cat = err_cat(got[1])
            if ans[0] != 'err':
                fails.append(Failure('corr', f'{desc}: real Quilt raises {type(got[1]).__name__} ({cat}), model answers {mo[0][:120]}', c))
            elif ans[1] != cat and not (isinstance(spos, tuple) or isinstance(opos, tuple)):
                fails.append(Failure('corr', f'{desc}: real Quilt raises {type(got[1]).__name__} ({cat}), model {mo[0]}', c))
            else:
                ctx.count(f'model_err_{ans[1]}')
        elif ans[0] == 'err':
            fails.append(Failure('corr', f'{desc}: model {mo[0]}, real Quilt returns {type(got[1]).__name__}', c))
        else:
            why = sel_forms_equal(real_sel_form(got[1], axis, sk[0] == 'int', ok[0] == 'int'), model_sel_form(ans[1], table))
            if why:
                fails.append(Failure('corr', f'{desc}: model and real Quilt differ: {why}', c))
            else:
                ctx.count('model_agrees')
        # the Lean spec (specExtract on concatSpec) versus the real concatenated Frame
        sp = parse_answer(mo[1])
        if empty_sel:
            pass    # zero lines on either axis: the reference Frame itself may fail (C04 finding F28)
        elif exp[0] == 'ok' and sp[0] == 'ok':
            why = sel_forms_equal(real_sel_form(exp[1], axis, sk[0] == 'int', ok[0] == 'int'), model_sel_form(sp[1], table))
            if why:
                fails.append(Failure('corr', f'{desc}: Lean spec and the real concatenated Frame differ: {why}', c))
            else:
                ctx.count('spec_agrees')
        elif (exp[0] == 'ok') != (sp[0] == 'ok') and asc:
            # (a hierarchical index cannot hold labels out of tree order: the real Frame refuses some unsorted keys)
            fails.append(Failure('corr', f'{desc}: Lean spec {mo[1][:80]} vs real concatenated Frame {exp[0]}', c))
    return fails


def deep_diff(a, e, path=''):
    if type(a) != type(e):
        return f'{path}: {str(a)[:120]} vs {str(e)[:120]}'
    if isinstance(a, (list, tuple)):
        if len(a) != len(e):
            return f'{path}: length {len(a)} vs {len(e)}'
        for i, (x, y) in enumerate(zip(a, e)):
            if x != y:
                return deep_diff(x, y, f'{path}[{i}]')
    if isinstance(a, dict):
        for k in a:
            if a[k] != e.get(k):
                return deep_diff(a[k], e.get(k), f'{path}.{k}')
    return f'{path}: {str(a)[:120]} vs {str(e)[:120]}'


def f8_prediction(spos, sizes):
    cuts = list(itertools.accumulate(sizes))
    member = lambda p: next(i for i, cb in enumerate(cuts) if p < cb)
    keys = []
    for p in spos:
        m = member(p)
        if not keys or keys[-1] != m:
            keys.append(m)
    if len(set(keys)) != len(keys):
        return ('err', 'indexInit')
    if len(set(spos)) != len(spos):
        return ('err', 'nonUnique')
    return ('ok', [p for k in keys for p in sorted(q for q in spos if member(q) == k)])


def f8_holds(got, orc, spos, opos, ok, cont):
    pred = f8_prediction(spos, cont['sizes'])
    if pred[0] == 'err':
        return got[0] == 'err' and err_cat(got[1]) in (pred[1], 'indexInit', 'nonUnique')
    if got[0] == 'err' or not isinstance(opos, list):
        return False
    okey = opos[0] if ok[0] == 'int' else opos
    exp = attempt(lambda: orc.iloc[pred[1], okey] if cont['axis'] == 0 else orc.iloc[okey, pred[1]])
    if exp[0] == 'err':
        return False
    a, e = canon(got[1]), canon(exp[1])
    return a == e or (cont['axis'] == 1 and loosen(a) == loosen(e))


def first_diff(a, e):
    if a[0] != e[0]:
        return f'kind {a[0]} vs {e[0]}'
    if isinstance(a[1], dict):
        for key in a[1]:
            if a[1][key] != e[1].get(key):
                return f'{key}: {str(a[1][key])[:160]} vs {str(e[1].get(key))[:160]}'
    return f'{str(a)[:200]} vs {str(e)[:200]}'


# ---- whole-container battery
def eval_all(ctx, c, outs):
    import static_frame as sf
    from static_frame.core.exception import NotImplementedAxis
    fails = []
    cont = c['cont']
    axis = cont['axis']
    ws, wstep = c['wsize'], c['wstep']
    wopt = c.get('wopt') or {}
    with Built(cont) as b:
        q, orc = b.quilt, b.oracle
        ctx.count(f'all_axis{axis}_retain{int(cont["retain"])}')
        ctx.count(f'all_store_{cont["store"]}_mp{cont["mp"]}')
        ops = {
            'shape': lambda x: x.shape,
            'size': lambda x: x.size,
            'ndim': lambda x: x.ndim,
            'index': lambda x: x.index,
            'columns': lambda x: x.columns,
            'keys': lambda x: [tok(k) for k in x.keys()],
            'iter': lambda x: [tok(k) for k in x],
            'contains': lambda x: [(lab in x) for lab in list(orc.columns)[:2]] + ['__nope__' in x],
            'to_frame': lambda x: x.to_frame() if isinstance(x, sf.Quilt) else x,
            'values': lambda x: x.values,
            'head2': lambda x: x.head(2),
            'tail2': lambda x: x.tail(2),
            'to_pairs': lambda x: tok_pairs((x.to_frame() if isinstance(x, sf.Quilt) else x).to_pairs()),
            'to_csv': lambda x: csv_text(x.to_frame() if isinstance(x, sf.Quilt) else x),
        }
        for ax in (0, 1):
            ops[f'iter_array_{ax}'] = lambda x, ax=ax: [canon(a) for a in x.iter_array(axis=ax)]
            ops[f'iter_array_items_{ax}'] = lambda x, ax=ax: [(lab_form(k), canon(a)) for k, a in x.iter_array_items(axis=ax)]
            ops[f'iter_series_{ax}'] = lambda x, ax=ax: [canon(s) for s in x.iter_series(axis=ax)]
            ops[f'iter_series_items_{ax}'] = lambda x, ax=ax: [(lab_form(k), canon(s)) for k, s in x.iter_series_items(axis=ax)]
            ops[f'iter_tuple_{ax}'] = lambda x, ax=ax: [canon(t) for t in x.iter_tuple(axis=ax)]
            ops[f'iter_tuple_items_{ax}'] = lambda x, ax=ax: [(lab_form(k), canon(t)) for k, t in x.iter_tuple_items(axis=ax)]
            ops[f'iter_tuple_ctor_{ax}'] = lambda x, ax=ax: [canon(t) for t in x.iter_tuple(axis=ax, constructor=tuple)]
            ops[f'iter_window_{ax}'] = lambda x, ax=ax: [canon(w) for w in x.iter_window(size=ws, step=wstep, axis=ax, **wopt)]
            ops[f'iter_window_items_{ax}'] = lambda x, ax=ax: [(lab_form(k), canon(w)) for k, w in x.iter_window_items(size=ws, step=wstep, axis=ax, **wopt)]
            ops[f'iter_window_array_{ax}'] = lambda x, ax=ax: [canon(w) for w in x.iter_window_array(size=ws, step=wstep, axis=ax, **wopt)]
            ops[f'iter_window_array_items_{ax}'] = lambda x, ax=ax: [(lab_form(k), canon(w)) for k, w in x.iter_window_array_items(size=ws, step=wstep, axis=ax, **wopt)]
        ops['items'] = lambda x: [(lab_form(k), canon(s)) for k, s in x.items()]
        for name, fn in ops.items():
            got = attempt(lambda: canon_any(fn(q)))
            exp = attempt(lambda: canon_any(fn(orc)))
            if exp[0] == 'err':
                ctx.count('reference_raises')   # e.g. Frame.items with hierarchical columns (unhashable name): nothing to compare with
                continue
            if got[0] == 'err':
                if isinstance(got[1], NotImplementedAxis):
                    ctx.count('not_implemented_axis')
                    fails.append(Failure('oracle', f'{name} on a Quilt of axis {axis}: NotImplementedAxis (iteration across the members is refused); the concatenated Frame iterates',
                                         c, detail={'finding': F_NOTIMPL, 'op': name}))
                else:
                    fid = None
                    if name.startswith('iter_window') and empty_candidate_window(orc.shape[int(name[-1])], ws, wstep, wopt):
                        # a candidate window of the loop addresses no position (it starts before the axis, its size shrank to zero,
                        # or it lies past the end): the Quilt extracts it before the loop decides that it is invalid - the empty
                        # selections of C19-EMPTY (on the Quilt axis) and C19-ZEROWIDTH (on the other axis)
                        if (isinstance(got[1], UnboundLocalError) and 'component_is_series' in str(got[1])) or \
                                (isinstance(got[1], RuntimeError) and 'StopIteration' in str(got[1])):
                            fid = F_EMPTY
                        elif type(got[1]).__name__ == 'ErrorInitTypeBlocks' and 'cannot derive a row_count' in str(got[1]):
                            fid = F_ZEROW
                    fails.append(Failure('oracle', f'{name} (axis={axis} retain={cont["retain"]} sizes={cont["sizes"]}): Quilt raises {type(got[1]).__name__}: {str(got[1])[:120]}', c, detail={'op': name, 'finding': fid}))
                continue
            if got[1] != exp[1]:
                fid = F_LINEDTYPE if axis == 1 and loosen(got[1]) == loosen(exp[1]) else None
                fails.append(Failure('oracle', f'{name} (axis={axis} retain={cont["retain"]} sizes={cont["sizes"]}): Quilt differs from the concatenated Frame: {deep_diff(got[1], exp[1])}', c, detail={'op': name, 'finding': fid}))
            else:
                ctx.count('battery_same')
        # store export: the exported archive holds exactly the member Frames
        with tempfile.TemporaryDirectory(prefix='c19x_') as d:
            fp = os.path.join(d, 'q.zip')
            r = attempt(lambda: q.to_zip_pickle(fp))
            if r[0] == 'err':
                fails.append(Failure('oracle', f'Quilt.to_zip_pickle raises {type(r[1]).__name__}: {r[1]}', c))
            else:
                back = sf.Bus.from_zip_pickle(fp)
                labs = [tok(k) for k in back.keys()]
                if labs != [tok(f.name) for f in b.frames]:
                    fails.append(Failure('oracle', f'Quilt.to_zip_pickle: labels {labs}', c))
                for (k, f), g in zip(back.items(), b.frames):
                    if canon(f) != canon(g):
                        fails.append(Failure('oracle', f'Quilt.to_zip_pickle: member {k} differs after export', c))
            fp2 = os.path.join(d, 'q_csv.zip')
            r = attempt(lambda: q.to_zip_csv(fp2))
            if r[0] == 'err':
                fid = F_CONFIG if isinstance(r[1], AttributeError) and '_config' in str(r[1]) else None
                fails.append(Failure('oracle', f'Quilt.to_zip_csv(fp) raises {type(r[1]).__name__}: {r[1]}', c, detail={'finding': fid}))
            # with an explicit config the CSV export must hold the text of every member
            fp3 = os.path.join(d, 'q_csv2.zip')
            cfg = sf.StoreConfig(include_index=True, include_columns=True)
            r = attempt(lambda: q.to_zip_csv(fp3, config=cfg))
            if r[0] == 'err':
                fails.append(Failure('oracle', f'Quilt.to_zip_csv(fp, config=...) raises {type(r[1]).__name__}: {r[1]}', c))
            else:
                with zipfile.ZipFile(fp3) as z:
                    names = z.namelist()
                    if len(names) != len(b.frames):
                        fails.append(Failure('oracle', f'Quilt.to_zip_csv: {len(names)} entries for {len(b.frames)} members', c))
                    else:
                        for nm, f in zip(names, b.frames):
                            text = z.read(nm).decode()
                            if text != csv_text(f):
                                fails.append(Failure('oracle', f'Quilt.to_zip_csv: entry {nm} is not the CSV text of member {f.name}', c))
                                break
                        else:
                            ctx.count('export_csv_same')
        msg = b.check_persist()
        if msg:
            fails.append(Failure('oracle', msg, c))
        # ---- model
        if outs:
            _, table = bus_wire(b.frames, axis)
            init, items, tf, cc = [parse_answer(o) for o in outs]
            labels = [lab_form(x) for x in (orc.index if axis == 0 else orc.columns)]
            if init[0] != 'ok' or [x if isinstance(x, str) else list(x) for x in init[1][2]] != labels:
                fails.append(Failure('corr', f'Quilt.labels: model {outs[0][:200]} vs real {labels}', c))
            # supported direction of iter_array_items: lines of the members
            real_items = attempt(lambda: [(lab_form(k), array_toks(a)) for k, a in q.iter_array_items(axis=1 - axis)])
            if real_items[0] == 'ok' and items[0] == 'ok':
                m_items = [((x[0] if isinstance(x[0], str) else list(x[0])), [table[cid] for cid in x[1]]) for x in items[1]]
                if len(m_items) != len(real_items[1]) or any(a[0] != b_[0] or not all(cell_equal(u, v) for u, v in zip(a[1], b_[1])) or len(a[1]) != len(b_[1])
                                                            for a, b_ in zip(real_items[1], m_items)):
                    fails.append(Failure('corr', f'iter_array_items: model {str(m_items)[:200]} vs real {str(real_items[1])[:200]}', c))
                else:
                    ctx.count('model_items_agree')
            elif real_items[0] != items[0]:
                fails.append(Failure('corr', f'iter_array_items: model {outs[1][:100]} vs real {real_items[0]}', c))
            real_tf = attempt(lambda: q.to_frame())
            if real_tf[0] == 'ok' and tf[0] == 'ok':
                why = sel_forms_equal(real_sel_form(real_tf[1], axis, False, False), model_sel_form(tf[1], table))
                if why:
                    fails.append(Failure('corr', f'to_frame: {why}', c))
                cf = {'flags': (False, False), 'labels': [x if isinstance(x, str) else list(x) for x in cc[1][0]], 'opp': list(cc[1][1]),
                      'lines': [[table[cid] for cid in ln] for ln in cc[1][2]]}
                why = sel_forms_equal(real_sel_form(orc, axis, False, False), cf)
                if why:
                    fails.append(Failure('corr', f'concatSpec vs Frame.from_concat: {why}', c))
            else:
                fails.append(Failure('corr', f'to_frame: model {outs[2][:100]} real {real_tf[0]}', c))
    return fails


def canon_any(x):
    if isinstance(x, (list, tuple)) and not hasattr(x, '_fields'):
        return [canon_any(y) for y in x]
    if isinstance(x, (str, bool, int)) or x is None:
        return x
    if isinstance(x, tuple):
        return canon(x)
    import static_frame as sf
    from static_frame.core.index_base import IndexBase
    if isinstance(x, (sf.Frame, sf.Series, np.ndarray, IndexBase)):
        return canon(x)
    return x


def tok_pairs(p):
    if isinstance(p, tuple):
        return tuple(tok_pairs(x) for x in p)
    return tok(p)


def csv_text(f, **kw):
    s = io.StringIO()
    f.to_csv(s, **kw)
    return s.getvalue()


# ---------------------------------------------------------------------------------------------- Batch (oracle)
BATCH_OPS = {
    # name: (callable on Batch-or-Frame, argument generator)
    'iloc': lambda x, a: x.iloc[gen.key_to_py(a[0]), gen.key_to_py(a[1])],
    'iloc_r': lambda x, a: x.iloc[gen.key_to_py(a[0])],
    'getitem': lambda x, a: x[a[0]],
    'loc_r': lambda x, a: x.loc[a[0]],
    'drop_iloc': lambda x, a: x.drop.iloc[gen.key_to_py(a[0])],
    'head': lambda x, a: x.head(a[0]),
    'tail': lambda x, a: x.tail(a[0]),
    'add': lambda x, a: x + a[0],
    'radd': lambda x, a: a[0] + x,
    'mul': lambda x, a: x * a[0],
    'sub': lambda x, a: x - a[0],
    'gt': lambda x, a: x > a[0],
    'eq': lambda x, a: x == a[0],
    'neg': lambda x, a: -x,
    'abs': lambda x, a: abs(x),
    'invert': lambda x, a: ~x,
    'sum': lambda x, a: x.sum(axis=a[0], skipna=a[1]),
    'min': lambda x, a: x.min(axis=a[0], skipna=a[1]),
    'max': lambda x, a: x.max(axis=a[0], skipna=a[1]),
    'mean': lambda x, a: x.mean(axis=a[0], skipna=a[1]),
    'prod': lambda x, a: x.prod(axis=a[0], skipna=a[1]),
    'any': lambda x, a: x.any(axis=a[0]),
    'all': lambda x, a: x.all(axis=a[0]),
    'cumsum': lambda x, a: x.cumsum(axis=a[0]),
    'count': lambda x, a: x.count(axis=a[0], skipna=a[1]),
    'transpose': lambda x, a: x.transpose(),
    'T': lambda x, a: x.T,
    'sort_index': lambda x, a: x.sort_index(ascending=a[0]),
    'sort_columns': lambda x, a: x.sort_columns(ascending=a[0]),
    'isin': lambda x, a: x.isin(a),
    'roll': lambda x, a: x.roll(a[0], a[1]),
    'shift': lambda x, a: x.shift(a[0], a[1]),
    'clip': lambda x, a: x.clip(lower=a[0], upper=a[1]),
    'duplicated': lambda x, a: x.duplicated(axis=a[0]),
    'iloc_max': lambda x, a: x.iloc_max(axis=a[0]),
    'loc_min': lambda x, a: x.loc_min(axis=a[0]),
    'round': lambda x, a: round(x, a[0]),
}
FRAME_ONLY = {'iloc', 'getitem', 'clip', 'roll', 'shift', 'sort_columns', 'transpose', 'T', 'duplicated', 'cumsum', 'iloc_max',
              'loc_min', 'drop_iloc', 'round', 'count', 'any', 'all'}
# function application: named functions (the case stays JSON-able)
APPLY_FUNCS = {
    'fillna0': lambda f: f.fillna(0),
    'dropna': lambda f: f.dropna(),
    'dropna_any': lambda f: f.dropna(condition=np.any),
    'isna': lambda f: f.isna(),
    'notna_sum': lambda f: f.notna().sum(),
    'first_row': lambda f: f.iloc[0],
    'second_row': lambda f: f.iloc[1],           # fails on one-row Frames (apply_except drops them)
    'third_row': lambda f: f.iloc[2],
    'shape_elem': lambda f: f.shape[0],           # an element: normalised to a Series by Batch
    'values': lambda f: f.values,                 # a 2-D array: normalised to a Frame
    'col0_values': lambda f: f.iloc[:, 0].values,  # a 1-D array: normalised to a Series
    'astype_str': lambda f: f.astype(str),
    'rename_cols': lambda f: f.relabel(columns=lambda c: f'{c}!'),
}
APPLY_ITEMS_FUNCS = {
    'label_rename': lambda k, f: f.rename(f'{k}-x'),
    'label_col': lambda k, f: f.assign['__label__'](k) if isinstance(f, __import__('static_frame').Frame) else f,
}


def rand_batch_op(rng, numeric, rows, cols):
    r = rng.random()
    if r < 0.22:
        nm = rng.choice(['iloc', 'iloc_r', 'head', 'tail', 'drop_iloc'])
        if nm == 'iloc':
            return [nm, gen.rand_key(rng, rows, allow_oob=0.02), gen.rand_key(rng, cols, allow_oob=0.02)]
        if nm in ('iloc_r', 'drop_iloc'):
            return [nm, gen.rand_key(rng, rows, kinds=('int', 'sl', 'list', 'mask'), allow_oob=0.02)]
        return [nm, rng.randint(0, rows + 1)]
    if r < 0.45:
        if numeric:
            nm = rng.choice(['add', 'radd', 'mul', 'sub', 'gt', 'eq', 'neg', 'abs', 'clip', 'round'])
        else:
            nm = rng.choice(['eq', 'eq', 'isin'])
        if nm in ('neg', 'abs'):
            return [nm]
        if nm == 'clip':
            return [nm, rng.randint(-3, 0), rng.randint(1, 5)]
        if nm == 'round':
            return [nm, rng.randint(0, 1)]
        if nm == 'isin':
            return [nm, 'a', 'b', 1]
        return [nm, rng.choice([0, 1, 2, -1, 3])]
    if r < 0.7:
        if numeric:
            nm = rng.choice(['sum', 'min', 'max', 'mean', 'prod', 'count', 'cumsum', 'iloc_max', 'loc_min'])
        else:
            nm = rng.choice(['count', 'count', 'duplicated'])
        if nm in ('cumsum', 'iloc_max', 'loc_min', 'duplicated'):
            return [nm, rng.randint(0, 1)]
        return [nm, rng.randint(0, 1), rng.random() < 0.6]
    if r < 0.85:
        nm = rng.choice(['transpose', 'T', 'sort_index', 'sort_columns', 'roll', 'shift'] if numeric else ['transpose', 'T', 'sort_index', 'sort_columns', 'roll'])
        if nm in ('sort_index', 'sort_columns'):
            return [nm, rng.random() < 0.5]
        if nm in ('roll', 'shift'):
            return [nm, rng.randint(-2, 2), rng.randint(-2, 2)]
        return [nm]
    if r < 0.95:
        return ['apply', rng.choice(sorted(APPLY_FUNCS))]
    return ['apply_items', rng.choice(sorted(APPLY_ITEMS_FUNCS))]


def rand_batch_case(rng):
    k = rng.randint(1, 4)
    numeric = rng.random() < 0.65
    rows = rng.randint(1, 4)
    cols = rng.randint(1, 3)
    same_shape = rng.random() < 0.6
    frames = []
    col_spec = None
    for i in range(k):
        r_i = rows if same_shape else rng.randint(1, 4)
        if numeric:
            spec = gen.rand_frame_spec(rng, r_i, cols, dtypes=['float64', 'int64'], index_kinds=('str', 'int'), column_kinds=('str',),
                                       min_rows=r_i, min_cols=cols, na=0.3)
        else:
            spec = gen.rand_frame_spec(rng, r_i, cols, dtypes=gen.DTYPES_BASIC, index_kinds=('str', 'int'), column_kinds=('str',),
                                       min_rows=r_i, min_cols=cols, na=0.3)
        if col_spec is None:
            col_spec = spec['columns']
        else:
            spec['columns'] = col_spec   # aligned columns
        frames.append(spec)
    depth = rng.randint(1, 3)
    ops = []
    r_cur, c_cur = rows, cols
    for _ in range(depth):
        ops.append(rand_batch_op(rng, numeric, r_cur, c_cur))
    final = rng.choice(['items', 'items', 'to_frame', 'to_frame', 'to_frame1', 'to_bus', 'keys_values', 'shapes'])
    pool = rng.choice([None, None, None, 'threads'])
    use_except = rng.random() < 0.3
    if use_except and rng.random() < 0.6:
        # a function that fails on the short Frames only: apply_except must drop exactly those labels
        ops[rng.randrange(len(ops))] = ['apply', rng.choice(['second_row', 'third_row'])]
    return {'k': 'batch', 'frames': frames, 'names': rng.sample(NAMES, k), 'ops': ops, 'final': final, 'pool': pool, 'except': use_except}


def apply_op(x, op, is_batch):
    """Apply one operation descriptor to a Batch (is_batch) or to one Frame/Series."""
    name = op[0]
    if name == 'apply':
        fn = APPLY_FUNCS[op[1]]
        return x.apply(fn) if is_batch else fn(x)
    if name == 'apply_items':
        raise AssertionError('handled by the caller')
    return BATCH_OPS[name](x, op[1:])


def eval_batch(ctx, c):
    import static_frame as sf
    from static_frame.core.batch import normalize_container
    fails = []
    frames = [gen.build_frame(s).rename(nm) for s, nm in zip(c['frames'], c['names'])]
    labels = list(c['names'])
    kw = {}
    if c['pool'] == 'threads':
        kw = {'max_workers': 2, 'use_threads': True}
    ctx.count(f'batch_members_{len(frames)}')
    ctx.count(f'batch_depth_{len(c["ops"])}')
    ctx.count(f'batch_final_{c["final"]}')
    ctx.count(f'batch_pool_{c["pool"]}')

    # ---- reference: {label: op(frame)} computed Frame by Frame
    ref = [(lab, f) for lab, f in zip(labels, frames)]
    ref_err = None
    ops_eff = []
    for op in c['ops']:
        if op[0] in FRAME_ONLY and any(not isinstance(f, sf.Frame) for _, f in ref):
            # the statement is about Frames: Frame-only methods are not applied to the Series a reduction left
            # (Batch.clip / roll / shift pass Frame keywords that Series methods do not take)
            ctx.count('chain_truncated_at_series')
            break
        ops_eff.append(op)
        nxt = []
        for lab, f in ref:
            try:
                if op[0] == 'apply_items':
                    r = APPLY_ITEMS_FUNCS[op[1]](lab, f)
                else:
                    r = apply_op(f, op, False)
                nxt.append((lab, normalize_container(r)))
            except Exception as ex:
                if c['except'] and op[0] in ('apply', 'apply_items'):
                    continue   # apply_except / apply_items_except drop the failing Frame
                ref_err = ex
                break
        if ref_err is not None:
            break
        ref = nxt
        ctx.count(f'bop_{op[0]}')

    # ---- the real Batch
    def build():
        bt = sf.Batch.from_frames(frames, **kw)
        for op in ops_eff:
            if op[0] == 'apply' and c['except']:
                bt = bt.apply_except(APPLY_FUNCS[op[1]], Exception)
            elif op[0] == 'apply_items':
                fn = APPLY_ITEMS_FUNCS[op[1]]
                bt = bt.apply_items_except(fn, Exception) if c['except'] else bt.apply_items(fn)
            else:
                bt = apply_op(bt, op, True)
        return bt
    desc = f'Batch {labels} ops={ops_eff} pool={c["pool"]} except={c["except"]}'
    got = attempt(lambda: list(build().items()))
    if ref_err is not None:
        ctx.count('batch_op_raises')
        if got[0] == 'ok':
            fails.append(Failure('oracle', f'{desc}: applying the operations Frame by Frame raises {type(ref_err).__name__}, the Batch yields {len(got[1])} items', c))
        return fails
    if got[0] == 'err':
        fails.append(Failure('oracle', f'{desc}: the Batch raises {type(got[1]).__name__}: {str(got[1])[:120]}; Frame by Frame works', c))
        return fails
    items = got[1]
    a = [(tok(k), canon(v)) for k, v in items]
    e = [(tok(k), canon(v)) for k, v in ref]
    if a != e:
        fails.append(Failure('oracle', f'{desc}: items {[x[0] for x in a]} differ from {{label: op(frame)}} {[x[0] for x in e]}: {first_item_diff(a, e)}', c))
        return fails
    ctx.count('batch_items_same')
    final = c['final']
    if final in ('to_frame', 'to_frame1'):
        axis = 0 if final == 'to_frame' else 1
        tf = attempt(lambda: build().to_frame(axis=axis))
        why = check_to_frame(tf, ref, axis)
        if why == 'skip':
            ctx.count('to_frame_reference_unavailable')
        elif why:
            fails.append(Failure('oracle', f'{desc}: to_frame(axis={axis}): {why}', c))
        else:
            ctx.count('to_frame_same')
    elif final == 'to_bus':
        tb = attempt(lambda: build().to_bus())
        if not all(isinstance(v, sf.Frame) for _, v in ref):
            # a Bus holds Frames only: Series results are refused (ErrorInitBus), never stored under a wrong label
            if tb[0] == 'ok':
                fails.append(Failure('oracle', f'{desc}: to_bus accepted non-Frame results', c))
            else:
                ctx.count('to_bus_refuses_series')
        elif tb[0] == 'err':
            fails.append(Failure('oracle', f'{desc}: to_bus raises {type(tb[1]).__name__}: {tb[1]}', c))
        else:
            bus = tb[1]
            a = [(tok(k), canon(v)) for k, v in bus.items()]
            if a != e:
                fails.append(Failure('oracle', f'{desc}: to_bus items differ from {{label: op(frame)}}', c))
            else:
                ctx.count('to_bus_same')
    elif final == 'keys_values':
        ks = [tok(k) for k in build().keys()]
        vs = [canon(v) for v in build().values]
        if ks != [x[0] for x in e] or vs != [x[1] for x in e]:
            fails.append(Failure('oracle', f'{desc}: keys/values differ from the reference', c))
    elif final == 'shapes':
        sh = attempt(lambda: build().shapes)
        if sh[0] == 'ok':
            a = [(tok(k), tuple(v)) for k, v in sh[1].items()]
            if a != [(tok(k), tuple(v.shape)) for k, v in ref]:
                fails.append(Failure('oracle', f'{desc}: shapes {a}', c))
    return fails


def first_item_diff(a, e):
    for x, y in zip(a, e):
        if x != y:
            if x[0] != y[0]:
                return f'label {x[0]} vs {y[0]}'
            return f'under {x[0]}: {first_diff(x[1], y[1])}'
    return f'{len(a)} vs {len(e)} items'


def check_to_frame(tf, ref, axis):
    """`to_frame` concatenates exactly the per-label results: every cell of every result is found under its label,
    in order, and nothing else (cells outside a result's own labels are the fill value NaN)."""
    import static_frame as sf
    if not ref:
        # nothing to concatenate: an error or an empty Frame
        return None if tf[0] == 'err' or tf[1].size == 0 else f'empty Batch produced a Frame of shape {tf[1].shape}'
    all1d = all(isinstance(v, sf.Series) for _, v in ref)
    mixed = (not all1d) and any(isinstance(v, sf.Series) for _, v in ref)
    if mixed:
        return 'skip'
    # independent reference built cell by cell
    if all1d:
        # one line per label along `axis`; opposite labels = union of the Series indices in order of appearance
        # (Frame.from_concat union order is C11's concern: compare cells by label)
        if tf[0] == 'err':
            # from_concat refuses e.g. Series with tuple / unalignable indices; reference unavailable
            chk = attempt(lambda: sf.Frame.from_concat([v for _, v in ref], axis=axis, index=[k for k, _ in ref] if axis == 0 else None,
                                                      columns=[k for k, _ in ref] if axis == 1 else None))
            return 'skip' if chk[0] == 'err' else f'raises {type(tf[1]).__name__}: {tf[1]}'
        f = tf[1]
        along = list(f.index if axis == 0 else f.columns)
        if [tok(x) for x in along] != [tok(k) for k, _ in ref]:
            return f'labels {[tok(x) for x in along]} are not the Batch labels {[tok(k) for k, _ in ref]}'
        opp = list(f.columns if axis == 0 else f.index)
        opp_t = [tok(x) for x in opp]
        for i, (k, s) in enumerate(ref):
            line = f.iloc[i] if axis == 0 else f.iloc[:, i]
            vals = dict(zip(opp_t, array_toks(line.values)))
            own = dict(zip([tok(x) for x in s.index], array_toks(s.values)))
            if len(own) != len(s):
                return 'skip'
            for lab, v in own.items():
                if lab not in vals or not cell_equal_na(vals[lab], v):
                    return f'under label {tok(k)}: cell {lab} is {vals.get(lab)}, the result of the operation holds {v}'
            for lab, v in vals.items():
                if lab not in own and v not in ('nan', 'N', 'nat'):
                    return f'under label {tok(k)}: cell {lab} = {v} does not come from the result of the operation'
        return None
    if tf[0] == 'err':
        chk = attempt(lambda: sf.Frame.from_concat_items(ref, axis=axis))
        return 'skip' if chk[0] == 'err' else f'raises {type(tf[1]).__name__}: {tf[1]}'
    f = tf[1]
    along = list(f.index if axis == 0 else f.columns)
    exp_along = []
    for k, v in ref:
        exp_along.extend([tok(k), tok(x)] if not isinstance(x, tuple) else [tok(k)] + [tok(y) for y in x] for x in (v.index if axis == 0 else v.columns))
    got_along = [[tok(y) for y in x] for x in along]
    if got_along != exp_along:
        return f'labels {got_along} are not (Batch label, inner label) of the results in order {exp_along}'
    opp_t = [tok(x) for x in (f.columns if axis == 0 else f.index)]
    pos = 0
    for k, v in ref:
        own_opp = [tok(x) for x in (v.columns if axis == 0 else v.index)]
        if len(set(own_opp)) != len(own_opp):
            return 'skip'
        cnt = v.shape[0] if axis == 0 else v.shape[1]
        for i in range(cnt):
            line = f.iloc[pos] if axis == 0 else f.iloc[:, pos]
            vals = dict(zip(opp_t, array_toks(line.values)))
            src = v.iloc[i] if axis == 0 else v.iloc[:, i]
            own = dict(zip(own_opp, array_toks(src.values)))
            for lab, val in own.items():
                if lab not in vals or not cell_equal_na(vals[lab], val):
                    return f'under label {tok(k)} line {i}: cell {lab} is {vals.get(lab)}, the result of the operation holds {val}'
            for lab, val in vals.items():
                if lab not in own and val not in ('nan', 'N', 'nat'):
                    return f'under label {tok(k)} line {i}: cell {lab} = {val} does not come from the result'
            pos += 1
    if pos != len(along):
        return f'{len(along)} lines for {pos} result lines'
    return None


def cell_equal_na(a, b):
    if cell_equal(a, b):
        return True
    # concatenation may consolidate a line to object / float: None and NaN both mark a missing cell
    if {a, b} <= {'nan', 'N'}:
        return True
    ka, kb = a.partition(':')[0], b.partition(':')[0]
    if {ka, kb} == {'s'}:
        return a == b
    return False


# ---------------------------------------------------------------------------------------------- Batch (model)
def rand_bmodel_case(rng):
    k = rng.randint(1, 4)
    cols = rng.randint(1, 3)
    col_labels = rng.sample(['x', 'y', 'z', 'w'], cols)
    frames = []
    for i in range(k):
        rows = rng.randint(1, 3)
        frames.append({'index': [f'r{i}{j}' for j in range(rows)] if rng.random() < 0.7 else [f'r{j}' for j in range(rows)],
                       'columns': col_labels,
                       'rows': [[None if rng.random() < 0.25 else rng.randint(-5, 9) for _ in range(cols)] for _ in range(rows)]})
    depth = rng.randint(0, 3)
    ops = []
    is_series = False
    for _ in range(depth):
        if is_series:
            # after a reduction the Batch holds Series: only the operations the model defines on Series
            nm = rng.choice(['head', 'add', 'mul', 'neg', 'fillna', 'isna', 'dropna'])
        else:
            nm = rng.choice(['iloc', 'head', 'add', 'mul', 'neg', 'fillna', 'isna', 'dropna', 'sum', 'count'])
        if nm == 'iloc':
            rk = gen.rand_key(rng, 2, allow_oob=0.05)
            ops.append([nm, rk, gen.rand_key(rng, cols, kinds=('sl', 'list', 'mask', 'all'), allow_oob=0.02)])
            is_series = rk[0] == 'int'
        elif nm == 'head':
            ops.append([nm, rng.randint(0, 3)])
        elif nm in ('add', 'mul', 'fillna'):
            ops.append([nm, rng.randint(-2, 3)])
        elif nm == 'sum':
            ops.append([nm, rng.randint(0, 1), int(rng.random() < 0.5)])
            is_series = True
        elif nm == 'count':
            ops.append([nm, rng.randint(0, 1)])
            is_series = True
        else:
            ops.append([nm])
    stages = [['x' if rng.random() < 0.3 else 's', op] for op in ops]
    final = rng.choice(['items', 'items', 'toframe', 'toframe', 'tobus'])
    return {'k': 'bmodel', 'frames': frames, 'names': rng.sample(NAMES[:5], k), 'stages': stages, 'final': final,
            'pool': rng.random() < 0.3}


def bv(v):
    return 'N' if v is None else str(int(v))


def bmodel_batch_wire(c):
    parts = []
    for nm, f in zip(c['names'], c['frames']):
        rows = ' '.join('(' + ' '.join(bv(v) for v in r) + ')' for r in f['rows'])
        parts.append(f'({nm} (F ({" ".join(f["index"])}) ({" ".join(f["columns"])}) ({rows})))')
    return '(' + ' '.join(parts) + ')'


def bop_wire(op):
    if op[0] == 'iloc':
        return f'(iloc {gen.key_to_wire(op[1])} {gen.key_to_wire(op[2])})'
    return '(' + ' '.join(str(x) for x in op) + ')'


def bmodel_lines(c):
    b = bmodel_batch_wire(c)
    kind = {('s', False): 's', ('x', False): 'x', ('s', True): 'p', ('x', True): 'px'}
    sts = '(' + ' '.join(f'({kind[(k, c["pool"])]} {bop_wire(op)})' for k, op in c['stages']) + ')'
    return [f'batch.{c["final"]} {b} {sts}']


def real_bop(x, op):
    nm = op[0]
    if nm == 'iloc':
        return x.iloc[gen.key_to_py(op[1]), gen.key_to_py(op[2])]
    if nm == 'head':
        return x.head(op[1])
    if nm == 'add':
        return x + op[1]
    if nm == 'mul':
        return x * op[1]
    if nm == 'neg':
        return -x
    if nm == 'fillna':
        return x.apply(lambda f: f.fillna(float(op[1])))
    if nm == 'isna':
        return x.apply(lambda f: f.isna().astype(float))
    if nm == 'dropna':
        return x.apply(lambda f: f.dropna())
    if nm == 'sum':
        return x.sum(axis=op[1], skipna=bool(op[2]))
    if nm == 'count':
        return x.count(axis=op[1]).apply(lambda s: s.astype(float))
    raise ValueError(nm)


def item_form(v):
    """Real Frame/Series of floats -> model Item form."""
    import static_frame as sf

    def cv(x):
        x = float(x)
        if x != x:
            return 'N'
        assert x == int(x), x
        return str(int(x))
    if isinstance(v, sf.Frame):
        return ['F', [str(x) for x in v.index], [str(x) for x in v.columns], [[cv(x) for x in row] for row in v.values.tolist()] if v.shape[1] else [[] for _ in range(v.shape[0])]]
    return ['S', [str(x) for x in v.index], [cv(x) for x in v.values.tolist()]]


def eval_bmodel(ctx, c, outs):
    import static_frame as sf
    fails = []
    # one consolidated float64 block per Frame (several blocks + one row + skipna=False is DESIGN F16, C15's concern)
    frames = [sf.Frame(np.array([[np.nan if v is None else float(v) for v in r] for r in f['rows']], dtype=float).reshape(len(f['rows']), len(f['columns'])),
                       index=f['index'], columns=f['columns'], name=nm) for nm, f in zip(c['names'], c['frames'])]
    final = c['final']
    ctx.count(f'bmodel_{final}_pool{int(c["pool"])}')
    kw = {'max_workers': 2, 'use_threads': True} if c['pool'] else {}

    def build():
        bt = sf.Batch.from_frames(frames, **kw)
        for kind, op in c['stages']:
            ctx.count(f'bmodel_stage_{kind}')
            if kind == 'x':
                bt = bt.apply_except(lambda f, op=op: real_bop_frame(f, op), Exception)
            else:
                bt = real_bop(bt, op)
        return bt
    if final == 'toframe':
        got = attempt(lambda: build().to_frame())
    elif final == 'tobus':
        got = attempt(lambda: list(build().to_bus().items()))
    else:
        got = attempt(lambda: list(build().items()))
    if not outs:
        return fails
    if zero_size_on_the_way(frames, c['stages']):
        # operators / reductions / concatenation of zero-size containers fail in the library in several ways
        # (cf. C19-EMPTYMEMBER, C19-ZEROWIDTH); the model is compared on non-empty intermediate results
        ctx.count('bmodel_zero_size')
        return fails
    ans = parse_answer(outs[0])
    desc = f'Batch model {c["names"]} stages={c["stages"]} pool={c["pool"]} final={final}'
    if got[0] == 'err':
        if ans[0] == 'ok' and (has_zero_size(ans[1]) or type(got[1]).__name__ in ('ErrorInitIndexLevel', 'ErrorInitTypeBlocks')):
            ctx.count('bmodel_zero_size')    # zero-length containers: concatenation / hierarchy building fails in the library (cf. C19-EMPTYMEMBER)
        elif ans[0] != 'err':
            fails.append(Failure('corr', f'{desc}: real raises {type(got[1]).__name__}: {str(got[1])[:80]}, model {outs[0][:100]}', c))
        else:
            ctx.count('bmodel_both_err')
        return fails
    if ans[0] == 'err':
        if ans[1] in ('value', 'shape'):
            ctx.count('bmodel_outside_model')   # element results / unaligned or mixed containers: the model declines
            return fails
        fails.append(Failure('corr', f'{desc}: model {outs[0]}, real returns', c))
        return fails
    try:
        if final == 'toframe':
            f = got[1]
            real = [[lab_plain(x) for x in f.index], [str(x) for x in f.columns], item_form(f)[3]]
            model = [[x if isinstance(x, str) else list(x) for x in ans[1][0]], list(ans[1][1]), [list(r) for r in ans[1][2]]]
        else:
            real = [[str(k), item_form(v)] for k, v in got[1]]
            model = [[x[0], [x[1][0]] + [list(y) if not (isinstance(y, list) and y and isinstance(y[0], list)) else [list(z) for z in y] for y in x[1][1:]]] for x in ans[1]]
    except AssertionError as ex:
        fails.append(Failure('corr', f'{desc}: non-integral value in the real result {ex}', c))
        return fails
    if real != model and has_zero_size(ans[1]):
        ctx.count('bmodel_zero_size')    # operators on zero-size Frames fail in the library; outside the model
    elif real != model:
        fails.append(Failure('corr', f'{desc}: real {str(real)[:300]} vs model {str(model)[:300]}', c))
    else:
        ctx.count('bmodel_agrees')
    return fails


def zero_size_on_the_way(frames, stages):
    for f in frames:
        cur = f
        for _, op in stages:
            try:
                cur = real_bop_frame(cur, op)
            except Exception:
                break
            if getattr(cur, 'size', 1) == 0:
                return True
    return False


def has_zero_size(sx):
    """does a model answer (items or a frame) hold an empty list of labels / values anywhere"""
    if isinstance(sx, list):
        if len(sx) == 0:
            return True
        return any(has_zero_size(y) for y in sx)
    return False


def lab_plain(x):
    if isinstance(x, tuple):
        return [str(y) for y in x]
    return str(x)


def real_bop_frame(f, op):
    nm = op[0]
    if nm == 'fillna':
        return f.fillna(float(op[1]))
    if nm == 'isna':
        return f.isna().astype(float)
    if nm == 'dropna':
        return f.dropna()
    if nm == 'count':
        return f.count(axis=op[1]).astype(float)
    return real_bop(f, op)
