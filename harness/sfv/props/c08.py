"""C08 - functional update interfaces change only what they address.

Oracle: a list-of-token reference copy of the Frame/Series with exactly the addressed cells replaced
(assign), removed (drop), marked (mask), retyped (astype) ...; the original container is
snapshotted before and after every call.  TypeBlocks-level model correspondence (drop / ufunc /
astype generators) is part of C03's `tb` cases; here the model supplies `Key.positions` and the
ascending-slice function, and the theorems of Props/C08 are audited.

Assignment generator: the interfaces assign_elem / assign_array (and the dedicated `tb_assign` cases) also
run the real `TypeBlocks._assign_from_iloc_by_unit(row_key, column_key, value)` (wrapped in
`TypeBlocks.from_blocks` as `extract_iloc_assign_by_unit` does) next to the Lean model `TB.assignUnit`
(driver op `tb.assign`): row count, block layout, per-column dtype tokens and the cell tokens are compared
(unaddressed columns exactly; addressed columns up to NumPy's value conversion into the resolved dtype,
which the model does not perform), and for ascending column keys a Lean-independent reference (the
original columns with exactly the addressed cells replaced, unaddressed dtypes kept) is the oracle.
"""
from __future__ import annotations

import numpy as np

from check import Failure
from sfv import gen
from sfv.canon import tok, untok, err_cat, dtype_tok, array_toks, frame_snapshot, series_snapshot
from sfv.props.c04 import ref_positions, label_key, incl_positions, cell_equal
from sfv.tbwire import Interner, tb_wire_from_blocks, answer_tb, real_tb_view
from sfv.props import c08_blocks

TARGETS = ['SFModel.Props.C08', 'SFModel.Props.C08Blocks', 'SFModel.Props.C04Asc', 'SFModel.Bridge']
THEOREMS = []  # filled from tools/meta at import (see below)
PARTIAL = []
CORR_ONLY = ['Frame/Series assign with Series / Frame values (label alignment; the block generator _assign_from_iloc_by_blocks itself is proved: assign_blocks_exact, cases in c08_blocks.py), assign.bloc, assign.apply, mask, relabel, rename, insert_before/after: reference-model oracle',
             'Frame.assign with element / array values: proved at the TypeBlocks generator (assign_exact) + correspondence of the generator; the Frame wrapper (key_to_ascending_key, label keys) by the oracle',
             'TypeBlocks drop/astype/ufunc generators: model correspondence in the C03 tb cases']
RULE = ('random frames/series x layout x interface (assign/drop/mask/astype/relabel/rename/insert) x route (iloc/loc/getitem/bloc) x '
        'selector kinds x value shapes; tb_assign: layouts with wide 2-D blocks x ascending column keys that address a strict part of a block x '
        'row keys (null, repeats, empty, integer) x value shapes (element, 1-D per row / per column, 2-D, surplus columns), thorough: every layout of '
        '<= 3 columns (some of 4) x every column subset exhaustively; non-trivial = non-empty container and a key that is not the null slice on both axes; '
        'distinct = distinct canonical case JSON')
TRUSTED = ['NumPy astype value conversion (reference uses the same conversion on a single column)',
           'NumPy value conversion when a sub-block is copied into the resolved dtype / a value is stored (assignUnit carries cells over unchanged; addressed columns are compared with == on the cell values)',
           'resolve_dtype answers are supplied to the model as a table of the pairs the run observes (resolution itself is C07)']
ASSUMPTIONS = ['unlabelled 2-D array values are generated only with ascending column keys (assignment order for non-ascending keys is documented as key-order independent, finding F14)']
BUDGET = {'quick': 200, 'thorough': 1700}

import json, os
_meta = os.path.join(os.path.dirname(os.path.dirname(os.path.dirname(os.path.dirname(os.path.abspath(__file__))))), 'tools', 'meta', 'C08.json')
if os.path.exists(_meta):
    THEOREMS = json.load(open(_meta)).get('theorems', [])
    PARTIAL = json.load(open(_meta)).get('partial', [])

INTERFACES = ['assign_elem', 'assign_array', 'assign_series', 'assign_frame', 'assign_bloc', 'assign_apply',
              'drop', 'mask', 'astype', 'relabel', 'rename', 'insert', 's_assign', 's_drop', 's_mask', 's_relabel', 's_insert']
VALUES = ['i:7', 'f:1.5', 's:"zz"', 'b:1', 'N', 'i:-3', 's:"abcdefgh"']


def nontrivial(c):
    s = c['spec']
    return s['rows'] > 0 and len(s['cols']) > 0 and not (c.get('rk', ['x'])[0] == 'all' and c.get('ck', ['x'])[0] == 'all')


def cases(ctx):
    rng = ctx.rng('main')
    quick = ctx.tier == 'quick'
    for i in range(3200 if quick else 48000):
        spec = gen.rand_frame_spec(rng, 4, 6, dtypes=rng.choice([gen.DTYPES_BASIC, gen.DTYPES_BASIC, ['int64', 'float64'], gen.DTYPES_ALL]),
                                   index_kinds=('auto', 'int', 'str'), column_kinds=('auto', 'int', 'str'), min_cols=1, run_bias=0.6)
        n, m = spec['rows'], len(spec['cols'])
        iface = INTERFACES[i % len(INTERFACES)] if quick else rng.choice(INTERFACES)
        route = rng.choice(['iloc', 'loc', 'getitem'])
        rk = gen.rand_key(rng, n, unique_list=True)
        ck = gen.rand_key(rng, m, unique_list=True)
        yield {'k': iface, 'spec': spec, 'route': route, 'rk': rk, 'ck': ck, 'val': rng.choice(VALUES), 'r': rng.randint(0, 10 ** 6)}
    yield from _astype_stream(ctx, rng, 500 if quick else 6000)
    yield from _assign_frame_stream(ctx, ctx.rng('assign_frame'), 700 if quick else 8000)
    yield from _tbassign_fixed()
    yield from _tbassign_stream(ctx, ctx.rng('tbassign'), 1500 if quick else 12000)
    yield from c08_blocks.cases(ctx)       # _assign_from_iloc_by_blocks / get_block_match next to their model
    if not quick:
        yield from _tbassign_exhaustive(ctx)


def _assign_frame_stream(ctx, rng, count):
    """a Frame (or Series / array) value written into SOME rows of several columns that share one 2-D block: the value's
    columns have their own dtypes, the block mates that are not addressed must keep theirs"""
    for i in range(count):
        spec = gen.rand_frame_spec(rng, 5, 6, dtypes=rng.choice([['int64', 'float64'], gen.DTYPES_BASIC, ['int64', 'int8', 'float64', 'float32']]),
                                   index_kinds=('auto', 'int', 'str'), column_kinds=('auto', 'int', 'str'), min_cols=2, min_rows=2, run_bias=0.85)
        n, m = spec['rows'], len(spec['cols'])
        a = rng.randint(0, m - 2)
        b = rng.randint(a + 2, m)
        rk = gen.rand_key(rng, n, kinds=('sl', 'list', 'mask', 'sl'), unique_list=True)
        yield {'k': rng.choice(['assign_frame', 'assign_frame', 'assign_array', 'assign_series']), 'spec': spec,
               'route': rng.choice(['iloc', 'loc']), 'rk': rk, 'ck': ['sl', a, b, None], 'val': rng.choice(VALUES), 'r': rng.randint(0, 10 ** 6)}


def _astype_stream(ctx, rng, count):
    """frames with long same-dtype runs (2-D blocks) and keys addressing several columns of a block plus later
    ones, retyped to a dtype a block already has: the skip branch of _astype_blocks with further targets"""
    for i in range(count):
        spec = gen.rand_frame_spec(rng, 3, 7, dtypes=['int64', 'float64', 'bool'], index_kinds=('auto',), column_kinds=('str', 'auto'),
                                   min_cols=4, min_rows=1, run_bias=0.75, na=0.0)
        m = len(spec['cols'])
        ck = ['mask'] + [1 if rng.random() < 0.6 else 0 for _ in range(m)]
        if rng.random() < 0.3:
            ps = [j for j in range(m) if ck[1 + j]]
            rng.shuffle(ps)
            ck = ['list'] + ps
        yield {'k': 'astype', 'spec': spec, 'route': 'getitem', 'rk': ['all'], 'ck': ck, 'val': 'i:7', 'r': 3 + 5 * rng.randint(0, 10 ** 5)}


TBV_KINDS = ['elem', 'rows', 'cols', 'mat', 'cols_surplus', 'mat_surplus']   # value shapes at the generator
TBV_DTYPES = ['i', 'f', 's', 'b']


def _tb_case(spec, rk, ck, vk, vd, val, r=0):
    return {'k': 'tb_assign', 'spec': spec, 'route': 'iloc', 'rk': rk, 'ck': ck, 'vk': vk, 'vd': vd, 'val': val, 'r': r}


def _fixed_spec(dts, layout, n):
    cols = []
    for j, dt in enumerate(dts):
        if dt == 'int64':
            v = [f'i:{10 * j + i}' for i in range(n)]
        elif dt == 'float64':
            v = [tok(10.0 * j + i + 0.5) for i in range(n)]
        elif dt == 'bool':
            v = [f'b:{(i + j) % 2}' for i in range(n)]
        else:
            v = [tok(f'c{j}r{i}') for i in range(n)]
        cols.append({'dt': dt, 'v': v})
    return {'index': {'kind': 'auto', 'labels': [f'i:{i}' for i in range(n)]},
            'columns': {'kind': 'auto', 'labels': [f'i:{j}' for j in range(len(dts))]}, 'cols': cols,
            'layout': [list(b) for b in layout], 'rows': n}


def _tbassign_fixed():
    """hand-picked shapes: the middle column of a 3-wide block, an empty TypeBlocks, the counterexample of
    Props/C08 (unordered key: the second key column is never assigned), a descending run inside a block"""
    s3 = _fixed_spec(['int64', 'float64', 'float64', 'float64'], [[1, False], [3, True]], 2)
    yield _tb_case(s3, ['list', 1], ['int', 2], 'elem', 'i', 'i:99')
    yield _tb_case(s3, ['all'], ['mask', 1, 0, 1, 0], 'mat', 'i', 'i:0')
    yield _tb_case(s3, ['sl', None, None, 1], ['sl', 1, 3, None], 'cols', 'f', 'i:0')
    yield _tb_case(s3, ['sl', None, None, 1], ['int', 2], 'rows', 'f', 'i:0')
    e = _fixed_spec([], [], 3)
    yield _tb_case(e, ['all'], ['all'], 'elem', 'i', 'i:9')
    s1 = _fixed_spec(['int64', 'int64', 'int64'], [[1, False], [1, False], [1, False]], 2)
    yield _tb_case(s1, ['all'], ['list', 2, 0], 'mat', 'i', 'i:0')
    yield _tb_case(s1, ['all'], ['list', 0, 2], 'mat', 'i', 'i:0')
    s4 = _fixed_spec(['int64', 'int64', 'int64', 'float64'], [[3, True], [1, False]], 3)
    yield _tb_case(s4, ['list', 0, 1], ['list', 2, 1], 'mat', 'i', 'i:0')
    yield _tb_case(s4, ['all'], ['list', 2, 1], 'mat', 'i', 'i:0')
    yield _tb_case(s4, ['all'], ['sl', 2, None, -1], 'elem', 'i', 'i:5')


def _tbv_choices(rk, ck):
    """value shapes the generator accepts for these key kinds (one cell per addressed cell, or surplus columns)"""
    if ck[0] == 'int':
        return ['elem'] if rk[0] == 'int' else ['elem', 'rows']
    if rk[0] == 'int':
        return ['elem', 'cols', 'cols_surplus']
    return ['elem', 'cols', 'mat', 'cols_surplus', 'mat_surplus']


def _tbassign_stream(ctx, rng, count):
    """frames with long same-dtype runs (wide 2-D blocks); ascending column keys of every kind that address a
    strict part of a block, several separated parts of one block, block boundaries; row keys: null slice (both
    spellings), integer, slice, list with repeats / empty, mask; all value shapes"""
    for i in range(count):
        spec = gen.rand_frame_spec(rng, 4, 7, dtypes=rng.choice([['int64', 'float64'], ['int64', 'float64', 'bool', 'str'], gen.DTYPES_BASIC, gen.DTYPES_ALL]),
                                   index_kinds=('auto',), column_kinds=('auto',), min_cols=1, min_rows=0 if rng.random() < 0.1 else 1,
                                   run_bias=0.8, na=0.1)
        n, m = spec['rows'], len(spec['cols'])
        kind = rng.choice(['mask', 'mask', 'list', 'sl', 'int', 'all', 'list'])
        if kind == 'mask':
            ck = ['mask'] + [1 if rng.random() < 0.5 else 0 for _ in range(m)]
        elif kind == 'list':
            ps = sorted(rng.sample(range(m), rng.randint(0, m)))
            if rng.random() < 0.12 and len(ps) >= 2:
                rng.shuffle(ps)          # unordered key: only the correspondence (the property excludes it)
            ck = ['list'] + [p if rng.random() < 0.8 else p - m for p in ps]
        elif kind == 'sl':
            a, b = sorted((rng.randint(0, m), rng.randint(0, m)))
            ck = ['sl', a if rng.random() < 0.8 else None, b if rng.random() < 0.8 else None, rng.choice([None, None, 1, 2, 3])]
        elif kind == 'int':
            ck = ['int', rng.randint(-m, m - 1)]
        else:
            ck = ['all']
        rkind = rng.choice(['all', 'all', 'null', 'int', 'sl', 'list', 'list', 'mask', 'dup', 'empty'])
        if rkind == 'all':
            rk = ['all']
        elif rkind == 'null':
            rk = ['sl', None, None, None]
        elif rkind == 'int' and n > 0:
            rk = ['int', rng.randint(-n, n - 1)]
        elif rkind == 'sl':
            rk = gen.rand_slice(rng, n)
        elif rkind == 'mask':
            rk = ['mask'] + [rng.randint(0, 1) for _ in range(n)]
        elif rkind == 'dup' and n > 0:
            rk = ['list'] + [rng.randint(-n, n - 1) for _ in range(rng.randint(2, 5))]
        elif rkind == 'empty' or n == 0:
            rk = ['list']
        else:
            rk = ['list'] + rng.sample(range(n), rng.randint(1, n))
        vk = rng.choice(_tbv_choices(rk, ck))
        yield _tb_case(spec, rk, ck, vk, rng.choice(TBV_DTYPES), rng.choice(VALUES), rng.randint(0, 10 ** 6))


def _tbassign_exhaustive(ctx):
    """thorough tier: 2 rows, every dtype pattern over {int64, float64} and every layout of <= 3 columns (three
    patterns of 4 columns), every column subset as a mask, every integer, slices, the null slice; 8 row keys;
    the value shapes rotate"""
    import itertools
    n = 2
    rks = [['all'], ['list', 0], ['list', 1, 0], ['int', 1], ['mask', 0, 1], ['sl', None, None, None], ['list', 1, 1, 0], ['list']]
    k = 0
    for m in (1, 2, 3, 4):
        pats = list(itertools.product(['int64', 'float64'], repeat=m)) if m <= 3 else [
            ('int64',) * 4, ('int64', 'int64', 'float64', 'float64'), ('float64', 'int64', 'int64', 'int64')]
        for dts in pats:
            for layout in gen.layouts_for(list(dts)):
                spec = _fixed_spec(list(dts), layout, n)
                cks = [['mask'] + list(bits) for bits in itertools.product([0, 1], repeat=m)]
                cks += [['int', j] for j in range(m)] + [['all'], ['sl', 1, None, None], ['sl', None, None, 2], ['sl', 0, m - 1, None]]
                for ck in cks:
                    for rk in rks:
                        ch = _tbv_choices(rk, ck)
                        for t in range(2):
                            k += 1
                            yield _tb_case(spec, rk, ck, ch[(k + t) % len(ch)], TBV_DTYPES[k % 2], VALUES[k % len(VALUES)], k)


def model_lines(c):
    if c['k'] in (c08_blocks.KIND, c08_blocks.KIND_MATCH):
        return c08_blocks.model_lines(c)
    spec = c['spec']
    lines = [f'key.positions {gen.key_to_wire(c["rk"])} {spec["rows"]}',
             f'key.positions {gen.key_to_wire(c["ck"])} {len(spec["cols"])}']
    plan = _tb_plan(c)
    c['_tb'] = plan
    if plan is not None:
        lines.append(plan['line'])
    return lines


# ------------------------------------------------------------------ the assignment generator next to its model
def _tb_blocks(spec):
    import static_frame as sf
    if not spec['cols']:
        return sf.TypeBlocks.from_zero_size_shape((spec['rows'], 0))
    return sf.TypeBlocks.from_blocks(gen.build_blocks(spec))


def _tb_value(vk, vd, nr, nc, val_t):
    """the assigned value: (python value, per-column token lists or None, kind for the model)"""
    if vk == 'elem':
        return untok(val_t), None, 'elem'
    dt = {'i': np.int64, 'f': np.float64, 's': '<U6', 'b': bool}[vd]

    def cell(i, j):
        return {'i': 1000 + 10 * i + j, 'f': 1000.5 + 10 * i + j, 's': f'v{i}_{j}', 'b': (i + j) % 2 == 0}[vd]
    if vk == 'rows':
        arr = np.array([cell(i, 0) for i in range(nr)], dtype=dt)
        return arr, None, 'col'
    width = nc + (1 if vk.endswith('_surplus') else 0)
    if vk.startswith('cols'):
        arr = np.array([cell(0, j) for j in range(width)], dtype=dt)
        return arr, None, 'col'
    arr = np.array([[cell(i, j) for j in range(width)] for i in range(nr)], dtype=dt).reshape(nr, width)
    return arr, None, 'mat'


def _tb_plan(c):
    """driver line + everything `evaluate` needs for the generator correspondence of this case (or None)"""
    iface = c['k']
    if iface not in ('assign_elem', 'assign_array', 'tb_assign'):
        return None
    spec = c['spec']
    n, m = spec['rows'], len(spec['cols'])
    rpos, cpos = ref_positions(c['rk'], n), ref_positions(c['ck'], m)
    if isinstance(cpos, tuple) or isinstance(rpos, tuple):
        return None
    if iface == 'assign_elem':
        vk, vd = 'elem', 'i'
    elif iface == 'assign_array':
        ch = [x for x in _tbv_choices(c['rk'], c['ck']) if x != 'elem']
        if not ch:
            return None
        vk, vd = ch[c['r'] % len(ch)], TBV_DTYPES[(c['r'] // 7) % len(TBV_DTYPES)]
    else:
        vk, vd = c['vk'], c['vd']
    from static_frame.core.util import dtype_from_element, resolve_dtype
    tb = _tb_blocks(spec)
    it = Interner()
    w = tb_wire_from_blocks(tb._blocks, n, it)
    value, _, mk = _tb_value(vk, vd, len(rpos), len(cpos), c['val'])
    vdt = dtype_from_element(value)
    vt = dtype_tok(vdt)
    if mk == 'elem':
        vw = f'(elem {vt} {it.atom(tok(value))})'
    elif mk == 'col':
        vw = f'(col {vt} ' + ' '.join(it.atom(t) for t in array_toks(value)) + ')'
    else:
        vw = f'(mat {vt} ' + ' '.join('(' + ' '.join(it.atom(t) for t in array_toks(value[:, j])) + ')' for j in range(value.shape[1])) + ')'
    table = {}
    for b in tb._blocks:
        bt = dtype_tok(b.dtype)
        table[(vt, bt)] = dtype_tok(resolve_dtype(vdt, b.dtype))
        table[(bt, vt)] = dtype_tok(resolve_dtype(b.dtype, vdt))
    tab = ' '.join(f'({a} {b} {r})' for (a, b), r in sorted(table.items()))
    line = f'tb.assign {w} {gen.key_to_wire(c["rk"])} {gen.key_to_wire(c["ck"])} {vw} ({tab})'
    return {'line': line, 'it': it, 'vk': vk, 'vd': vd, 'mk': mk, 'rpos': rpos, 'cpos': cpos}


def _tb_reference(tb_view, plan, value):
    """Lean-independent reference for an ascending, duplicate-free column key: the original columns with exactly the
    addressed cells replaced (rows in key order, a repeated row keeps the last value); None for unaddressed dtypes"""
    rpos, cpos, mk, vk = plan['rpos'], plan['cpos'], plan['mk'], plan['vk']
    exp = [list(col) for col in tb_view['cols']]
    for cj, j in enumerate(cpos):
        for ri, i in enumerate(rpos):
            if mk == 'elem':
                t = tok(value)
            elif mk == 'col':
                t = array_toks(value)[ri if vk == 'rows' else cj]
            else:
                t = array_toks(value[:, cj])[ri]
            exp[j][i] = t
    return exp


def eval_tb_assign(ctx, c, out, plan):
    """real `_assign_from_iloc_by_unit` (wrapped in from_blocks) vs the model's answer, and vs the reference"""
    import static_frame as sf
    import warnings
    fails = []
    spec = c['spec']
    it = plan['it']
    rpos, cpos = plan['rpos'], plan['cpos']
    tb = _tb_blocks(spec)
    before = real_tb_view(tb)
    value, _, _ = _tb_value(plan['vk'], plan['vd'], len(rpos), len(cpos), c['val'])
    prk, pck = gen.key_to_py(c['rk']), gen.key_to_py(c['ck'])
    ascending = all(a < b for a, b in zip(cpos, cpos[1:]))
    ctx.count('tbassign_cases')
    ctx.count(f'tbassign_val_{plan["vk"]}')
    ctx.count(f'tbassign_ck_{c["ck"][0]}' + ('' if ascending else '_unordered'))
    ctx.count(f'tbassign_rk_{c["rk"][0]}')
    if c['rk'] in (['all'], ['sl', None, None, None]):
        ctx.count('tbassign_null_row_key')
    # does the key address a strict, non-empty part of a 2-D block (the block must be split)?
    j0 = 0
    for wdt, is2d in before['layout']:
        inside = [j for j in cpos if j0 <= j < j0 + wdt]
        if wdt > 1 and 0 < len(set(inside)) < wdt:
            ctx.count('tbassign_block_split')
            if all(j0 < j < j0 + wdt - 1 for j in inside):
                ctx.count('tbassign_block_split_middle_only')
            break
        j0 += wdt
    with warnings.catch_warnings():
        warnings.simplefilter('ignore')
        try:
            real = real_tb_view(sf.TypeBlocks.from_blocks(tb._assign_from_iloc_by_unit(prk, pck, value)))
        except Exception as ex:
            real = ('err', err_cat(ex), f'{type(ex).__name__}: {str(ex)[:100]}')
    if real_tb_view(tb) != before:
        fails.append(Failure('oracle', 'TypeBlocks._assign_from_iloc_by_unit: the original TypeBlocks changed', c))
    mod = answer_tb(out, it)
    what = f'TypeBlocks._assign_from_iloc_by_unit rk={c["rk"]} ck={c["ck"]} value={plan["vk"]}/{plan["vd"]} layout={spec["layout"]}'
    # --- correspondence
    if isinstance(real, tuple) or isinstance(mod, tuple):
        ctx.count('tbassign_error_cases')
        if not (isinstance(real, tuple) and isinstance(mod, tuple) and real[1] == mod[1]):
            fails.append(Failure('corr', f'{what}: model {out[:120]} vs real {str(real)[:160]}', c))
    else:
        diff = None
        if mod['rows'] != real['rows']:
            diff = f'rows {mod["rows"]} vs {real["rows"]}'
        elif mod['layout'] != real['layout']:
            diff = f'layout {mod["layout"]} vs {real["layout"]}'
        elif mod['dtypes'] != real['dtypes']:
            diff = f'dtypes {mod["dtypes"]} vs {real["dtypes"]}'
        else:
            addressed = set(cpos) if ascending else set(range(len(real['cols'])))
            for j, (cm, cr) in enumerate(zip(mod['cols'], real['cols'])):
                ok = (len(cm) == len(cr) and all(same_value(g, w) for g, w in zip(cr, cm))) if j in addressed else cm == cr
                if not ok:
                    diff = f'column {j}: model {cm} vs real {cr}'
                    break
        if diff:
            fails.append(Failure('corr', f'{what}: {diff}', c))
        else:
            ctx.count('tbassign_corr_agree')
    # --- oracle (the property, for the keys the generator supports: ascending column positions)
    if ascending:
        if isinstance(real, tuple):
            if spec['cols']:
                fails.append(Failure('oracle', f'{what}: raised {real[2]}', c, detail={'exc': real[2]}))
        else:
            exp = _tb_reference(before, plan, value)
            msg = None
            if real['rows'] != before['rows'] or len(real['cols']) != len(before['cols']):
                msg = f'shape ({real["rows"]}, {len(real["cols"])})'
            else:
                for j in range(len(exp)):
                    got, want = real['cols'][j], exp[j]
                    if j in cpos:
                        if not (len(got) == len(want) and all(same_value(g, w) for g, w in zip(got, want))):
                            msg = f'addressed column {j}: {got} != {want}'
                            break
                    elif got != want or real['dtypes'][j] != before['dtypes'][j]:
                        msg = f'unaddressed column {j} changed: {got}/{real["dtypes"][j]} != {want}/{before["dtypes"][j]}'
                        break
            if msg:
                fails.append(Failure('oracle', f'{what}: {msg}', c, detail={'what': msg}))
            else:
                ctx.count('tbassign_oracle_agree')
    return fails


def evaluate(ctx, c, outs):
    import static_frame as sf
    import warnings
    if c['k'] in (c08_blocks.KIND, c08_blocks.KIND_MATCH):
        return c08_blocks.evaluate(ctx, c, outs)
    fails = []
    spec = c['spec']
    n, m = spec['rows'], len(spec['cols'])
    rk, ck = c['rk'], c['ck']
    rpos, cpos = ref_positions(rk, n), ref_positions(ck, m)
    plan = c.pop('_tb', None)
    if outs:
        for key, pos, out in ((rk, rpos, outs[0]), (ck, cpos, outs[1])):
            got = gen.parse_ok_list(out)
            if (isinstance(pos, tuple) != isinstance(got, tuple)) or (not isinstance(pos, tuple) and got != pos):
                fails.append(Failure('corr', f'Key.positions {key}: model {out} vs reference {pos}', c))
    if isinstance(rpos, tuple) or isinstance(cpos, tuple):
        ctx.count('invalid_key_skipped')
        return fails
    if plan is not None and len(outs) >= 3:
        fails += eval_tb_assign(ctx, c, outs[2], plan)
    if c['k'] == 'tb_assign':
        return fails
    f = gen.build_frame(spec)
    before = frame_snapshot(f)
    ref = Ref(f, spec)
    iface = c['k']
    ctx.count(f'iface_{iface}')
    ctx.count(f'route_{c["route"]}')
    with warnings.catch_warnings():
        warnings.simplefilter('ignore')
        try:
            what = run_iface(ctx, c, f, ref, rpos, cpos)
        except Skip:
            ctx.count('skipped')
            what = None
        except Exception as ex:
            what = f'raised {type(ex).__name__}: {str(ex)[:120]}'
            detail = {'exc': type(ex).__name__}
            fails.append(Failure('oracle', f'{iface} via {c["route"]} rk={rk} ck={ck} val={c["val"]}: {what}', c, detail=detail))
            what = None
    if what:
        fails.append(Failure('oracle', f'{iface} via {c["route"]} rk={rk} ck={ck} val={c["val"]}: {what}', c, detail={'what': what}))
    after = frame_snapshot(f)
    if after != before:
        fails.append(Failure('oracle', f'{iface}: the original container changed', c))
    return fails


class Skip(Exception):
    pass


class Ref:
    """token-level reference copy of a frame"""
    def __init__(self, f, spec):
        self.index = [tok(x) for x in f.index]
        self.columns = [tok(x) for x in f.columns]
        self.cols = [list(array_toks(f._blocks._extract_array(column_key=j))) for j in range(f.shape[1])]
        self.dtypes = [dtype_tok(d) for d in f.dtypes.values]
        self.name = tok(f.name)


def keys_for_route(f, c, rpos, cpos, axis_both=True):
    """python keys for the route; falls back to iloc when a key kind has no label form"""
    route = c['route']
    rk, ck = c['rk'], c['ck']
    if route == 'iloc':
        return 'iloc', gen.key_to_py(rk), gen.key_to_py(ck), rpos, cpos
    lrk, ok1 = label_key(rk, list(f.index), 'r')
    lck, ok2 = label_key(ck, list(f.columns), 'c')
    if route == 'loc' and ok1 and ok2:
        rp = incl_positions(rk, len(f.index)) if rk[0] == 'sl' else rpos
        cp = incl_positions(ck, len(f.columns)) if ck[0] == 'sl' else cpos
        return 'loc', lrk, lck, rp, cp
    if route == 'getitem' and ok2:
        cp = incl_positions(ck, len(f.columns)) if ck[0] == 'sl' else cpos
        return 'getitem', None, lck, list(range(len(f.index))), cp
    return 'iloc', gen.key_to_py(rk), gen.key_to_py(ck), rpos, cpos


def same_value(got, want):
    """result cell token vs supplied value token: equal value and same type class"""
    if got == want:
        return True
    return cell_equal(got, want) and not ({got[:2], want[:2]} & {'b:'} and got[:2] != want[:2])


def compare_frame(res, ref, exp_cols, exp_dtypes=None, exp_index=None, exp_columns=None, dtype_cols=None, exp_name=None):
    """res: real Frame; exp_cols: expected tokens per column. dtype_cols: positions whose dtype must equal ref dtype."""
    import static_frame as sf
    if not isinstance(res, sf.Frame):
        return f'expected a Frame, got {type(res).__name__}'
    exp_index = ref.index if exp_index is None else exp_index
    exp_columns = ref.columns if exp_columns is None else exp_columns
    if [tok(x) for x in res.index] != exp_index:
        return f'index {[tok(x) for x in res.index]} != {exp_index}'
    if [tok(x) for x in res.columns] != exp_columns:
        return f'columns {[tok(x) for x in res.columns]} != {exp_columns}'
    if res.shape != (len(exp_index), len(exp_columns)):
        return f'shape {res.shape}'
    if tok(res.name) != (ref.name if exp_name is None else exp_name):
        return f'name {tok(res.name)}'
    for j in range(len(exp_columns)):
        got = array_toks(res._blocks._extract_array(column_key=j))
        want = exp_cols[j]
        if len(got) != len(want) or not all(same_value(g, w) for g, w in zip(got, want)):
            return f'column {j} values {got} != {want}'
    if exp_dtypes is not None:
        gd = [dtype_tok(d) for d in res.dtypes.values]
        for j, d in enumerate(exp_dtypes):
            if d is not None and gd[j] != d:
                return f'column {j} dtype {gd[j]} != {d} (an unaddressed column must keep its dtype)'
    return None


def run_iface(ctx, c, f, ref, rpos, cpos):
    import static_frame as sf
    iface = c['k']
    n, m = len(ref.index), len(ref.columns)
    val_t = c['val']
    val = untok(val_t)
    rng_r = c['r']
    if iface in ('assign_elem', 'assign_array', 'assign_series', 'assign_frame', 'assign_apply'):
        route, prk, pck, rp, cp = keys_for_route(f, c, rpos, cpos)
        sel = getattr(f.assign, route) if route != 'getitem' else f.assign
        key = (prk, pck) if route != 'getitem' else pck
        exp = [list(col) for col in ref.cols]
        int_r, int_c = c['rk'][0] == 'int' and route != 'getitem', c['ck'][0] == 'int'
        if iface == 'assign_elem':
            res = sel[key](val)
            for j in cp:
                for i in rp:
                    exp[j][i] = val_t
        elif iface == 'assign_apply':
            res = sel[key].apply(lambda x: x if not isinstance(x, (sf.Frame, sf.Series)) else x)
            # identity function: nothing changes
        elif iface == 'assign_array':
            # ascending, duplicate free column positions only (see ASSUMPTIONS); values 1000 + 10*i + j
            if cp != sorted(cp) or rp != sorted(rp):
                raise Skip()
            if int_r and int_c:
                raise Skip()
            if int_r:      # one row: 1-D array across the columns
                arr = np.array([1000 + j for j in range(len(cp))])
                for jj, j in enumerate(cp):
                    exp[j][rp[0]] = f'i:{1000 + jj}'
            elif int_c:    # one column: 1-D array down the rows
                arr = np.array([1000 + i for i in range(len(rp))])
                for ii, i in enumerate(rp):
                    exp[cp[0]][i] = f'i:{1000 + ii}'
            else:
                arr = np.array([[1000 + 10 * i + j for j in range(len(cp))] for i in range(len(rp))]).reshape(len(rp), len(cp))
                for jj, j in enumerate(cp):
                    for ii, i in enumerate(rp):
                        exp[j][i] = f'i:{1000 + 10 * ii + jj}'
            res = sel[key](arr)
        elif iface == 'assign_series':
            # labelled value aligned by label; labels partially overlapping and reordered; missing -> fill
            if int_r and int_c:
                raise Skip()
            fill = -1
            if int_r or not int_c and False:
                labels = [untok(ref.columns[j]) for j in cp][::-1]
                labels = labels[:max(0, len(labels) - (rng_r % 2))]
                s = sf.Series([2000 + k for k in range(len(labels))], index=labels) if labels else sf.Series((), index=(), dtype=int)
                look = {tok(l): f'i:{2000 + k}' for k, l in enumerate(labels)}
                for j in cp:
                    exp[j][rp[0]] = look.get(ref.columns[j], f'i:{fill}')
            elif int_c:
                labels = [untok(ref.index[i]) for i in rp][::-1]
                labels = labels[:max(0, len(labels) - (rng_r % 2))]
                s = sf.Series([2000 + k for k in range(len(labels))], index=labels) if labels else sf.Series((), index=(), dtype=int)
                look = {tok(l): f'i:{2000 + k}' for k, l in enumerate(labels)}
                for i in rp:
                    exp[cp[0]][i] = look.get(ref.index[i], f'i:{fill}')
            else:
                raise Skip()
            res = sel[key](s, fill_value=fill)
        elif iface == 'assign_frame':
            if int_r or int_c:
                raise Skip()
            rl = [untok(ref.index[i]) for i in rp][::-1]
            cl = [untok(ref.columns[j]) for j in cp][::-1]
            rl = rl[:max(0, len(rl) - (rng_r % 2))]
            if not rl or not cl:
                raise Skip()
            if rng_r % 3 == 0:
                vf = sf.Frame(np.array([[3000 + 10 * a + b for b in range(len(cl))] for a in range(len(rl))]).reshape(len(rl), len(cl)), index=rl, columns=cl)
                look = {(tok(r), tok(cc)): f'i:{3000 + 10 * a + b}' for a, r in enumerate(rl) for b, cc in enumerate(cl)}
            else:
                # one block per value column, dtypes differing from column to column (int, float with a fraction,
                # short and long text): the target sub-block must be resolved against EVERY value block
                kinds = [(rng_r // 3 + b) % 4 for b in range(len(cl))]

                def cellv(a, b):
                    k = kinds[b]
                    return [3000 + 10 * a + b, 0.5 + a + 10 * b, 'ab', 'longer-text-%d' % a][k]
                vf = sf.Frame.from_items(((cc, [cellv(a, b) for a in range(len(rl))]) for b, cc in enumerate(cl)), index=rl)
                look = {(tok(r), tok(cc)): tok(cellv(a, b)) for a, r in enumerate(rl) for b, cc in enumerate(cl)}
            for j in cp:
                for i in rp:
                    exp[j][i] = look.get((ref.index[i], ref.columns[j]), 'i:-1')
            res = sel[key](vf, fill_value=-1)
        dts = [None if j in cp else ref.dtypes[j] for j in range(m)]
        return compare_frame(res, ref, exp, exp_dtypes=dts)
    if iface == 'assign_bloc':
        bits = rng_r
        mask = [[(bits >> ((i * m + j) % 20)) & 1 for j in range(m)] for i in range(n)]
        key = sf.Frame(np.array(mask, dtype=bool).reshape(n, m), index=f.index, columns=f.columns)
        if (rng_r // 7) % 3 == 0 or n == 0 or m == 0:
            res = f.assign.bloc[key](val)
            exp = [[val_t if mask[i][j] else ref.cols[j][i] for i in range(n)] for j in range(m)]
            return compare_frame(res, ref, exp)
        if (rng_r // 7) % 3 == 2:
            # the coordinate form: a Series labelled by (row label, column label), given or produced by apply
            ctx.count('assign_bloc_coordinate_value')
            rl_, cl_ = list(f.index), list(f.columns)
            code = lambda lab: 1000 + 10 * rl_.index(lab[0]) + cl_.index(lab[1])
            if (rng_r // 21) % 2:
                res = f.assign.bloc[key].apply(lambda s_: sf.Series([code(l) for l in s_.index], index=s_.index))
            else:
                sel = f.bloc[key]
                res = f.assign.bloc[key](sf.Series([code(l) for l in sel.index], index=sel.index))
            exp = [[tok(np.int64(code((rl_[i], cl_[j])))) if mask[i][j] else ref.cols[j][i] for i in range(n)] for j in range(m)]
            return compare_frame(res, ref, exp, dtype_cols=[])
        # a Frame value, aligned by label: one 1-D block per column, labels permuted, so that the value arrives in narrower
        # pieces than the blocks of the target; cells not addressed by the key keep their value
        ctx.count('assign_bloc_frame_value')
        rl, cl = list(f.index), list(f.columns)
        rperm = rl[::-1] if (rng_r // 21) % 2 else rl
        cperm = cl[1:] + cl[:1] if (rng_r // 42) % 2 else cl
        cell = lambda r_, c_: 1000 + 10 * rl.index(r_) + cl.index(c_)
        vf = sf.Frame.from_items(((c_, np.array([cell(r_, c_) for r_ in rperm], dtype=np.int64)) for c_ in cperm), index=rperm)
        res = f.assign.bloc[key](vf)
        exp = [[tok(np.int64(cell(rl[i], cl[j]))) if mask[i][j] else ref.cols[j][i] for i in range(n)] for j in range(m)]
        what = compare_frame(res, ref, exp, dtype_cols=[])
        return what
    if iface == 'drop':
        route, prk, pck, rp, cp = keys_for_route(f, c, rpos, cpos)
        which = rng_r % 3
        if route == 'getitem':
            res = f.drop[pck]
            rp = []
        elif which == 0:
            res = getattr(f.drop, route)[prk, pck]
        elif which == 1:
            res = getattr(f.drop, route)[prk]
            cp = []
        else:
            nul = slice(0, 0) if route == 'iloc' else []
            res = getattr(f.drop, route)[nul, pck]
            rp = []
        keep_r = [i for i in range(n) if i not in set(rp)]
        keep_c = [j for j in range(m) if j not in set(cp)]
        exp = [[ref.cols[j][i] for i in keep_r] for j in keep_c]
        return compare_frame(res, ref, exp, exp_dtypes=[ref.dtypes[j] for j in keep_c],
                             exp_index=[ref.index[i] for i in keep_r], exp_columns=[ref.columns[j] for j in keep_c])
    if iface == 'mask':  # NOTE: mask documents that the name is not propagated; names are not compared for it
        route, prk, pck, rp, cp = keys_for_route(f, c, rpos, cpos)
        res = getattr(f.mask, route)[prk, pck] if route != 'getitem' else f.mask[pck]
        exp = [[('b:1' if (i in rp and j in cp) else 'b:0') for i in range(n)] for j in range(m)]
        return compare_frame(res, ref, exp, exp_dtypes=['b1'] * m, exp_name=tok(res.name))
    if iface == 'astype':
        route, prk, pck, rp, cp = keys_for_route(f, c, rpos, cpos)
        target = ['object', 'float64', 'str', 'same', 'same'][rng_r % 5]
        if target == 'same':
            # a dtype some column already has: blocks of that dtype are skipped, later targets must still be applied
            target = str(f.dtypes.values[(rng_r // 5) % m])
        if route == 'iloc':
            route, pck = 'getitem', label_key(c['ck'], list(f.columns), 'c')[0]
            if pck is None:
                raise Skip()
            cp = incl_positions(c['ck'], m) if c['ck'][0] == 'sl' else cpos
        if route == 'loc':
            route = 'getitem'
        try:
            expected_cols = []
            for j in range(m):
                arr = f._blocks._extract_array(column_key=j)
                expected_cols.append(array_toks(arr.astype(target)) if j in cp else ref.cols[j])
        except Exception:
            raise Skip()
        if (rng_r // 11) % 3 == 0 and len(set(tok(x) for x in f.columns)) == m:
            # the mapping form, with dtype OBJECTS as values: only the named labels are retyped
            ctx.count('astype_mapping_form')
            res = f.astype({list(f.columns)[j]: np.dtype(target) for j in cp})
        else:
            res = f.astype[pck](target)
        dts = [None if j in cp else ref.dtypes[j] for j in range(m)]
        what = compare_frame(res, ref, expected_cols, exp_dtypes=dts)
        if what is None and target not in ('str',) and not target.startswith(('<U', '|S', 'datetime', 'timedelta', '<M', '<m')):
            gd = [dtype_tok(d) for d in res.dtypes.values]
            for j in cp:
                if gd[j] != dtype_tok(np.dtype(target)):
                    return f'astype: addressed column {j} has dtype {gd[j]}'
        return what
    if iface == 'relabel':
        mode = rng_r % 3
        if mode == 0:
            res = f.relabel(index=lambda x: (x, 'r'), columns=lambda x: (x, 'c'))
            ei, ec = [tok((untok(t), 'r')) for t in ref.index], [tok((untok(t), 'c')) for t in ref.columns]
        elif mode == 1:
            if n == 0:
                raise Skip()
            first = untok(ref.index[0])
            res = f.relabel(index={first: '__first__'})
            ei, ec = [tok('__first__')] + ref.index[1:], ref.columns
        else:
            res = f.relabel(columns=[f'c{j}' for j in range(m)])
            ei, ec = ref.index, [tok(f'c{j}') for j in range(m)]
        return compare_frame(res, ref, ref.cols, exp_dtypes=ref.dtypes, exp_index=ei, exp_columns=ec)
    if iface == 'rename':
        res = f.rename('nn')
        return compare_frame(res, ref, ref.cols, exp_dtypes=ref.dtypes, exp_name=tok('nn'))
    if iface == 'insert':
        if m == 0 or n == 0:
            raise Skip()  # a container with an empty index is documented to be ignored by _insert
        j = rng_r % m
        lab = untok(ref.columns[j])
        ser = sf.Series([4000 + i for i in range(n)], index=f.index, name='__ins__')
        before_ = (rng_r // 7) % 2 == 0
        if (rng_r // 14) % 3 == 0:
            lab = sf.ILoc[j - m]            # the same column counted from the end
            ctx.count('insert_negative_position')
        res = f.insert_before(lab, ser) if before_ else f.insert_after(lab, ser)
        at = j if before_ else j + 1
        cols = ref.cols[:at] + [[f'i:{4000 + i}' for i in range(n)]] + ref.cols[at:]
        labs = ref.columns[:at] + [tok('__ins__')] + ref.columns[at:]
        dts = ref.dtypes[:at] + [None] + ref.dtypes[at:]
        return compare_frame(res, ref, cols, exp_dtypes=dts, exp_columns=labs)
    if iface.startswith('s_'):
        if m == 0:
            raise Skip()
        j = rng_r % m
        s = f.iloc[:, j]
        sb = series_snapshot(s)
        col = ref.cols[j]
        route = 'iloc' if c['route'] == 'getitem' else c['route']
        prk = gen.key_to_py(c['rk'])
        rp = rpos
        if route == 'loc':
            lrk, ok = label_key(c['rk'], list(f.index), 'r')
            if ok:
                prk = lrk
                rp = incl_positions(c['rk'], n) if c['rk'][0] == 'sl' else rpos
            else:
                route = 'iloc'
        what = None
        if iface == 's_assign':
            res = getattr(s.assign, route)[prk](val)
            exp = [val_t if i in rp else col[i] for i in range(n)]
            what = cmp_series(res, ref.index, exp, tok(s.name))
        elif iface == 's_drop':
            res = getattr(s.drop, route)[prk]
            keep = [i for i in range(n) if i not in set(rp)]
            what = cmp_series(res, [ref.index[i] for i in keep], [col[i] for i in keep], tok(s.name), dtype=dtype_tok(s.dtype))
        elif iface == 's_mask':
            res = getattr(s.mask, route)[prk]
            what = cmp_series(res, ref.index, ['b:1' if i in rp else 'b:0' for i in range(n)], tok(res.name), dtype='b1')
        elif iface == 's_insert':
            if n == 0:
                raise Skip()
            # a Series of ANOTHER kind of values goes in before / after a label (or a position counted from the end): every value,
            # old and new, must read back as it was (no text / number / Boolean is turned into another)
            pools = [[41, 42, 43], ['p', 'qq', 'r'], [True, False, True], [1.5, 2.5, -0.5]]
            vals = pools[(rng_r // 5) % 4][: 1 + (rng_r // 20) % 3]
            ins = sf.Series(vals, index=[f'__n{i}__' for i in range(len(vals))])
            p = (rng_r // 60) % n
            lab = untok(ref.index[p]) if (rng_r // 3) % 2 else sf.ILoc[p - n]
            before_ = (rng_r // 7) % 2 == 0
            res = s.insert_before(lab, ins) if before_ else s.insert_after(lab, ins)
            at = p if before_ else p + 1
            exp_i = ref.index[:at] + [tok(x) for x in ins.index] + ref.index[at:]
            exp_v = col[:at] + [tok(v) for v in vals] + col[at:]
            ctx.count('series_insert')
            what = cmp_series(res, exp_i, exp_v, tok(s.name))
        elif iface == 's_relabel':
            res = s.relabel(lambda x: (x, 1)).rename('zz')
            what = cmp_series(res, [tok((untok(t), 1)) for t in ref.index], col, tok('zz'), dtype=dtype_tok(s.dtype))
        if series_snapshot(s) != sb:
            return 'the original Series changed'
        return what
    raise AssertionError(iface)


def cmp_series(res, exp_index, exp_vals, exp_name, dtype=None):
    import static_frame as sf
    if not isinstance(res, sf.Series):
        return f'expected a Series, got {type(res).__name__}'
    gi = [tok(x) for x in res.index]
    if gi != exp_index:
        return f'series index {gi} != {exp_index}'
    gv = array_toks(res.values)
    if len(gv) != len(exp_vals) or not all(same_value(g, w) for g, w in zip(gv, exp_vals)):
        return f'series values {gv} != {exp_vals}'
    if tok(res.name) != exp_name:
        return f'series name {tok(res.name)} != {exp_name}'
    if dtype is not None and dtype_tok(res.dtype) != dtype:
        return f'series dtype {dtype_tok(res.dtype)} != {dtype}'
    return None


def classify(f):
    return None


def search(ctx):
    rng = ctx.rng('search')
    for i in range(40000):
        spec = gen.rand_frame_spec(rng, 4, 5, dtypes=gen.DTYPES_BASIC, index_kinds=('auto', 'int', 'str'), column_kinds=('auto', 'int', 'str'), min_cols=1)
        n, m = spec['rows'], len(spec['cols'])
        yield {'k': rng.choice(INTERFACES), 'spec': spec, 'route': rng.choice(['iloc', 'loc', 'getitem']),
               'rk': gen.rand_key(rng, n, unique_list=True), 'ck': gen.rand_key(rng, m, unique_list=True),
               'val': rng.choice(VALUES), 'r': rng.randint(0, 10 ** 6)}
