"""C08 - functional update interfaces change only what they address.

Oracle: a list-of-token reference copy of the Frame/Series with exactly the addressed cells replaced
(assign), removed (drop), marked (mask), retyped (astype) ...; the original container is
snapshotted before and after every call.  TypeBlocks-level model correspondence (drop / ufunc /
astype generators) is part of C03's `tb` cases; here the model supplies `Key.positions` and the
ascending-slice function, and the theorems of Props/C08 are audited.
"""
from __future__ import annotations

import numpy as np

from check import Failure
from sfv import gen
from sfv.canon import tok, untok, err_cat, dtype_tok, array_toks, frame_snapshot, series_snapshot
from sfv.props.c04 import ref_positions, label_key, incl_positions, cell_equal

TARGETS = ['SFModel.Props.C08', 'SFModel.Props.C04Asc', 'SFModel.Bridge']
THEOREMS = []  # filled from tools/meta at import (see below)
PARTIAL = []
CORR_ONLY = ['Frame/Series assign (element, array, Series, Frame values; iloc/loc/getitem/bloc), mask, relabel, rename, insert_before/after: reference-model oracle',
             'TypeBlocks drop/astype/ufunc generators: model correspondence in the C03 tb cases']
RULE = ('random frames/series x layout x interface (assign/drop/mask/astype/relabel/rename/insert) x route (iloc/loc/getitem/bloc) x '
        'selector kinds x value shapes; non-trivial = non-empty container and a key that is not the null slice on both axes; '
        'distinct = distinct canonical case JSON')
TRUSTED = ['NumPy astype value conversion (reference uses the same conversion on a single column)']
ASSUMPTIONS = ['unlabelled 2-D array values are generated only with ascending column keys (assignment order for non-ascending keys is documented as key-order independent, finding F14)']
BUDGET = {'quick': 200, 'thorough': 1700}

import json, os
_meta = os.path.join(os.path.dirname(os.path.dirname(os.path.dirname(os.path.dirname(os.path.abspath(__file__))))), 'tools', 'meta', 'C08.json')
if os.path.exists(_meta):
    THEOREMS = json.load(open(_meta)).get('theorems', [])
    PARTIAL = json.load(open(_meta)).get('partial', [])

INTERFACES = ['assign_elem', 'assign_array', 'assign_series', 'assign_frame', 'assign_bloc', 'assign_apply',
              'drop', 'mask', 'astype', 'relabel', 'rename', 'insert', 's_assign', 's_drop', 's_mask', 's_relabel']
VALUES = ['i:7', 'f:1.5', 's:"zz"', 'b:1', 'N', 'i:-3', 's:"abcdefgh"']


def nontrivial(c):
    s = c['spec']
    return s['rows'] > 0 and len(s['cols']) > 0 and not (c.get('rk', ['x'])[0] == 'all' and c.get('ck', ['x'])[0] == 'all')


def cases(ctx):
    rng = ctx.rng('main')
    quick = ctx.tier == 'quick'
    for i in range(3200 if quick else 48000):
        spec = gen.rand_frame_spec(rng, 4, 6, dtypes=rng.choice([gen.DTYPES_BASIC, gen.DTYPES_BASIC, ['int64', 'float64'], gen.DTYPES_ALL]),
                                   index_kinds=('auto', 'int', 'str'), column_kinds=('auto', 'int', 'str'), min_cols=1, run_bias=0.6)
        n, m = spec['rows'], len(spec['cols'])
        iface = INTERFACES[i % len(INTERFACES)] if quick else rng.choice(INTERFACES)
        route = rng.choice(['iloc', 'loc', 'getitem'])
        rk = gen.rand_key(rng, n, unique_list=True)
        ck = gen.rand_key(rng, m, unique_list=True)
        yield {'k': iface, 'spec': spec, 'route': route, 'rk': rk, 'ck': ck, 'val': rng.choice(VALUES), 'r': rng.randint(0, 10 ** 6)}
    yield from _astype_stream(ctx, rng, 500 if quick else 6000)


def _astype_stream(ctx, rng, count):
    """frames with long same-dtype runs (2-D blocks) and keys addressing several columns of a block plus later
    ones, retyped to a dtype a block already has: the skip branch of _astype_blocks with further targets"""
    for i in range(count):
        spec = gen.rand_frame_spec(rng, 3, 7, dtypes=['int64', 'float64', 'bool'], index_kinds=('auto',), column_kinds=('str', 'auto'),
                                   min_cols=4, min_rows=1, run_bias=0.75, na=0.0)
        m = len(spec['cols'])
        ck = ['mask'] + [1 if rng.random() < 0.6 else 0 for _ in range(m)]
        if rng.random() < 0.3:
            ps = [j for j in range(m) if ck[1 + j]]
            rng.shuffle(ps)
            ck = ['list'] + ps
        yield {'k': 'astype', 'spec': spec, 'route': 'getitem', 'rk': ['all'], 'ck': ck, 'val': 'i:7', 'r': 3 + 5 * rng.randint(0, 10 ** 5)}


def model_lines(c):
    spec = c['spec']
    return [f'key.positions {gen.key_to_wire(c["rk"])} {spec["rows"]}',
            f'key.positions {gen.key_to_wire(c["ck"])} {len(spec["cols"])}']


def evaluate(ctx, c, outs):
    import static_frame as sf
    import warnings
    fails = []
    spec = c['spec']
    n, m = spec['rows'], len(spec['cols'])
    rk, ck = c['rk'], c['ck']
    rpos, cpos = ref_positions(rk, n), ref_positions(ck, m)
    if outs:
        for key, pos, out in ((rk, rpos, outs[0]), (ck, cpos, outs[1])):
            got = gen.parse_ok_list(out)
            if (isinstance(pos, tuple) != isinstance(got, tuple)) or (not isinstance(pos, tuple) and got != pos):
                fails.append(Failure('corr', f'Key.positions {key}: model {out} vs reference {pos}', c))
    if isinstance(rpos, tuple) or isinstance(cpos, tuple):
        ctx.count('invalid_key_skipped')
        return fails
    f = gen.build_frame(spec)
    before = frame_snapshot(f)
    ref = Ref(f, spec)
    iface = c['k']
    ctx.count(f'iface_{iface}')
    ctx.count(f'route_{c["route"]}')
    with warnings.catch_warnings():
        warnings.simplefilter('ignore')
        try:
            what = run_iface(ctx, c, f, ref, rpos, cpos)
        except Skip:
            ctx.count('skipped')
            what = None
        except Exception as ex:
            what = f'raised {type(ex).__name__}: {str(ex)[:120]}'
            detail = {'exc': type(ex).__name__}
            fails.append(Failure('oracle', f'{iface} via {c["route"]} rk={rk} ck={ck} val={c["val"]}: {what}', c, detail=detail))
            what = None
    if what:
        fails.append(Failure('oracle', f'{iface} via {c["route"]} rk={rk} ck={ck} val={c["val"]}: {what}', c, detail={'what': what}))
    after = frame_snapshot(f)
    if after != before:
        fails.append(Failure('oracle', f'{iface}: the original container changed', c))
    return fails


class Skip(Exception):
    pass


class Ref:
    """token-level reference copy of a frame"""
    def __init__(self, f, spec):
        self.index = [tok(x) for x in f.index]
        self.columns = [tok(x) for x in f.columns]
        self.cols = [list(array_toks(f._blocks._extract_array(column_key=j))) for j in range(f.shape[1])]
        self.dtypes = [dtype_tok(d) for d in f.dtypes.values]
        self.name = tok(f.name)


def keys_for_route(f, c, rpos, cpos, axis_both=True):
    """python keys for the route; falls back to iloc when a key kind has no label form"""
    route = c['route']
    rk, ck = c['rk'], c['ck']
    if route == 'iloc':
        return 'iloc', gen.key_to_py(rk), gen.key_to_py(ck), rpos, cpos
    lrk, ok1 = label_key(rk, list(f.index), 'r')
    lck, ok2 = label_key(ck, list(f.columns), 'c')
    if route == 'loc' and ok1 and ok2:
        rp = incl_positions(rk, len(f.index)) if rk[0] == 'sl' else rpos
        cp = incl_positions(ck, len(f.columns)) if ck[0] == 'sl' else cpos
        return 'loc', lrk, lck, rp, cp
    if route == 'getitem' and ok2:
        cp = incl_positions(ck, len(f.columns)) if ck[0] == 'sl' else cpos
        return 'getitem', None, lck, list(range(len(f.index))), cp
    return 'iloc', gen.key_to_py(rk), gen.key_to_py(ck), rpos, cpos


def same_value(got, want):
    """result cell token vs supplied value token: equal value and same type class"""
    if got == want:
        return True
    return cell_equal(got, want) and not ({got[:2], want[:2]} & {'b:'} and got[:2] != want[:2])


def compare_frame(res, ref, exp_cols, exp_dtypes=None, exp_index=None, exp_columns=None, dtype_cols=None, exp_name=None):
    """res: real Frame; exp_cols: expected tokens per column. dtype_cols: positions whose dtype must equal ref dtype."""
    import static_frame as sf
    if not isinstance(res, sf.Frame):
        return f'expected a Frame, got {type(res).__name__}'
    exp_index = ref.index if exp_index is None else exp_index
    exp_columns = ref.columns if exp_columns is None else exp_columns
    if [tok(x) for x in res.index] != exp_index:
        return f'index {[tok(x) for x in res.index]} != {exp_index}'
    if [tok(x) for x in res.columns] != exp_columns:
        return f'columns {[tok(x) for x in res.columns]} != {exp_columns}'
    if res.shape != (len(exp_index), len(exp_columns)):
        return f'shape {res.shape}'
    if tok(res.name) != (ref.name if exp_name is None else exp_name):
        return f'name {tok(res.name)}'
    for j in range(len(exp_columns)):
        got = array_toks(res._blocks._extract_array(column_key=j))
        want = exp_cols[j]
        if len(got) != len(want) or not all(same_value(g, w) for g, w in zip(got, want)):
            return f'column {j} values {got} != {want}'
    if exp_dtypes is not None:
        gd = [dtype_tok(d) for d in res.dtypes.values]
        for j, d in enumerate(exp_dtypes):
            if d is not None and gd[j] != d:
                return f'column {j} dtype {gd[j]} != {d} (an unaddressed column must keep its dtype)'
    return None


def run_iface(ctx, c, f, ref, rpos, cpos):
    import static_frame as sf
    iface = c['k']
    n, m = len(ref.index), len(ref.columns)
    val_t = c['val']
    val = untok(val_t)
    rng_r = c['r']
    if iface in ('assign_elem', 'assign_array', 'assign_series', 'assign_frame', 'assign_apply'):
        route, prk, pck, rp, cp = keys_for_route(f, c, rpos, cpos)
        sel = getattr(f.assign, route) if route != 'getitem' else f.assign
        key = (prk, pck) if route != 'getitem' else pck
        exp = [list(col) for col in ref.cols]
        int_r, int_c = c['rk'][0] == 'int' and route != 'getitem', c['ck'][0] == 'int'
        if iface == 'assign_elem':
            res = sel[key](val)
            for j in cp:
                for i in rp:
                    exp[j][i] = val_t
        elif iface == 'assign_apply':
            res = sel[key].apply(lambda x: x if not isinstance(x, (sf.Frame, sf.Series)) else x)
            # identity function: nothing changes
        elif iface == 'assign_array':
            # ascending, duplicate free column positions only (see ASSUMPTIONS); values 1000 + 10*i + j
            if cp != sorted(cp) or rp != sorted(rp):
                raise Skip()
            if int_r and int_c:
                raise Skip()
            if int_r:      # one row: 1-D array across the columns
                arr = np.array([1000 + j for j in range(len(cp))])
                for jj, j in enumerate(cp):
                    exp[j][rp[0]] = f'i:{1000 + jj}'
            elif int_c:    # one column: 1-D array down the rows
                arr = np.array([1000 + i for i in range(len(rp))])
                for ii, i in enumerate(rp):
                    exp[cp[0]][i] = f'i:{1000 + ii}'
            else:
                arr = np.array([[1000 + 10 * i + j for j in range(len(cp))] for i in range(len(rp))]).reshape(len(rp), len(cp))
                for jj, j in enumerate(cp):
                    for ii, i in enumerate(rp):
                        exp[j][i] = f'i:{1000 + 10 * ii + jj}'
            res = sel[key](arr)
        elif iface == 'assign_series':
            # labelled value aligned by label; labels partially overlapping and reordered; missing -> fill
            if int_r and int_c:
                raise Skip()
            fill = -1
            if int_r or not int_c and False:
                labels = [untok(ref.columns[j]) for j in cp][::-1]
                labels = labels[:max(0, len(labels) - (rng_r % 2))]
                s = sf.Series([2000 + k for k in range(len(labels))], index=labels) if labels else sf.Series((), index=(), dtype=int)
                look = {tok(l): f'i:{2000 + k}' for k, l in enumerate(labels)}
                for j in cp:
                    exp[j][rp[0]] = look.get(ref.columns[j], f'i:{fill}')
            elif int_c:
                labels = [untok(ref.index[i]) for i in rp][::-1]
                labels = labels[:max(0, len(labels) - (rng_r % 2))]
                s = sf.Series([2000 + k for k in range(len(labels))], index=labels) if labels else sf.Series((), index=(), dtype=int)
                look = {tok(l): f'i:{2000 + k}' for k, l in enumerate(labels)}
                for i in rp:
                    exp[cp[0]][i] = look.get(ref.index[i], f'i:{fill}')
            else:
                raise Skip()
            res = sel[key](s, fill_value=fill)
        elif iface == 'assign_frame':
            if int_r or int_c:
                raise Skip()
            rl = [untok(ref.index[i]) for i in rp][::-1]
            cl = [untok(ref.columns[j]) for j in cp][::-1]
            rl = rl[:max(0, len(rl) - (rng_r % 2))]
            if not rl or not cl:
                raise Skip()
            if rng_r % 3 == 0:
                vf = sf.Frame(np.array([[3000 + 10 * a + b for b in range(len(cl))] for a in range(len(rl))]).reshape(len(rl), len(cl)), index=rl, columns=cl)
                look = {(tok(r), tok(cc)): f'i:{3000 + 10 * a + b}' for a, r in enumerate(rl) for b, cc in enumerate(cl)}
            else:
                # one block per value column, dtypes differing from column to column (int, float with a fraction,
                # short and long text): the target sub-block must be resolved against EVERY value block
                kinds = [(rng_r // 3 + b) % 4 for b in range(len(cl))]

                def cellv(a, b):
                    k = kinds[b]
                    return [3000 + 10 * a + b, 0.5 + a + 10 * b, 'ab', 'longer-text-%d' % a][k]
                vf = sf.Frame.from_items(((cc, [cellv(a, b) for a in range(len(rl))]) for b, cc in enumerate(cl)), index=rl)
                look = {(tok(r), tok(cc)): tok(cellv(a, b)) for a, r in enumerate(rl) for b, cc in enumerate(cl)}
            for j in cp:
                for i in rp:
                    exp[j][i] = look.get((ref.index[i], ref.columns[j]), 'i:-1')
            res = sel[key](vf, fill_value=-1)
        dts = [None if j in cp else ref.dtypes[j] for j in range(m)]
        return compare_frame(res, ref, exp, exp_dtypes=dts)
    if iface == 'assign_bloc':
        bits = rng_r
        mask = [[(bits >> ((i * m + j) % 20)) & 1 for j in range(m)] for i in range(n)]
        key = sf.Frame(np.array(mask, dtype=bool).reshape(n, m), index=f.index, columns=f.columns)
        res = f.assign.bloc[key](val)
        exp = [[val_t if mask[i][j] else ref.cols[j][i] for i in range(n)] for j in range(m)]
        return compare_frame(res, ref, exp)
    if iface == 'drop':
        route, prk, pck, rp, cp = keys_for_route(f, c, rpos, cpos)
        which = rng_r % 3
        if route == 'getitem':
            res = f.drop[pck]
            rp = []
        elif which == 0:
            res = getattr(f.drop, route)[prk, pck]
        elif which == 1:
            res = getattr(f.drop, route)[prk]
            cp = []
        else:
            nul = slice(0, 0) if route == 'iloc' else []
            res = getattr(f.drop, route)[nul, pck]
            rp = []
        keep_r = [i for i in range(n) if i not in set(rp)]
        keep_c = [j for j in range(m) if j not in set(cp)]
        exp = [[ref.cols[j][i] for i in keep_r] for j in keep_c]
        return compare_frame(res, ref, exp, exp_dtypes=[ref.dtypes[j] for j in keep_c],
                             exp_index=[ref.index[i] for i in keep_r], exp_columns=[ref.columns[j] for j in keep_c])
    if iface == 'mask':  # NOTE: mask documents that the name is not propagated; names are not compared for it
        route, prk, pck, rp, cp = keys_for_route(f, c, rpos, cpos)
        res = getattr(f.mask, route)[prk, pck] if route != 'getitem' else f.mask[pck]
        exp = [[('b:1' if (i in rp and j in cp) else 'b:0') for i in range(n)] for j in range(m)]
        return compare_frame(res, ref, exp, exp_dtypes=['b1'] * m, exp_name=tok(res.name))
    if iface == 'astype':
        route, prk, pck, rp, cp = keys_for_route(f, c, rpos, cpos)
        target = ['object', 'float64', 'str', 'same', 'same'][rng_r % 5]
        if target == 'same':
            # a dtype some column already has: blocks of that dtype are skipped, later targets must still be applied
            target = str(f.dtypes.values[(rng_r // 5) % m])
        if route == 'iloc':
            route, pck = 'getitem', label_key(c['ck'], list(f.columns), 'c')[0]
            if pck is None:
                raise Skip()
            cp = incl_positions(c['ck'], m) if c['ck'][0] == 'sl' else cpos
        if route == 'loc':
            route = 'getitem'
        try:
            expected_cols = []
            for j in range(m):
                arr = f._blocks._extract_array(column_key=j)
                expected_cols.append(array_toks(arr.astype(target)) if j in cp else ref.cols[j])
        except Exception:
            raise Skip()
        res = f.astype[pck](target)
        dts = [None if j in cp else ref.dtypes[j] for j in range(m)]
        what = compare_frame(res, ref, expected_cols, exp_dtypes=dts)
        if what is None and target not in ('str',) and not target.startswith(('<U', '|S', 'datetime', 'timedelta', '<M', '<m')):
            gd = [dtype_tok(d) for d in res.dtypes.values]
            for j in cp:
                if gd[j] != dtype_tok(np.dtype(target)):
                    return f'astype: addressed column {j} has dtype {gd[j]}'
        return what
    if iface == 'relabel':
        mode = rng_r % 3
        if mode == 0:
            res = f.relabel(index=lambda x: (x, 'r'), columns=lambda x: (x, 'c'))
            ei, ec = [tok((untok(t), 'r')) for t in ref.index], [tok((untok(t), 'c')) for t in ref.columns]
        elif mode == 1:
            if n == 0:
                raise Skip()
            first = untok(ref.index[0])
            res = f.relabel(index={first: '__first__'})
            ei, ec = [tok('__first__')] + ref.index[1:], ref.columns
        else:
            res = f.relabel(columns=[f'c{j}' for j in range(m)])
            ei, ec = ref.index, [tok(f'c{j}') for j in range(m)]
        return compare_frame(res, ref, ref.cols, exp_dtypes=ref.dtypes, exp_index=ei, exp_columns=ec)
    if iface == 'rename':
        res = f.rename('nn')
        return compare_frame(res, ref, ref.cols, exp_dtypes=ref.dtypes, exp_name=tok('nn'))
    if iface == 'insert':
        if m == 0 or n == 0:
            raise Skip()  # a container with an empty index is documented to be ignored by _insert
        j = rng_r % m
        lab = untok(ref.columns[j])
        ser = sf.Series([4000 + i for i in range(n)], index=f.index, name='__ins__')
        before_ = (rng_r // 7) % 2 == 0
        res = f.insert_before(lab, ser) if before_ else f.insert_after(lab, ser)
        at = j if before_ else j + 1
        cols = ref.cols[:at] + [[f'i:{4000 + i}' for i in range(n)]] + ref.cols[at:]
        labs = ref.columns[:at] + [tok('__ins__')] + ref.columns[at:]
        dts = ref.dtypes[:at] + [None] + ref.dtypes[at:]
        return compare_frame(res, ref, cols, exp_dtypes=dts, exp_columns=labs)
    if iface.startswith('s_'):
        if m == 0:
            raise Skip()
        j = rng_r % m
        s = f.iloc[:, j]
        sb = series_snapshot(s)
        col = ref.cols[j]
        route = 'iloc' if c['route'] == 'getitem' else c['route']
        prk = gen.key_to_py(c['rk'])
        rp = rpos
        if route == 'loc':
            lrk, ok = label_key(c['rk'], list(f.index), 'r')
            if ok:
                prk = lrk
                rp = incl_positions(c['rk'], n) if c['rk'][0] == 'sl' else rpos
            else:
                route = 'iloc'
        what = None
        if iface == 's_assign':
            res = getattr(s.assign, route)[prk](val)
            exp = [val_t if i in rp else col[i] for i in range(n)]
            what = cmp_series(res, ref.index, exp, tok(s.name))
        elif iface == 's_drop':
            res = getattr(s.drop, route)[prk]
            keep = [i for i in range(n) if i not in set(rp)]
            what = cmp_series(res, [ref.index[i] for i in keep], [col[i] for i in keep], tok(s.name), dtype=dtype_tok(s.dtype))
        elif iface == 's_mask':
            res = getattr(s.mask, route)[prk]
            what = cmp_series(res, ref.index, ['b:1' if i in rp else 'b:0' for i in range(n)], tok(res.name), dtype='b1')
        elif iface == 's_relabel':
            res = s.relabel(lambda x: (x, 1)).rename('zz')
            what = cmp_series(res, [tok((untok(t), 1)) for t in ref.index], col, tok('zz'), dtype=dtype_tok(s.dtype))
        if series_snapshot(s) != sb:
            return 'the original Series changed'
        return what
    raise AssertionError(iface)


def cmp_series(res, exp_index, exp_vals, exp_name, dtype=None):
    import static_frame as sf
    if not isinstance(res, sf.Series):
        return f'expected a Series, got {type(res).__name__}'
    gi = [tok(x) for x in res.index]
    if gi != exp_index:
        return f'series index {gi} != {exp_index}'
    gv = array_toks(res.values)
    if len(gv) != len(exp_vals) or not all(same_value(g, w) for g, w in zip(gv, exp_vals)):
        return f'series values {gv} != {exp_vals}'
    if tok(res.name) != exp_name:
        return f'series name {tok(res.name)} != {exp_name}'
    if dtype is not None and dtype_tok(res.dtype) != dtype:
        return f'series dtype {dtype_tok(res.dtype)} != {dtype}'
    return None


def classify(f):
    return None


def search(ctx):
    rng = ctx.rng('search')
    for i in range(40000):
        spec = gen.rand_frame_spec(rng, 4, 5, dtypes=gen.DTYPES_BASIC, index_kinds=('auto', 'int', 'str'), column_kinds=('auto', 'int', 'str'), min_cols=1)
        n, m = spec['rows'], len(spec['cols'])
        yield {'k': rng.choice(INTERFACES), 'spec': spec, 'route': rng.choice(['iloc', 'loc', 'getitem']),
               'rk': gen.rand_key(rng, n, unique_list=True), 'ck': gen.rand_key(rng, m, unique_list=True),
               'val': rng.choice(VALUES), 'r': rng.randint(0, 10 ** 6)}
