"""C07 - no lossy coercion when values of different types meet.

Three layers, all on every run:
  (A) table layer, exhaustive: the Lean model of `resolve_dtype` (`dtype.resolve`) and of
      `np.result_type` (`dtype.rt`) against the real functions on ALL ordered pairs of a 45-dtype
      universe; `resolve_dtype_iter`, `concat_resolved`, `dtype_from_element`, `dtype_kind_to_na`,
      `dtype_to_fill_value`, `full_for_fill`, `prepare_iter_for_array`, and the model parameter
      `holds` ("NumPy stores the value unchanged") against NumPy itself.
  (B) a Lean-independent oracle on `resolve_dtype` itself: for probing values held by dtype a,
      `np.array([v], a).astype(resolve_dtype(a, b))[0]` must equal v (same class, same length).
  (C) site layer: every merging operation of the quantifier over the ordered dtype product with
      probing values; oracle: every stored element == the supplied one (same type class, same str
      length, ints exact), untouched columns keep their dtype.
"""
from __future__ import annotations

import datetime
import enum
import itertools
import math

import numpy as np

from check import Failure

TARGETS = ['SFModel.Props.C07', 'SFModel.BridgeDType']
THEOREMS = [
    'SF.C07.resolve_total', 'SF.C07.resolve_comm', 'SF.C07.resolve_obj_absorbs', 'SF.C07.resolve_idem',
    'SF.C07.resolve_str', 'SF.C07.resolve_bytes', 'SF.C07.resolve_cross_kind_obj', 'SF.C07.resolve_bool_number',
    'SF.C07.resolve_same_family', 'SF.C07.resolve_holds_partial', 'SF.C07.resolve_holds_partial_right',
    'SF.C07.lossy_characterisation', 'SF.C07.resolve_holds_counterexample', 'SF.C07.resolve_valid',
    'SF.C07.resolveIter_eq_fold', 'SF.C07.resolveIter_upper', 'SF.C07.merge_preserves', 'SF.C07.concat_preserves',
    'SF.C07.dtypeFromElement_holds', 'SF.C07.fill_preserves', 'SF.C07.fill_keeps_column', 'SF.C07.na_resolution',
    'SF.C07.prepare_iter_object', 'SF.C07.prepare_iter_has_tuple',
    'SF.BridgeDType.resolve_dtype_bridge', 'SF.BridgeDType.dtype_kind_to_na_bridge', 'SF.BridgeDType.dtype_to_fill_value_bridge',
]
PARTIAL = ['SF.C07.resolve_holds_partial: the full statement (every held value survives resolve_dtype) is false of the mirrored '
           'model - int64/uint64 resolved with float64/complex128 gives float64/complex128 (counterexample proved: '
           'resolve_holds_counterexample, replayed as finding F5); proved under `lossyInto a (resolve a b) = false`, '
           'and lossy_characterisation says exactly which promotions that excludes']
CORR_ONLY = ['every merging site (reindex/shift with fill value, from_concat both axes, assign element/array/Series/Frame - incl. a contiguous column slice '
             'inside one 2-D target block with list / slice / mask / single / full row keys and a value Frame of one block per column with independently drawn dtypes, '
             'fillna / fillna_leading / fillna_trailing, fillna_forward/backward(axis=1), from_overlay, insert_before/after, pivot_unstack / pivot_stack with a fill value, '
             'loc_searchsorted with a fill value, Frame.bloc selection, from_records, from_items, '
             'Series/Index from Python values, row consolidation via .values / iter_array(1) / row Series): oracle on the real code only '
             '(the model proves the merge pattern `empty(resolve_dtype_iter); write`, not that each site uses it)',
             'untouched columns keep their dtype (oracle only)']
RULE = ('exhaustive: all ordered pairs of the 45-dtype universe (table layer) and all (site x base dtype x incoming dtype or element) '
        'combinations of the 19 probing dtypes and 30 probing elements (site layer; f_assign_frame takes a third dtype for the second value column: 8 representatives in quick, all 19 in thorough); '
        'non-trivial = the two dtypes differ or the element is not held by the base dtype; distinct = distinct case JSON')
TRUSTED = ['tools/py2lean_dtype.py (translator of the branch skeleton of resolve_dtype, dtype_kind_to_na, dtype_to_fill_value; the same functions are also compared with the model on every run)',
           'np.result_type is a table parameter of the model (resultType), compared with NumPy on all ordered pairs each run',
           '`holds`/`store` (NumPy keeps a value the dtype holds; anything else reads back different) compared with NumPy on the probe grid each run',
           'ndarray.astype / item assignment value semantics are not modelled beyond `holds`']
ASSUMPTIONS = ['datetime64/timedelta64 range overflow on unit conversion is not modelled (probing values are within 1678-2262)',
               'float values are modelled by the narrowest IEEE width that represents them exactly (probing values)']
BUDGET = {'quick': 75, 'thorough': 700}

# --------------------------------------------------------------------------- universe
HAS_LD = hasattr(np, 'float128')
UNITS = ['Y', 'M', 'W', 'D', 'h', 'm', 's', 'ms', 'us', 'ns']
UNIVERSE = (['bool', 'int8', 'int16', 'int32', 'int64', 'uint8', 'uint16', 'uint32', 'uint64',
             'float16', 'float32', 'float64'] + (['float128'] if HAS_LD else []) +
            ['complex64', 'complex128'] + (['complex256'] if HAS_LD else []) +
            ['<U1', '<U3', '<U6', 'S1', 'S2', 'S4', 'M8'] + [f'M8[{u}]' for u in UNITS] +
            ['m8'] + [f'm8[{u}]' for u in UNITS] + ['object'])


def dt_atom(dt):
    """numpy dtype -> model atom"""
    dt = np.dtype(dt)
    k = dt.kind
    if k == 'b':
        return 'bool'
    if k == 'O':
        return 'O'
    if k in 'iufc':
        return f'{k}:{dt.itemsize * 8}'
    if k == 'U':
        return f'U:{dt.itemsize // 4}'
    if k == 'S':
        return f'S:{dt.itemsize}'
    if k in 'mM':
        unit, n = np.datetime_data(dt)
        if n != 1:
            raise ValueError(dt)
        return f'{k}:{unit}'
    raise ValueError(dt)


# --------------------------------------------------------------------------- value classes / equality
MISSING = ('none', 'nan', 'nat')


def vclass(v):
    if v is None:
        return 'none'
    if isinstance(v, (bool, np.bool_)):
        return 'bool'
    if isinstance(v, np.timedelta64):   # a subclass of np.signedinteger: test first
        return 'nat' if np.isnat(v) else 'td'
    if isinstance(v, (int, np.integer)):
        return 'num'
    if isinstance(v, (float, np.floating)):
        return 'nan' if math.isnan(float(v)) else 'num'
    if isinstance(v, (complex, np.complexfloating)):
        c = complex(v)
        return 'nan' if (math.isnan(c.real) or math.isnan(c.imag)) else 'num'
    if isinstance(v, (str, np.str_)):
        return 'str'
    if isinstance(v, (bytes, np.bytes_)):
        return 'bytes'
    if isinstance(v, np.datetime64):
        return 'nat' if np.isnat(v) else 'dt'
    if isinstance(v, np.timedelta64):
        return 'nat' if np.isnat(v) else 'td'
    if isinstance(v, (datetime.datetime, datetime.date)):
        return 'dt'
    if isinstance(v, datetime.timedelta):
        return 'td'
    if isinstance(v, tuple):
        return 'tuple'
    if isinstance(v, np.ndarray):
        return 'array'
    return 'other:' + type(v).__name__


def py_num(v):
    if isinstance(v, np.generic):
        if HAS_LD and isinstance(v, (np.float128, np.complex256)):
            return v
        return v.item()
    return v


def dt_ns(v):
    if isinstance(v, np.datetime64):
        return v.astype('M8[ns]').astype(np.int64).item()
    if isinstance(v, datetime.datetime):
        return np.datetime64(v, 'us').astype('M8[ns]').astype(np.int64).item()
    return np.datetime64(v, 'D').astype('M8[ns]').astype(np.int64).item()


def td_key(v):
    if isinstance(v, datetime.timedelta):
        v = np.timedelta64(v)
    unit = np.datetime_data(v.dtype)[0]
    if unit in ('Y', 'M'):
        return ('M', v.astype('m8[M]').astype(np.int64).item())
    if unit == 'generic':
        return ('g', v.astype(np.int64).item())
    return ('ns', v.astype('m8[ns]').astype(np.int64).item())


def same(stored, supplied):
    """The property's comparison: equal, same type class, strings of the same length, ints exact.
    A missing marker (None/NaN/NaT) may come back as another missing marker."""
    cs, cp = vclass(stored), vclass(supplied)
    if cp in MISSING:
        return cs in MISSING
    if cs != cp:
        return False
    if cp == 'bool':
        return bool(stored) == bool(supplied)
    if cp == 'num':
        a, b = py_num(stored), py_num(supplied)
        try:
            return bool(a == b)
        except Exception:
            return False
    if cp == 'str':
        return str(stored) == str(supplied) and len(stored) == len(supplied)
    if cp == 'bytes':
        return bytes(stored) == bytes(supplied)
    if cp == 'dt':
        try:
            return dt_ns(stored) == dt_ns(supplied)
        except Exception:
            return False
    if cp == 'td':
        ka, kb = td_key(stored), td_key(supplied)
        if ka[0] == 'g' or kb[0] == 'g':
            return ka[1] == kb[1]
        return ka == kb
    if cp == 'tuple':
        return type(stored) is tuple and len(stored) == len(supplied) and all(same(x, y) for x, y in zip(stored, supplied))
    return False


def show(v):
    return f'{type(v).__name__}:{v!r}'


# --------------------------------------------------------------------------- probing values
def _dtv(s, unit):
    return np.datetime64(s, unit)


BASE = {
    'bool': [True, False, True],
    'int8': [-128, 127, 5],
    'int64': [2 ** 53 + 1, -2 ** 63, 7],
    'uint8': [255, 0, 9],
    'uint64': [2 ** 64 - 1, 2 ** 53 + 1, 3],
    'float16': [0.5, 2048.0, -1.5],
    'float32': [1.5, 16777216.0, 0.25],
    'float64': [0.1, 1e300, -2.5],
    'complex128': [1 + 2j, 0.5j, 3 - 1j],
    '<U1': ['a', 'b', 'c'],
    '<U6': ['abcdef', 'x', 'yz'],
    'S1': [b'a', b'b', b'c'],
    'S4': [b'wxyz', b'q', b'rs'],
    'M8[D]': ['2020-01-01', '1969-12-31', '2021-03-04'],
    'M8[ns]': ['2020-01-01T00:00:00.000000001', '1969-12-31T23:59:59.999999999', '2021-03-04T05:06:07.000000008'],
    'M8[Y]': ['2020', '1969', '2021'],
    'm8[D]': [3, -4, 10],
    'm8[ns]': [1, 10 ** 18, -5],
    'object': None,
}
SITE_DTYPES = list(BASE)
# dtypes that can carry a missing value (needed by fillna / overlay sites): position 1 is made missing
NA_ABLE = {'float16': np.nan, 'float32': np.nan, 'float64': np.nan, 'complex128': np.nan,
           'M8[D]': 'NaT', 'M8[ns]': 'NaT', 'M8[Y]': 'NaT', 'm8[D]': 'NaT', 'm8[ns]': 'NaT', 'object': None}


def base_array(name, na=False, variant=0):
    """Probing array of 3 values of the named dtype. variant rotates the values (second column).
    na: position 1 (variant 0) or position 0 (variant 1) holds the missing value of the dtype."""
    if name == 'object':
        vals = ['abcdef', 2 ** 70, True] if variant == 0 else [(1, 2), 'x', 2 ** 53 + 1]
        if na:
            vals[0 if variant else 1] = None
        a = np.empty(3, dtype=object)
        for i, v in enumerate(vals):
            a[i] = v
        return a
    vals = list(BASE[name])
    if variant:
        vals = vals[variant:] + vals[:variant]
    if name.startswith('M8'):
        a = np.array(vals, dtype=name)
    elif name.startswith('m8'):
        a = np.array(vals, dtype='int64').astype(name)
    else:
        a = np.array(vals, dtype=name)
    if na:
        if name not in NA_ABLE:
            raise KeyError(name)
        a[0 if variant else 1] = NA_ABLE[name]
    return a


def cells(arr):
    """the elements of an array as NumPy hands them out"""
    return [arr[i] for i in range(len(arr))]


class _Color(enum.Enum):
    RED = 1


ELEMENTS = {
    'True': True, 'np.True': np.bool_(True), '1': 1, '2**53+1': 2 ** 53 + 1, '2**70': 2 ** 70, '-2**63': -2 ** 63,
    '2**63': 2 ** 63, 'np.int8(5)': np.int8(5), 'np.uint64(max)': np.uint64(2 ** 64 - 1), 'np.int64(2**53+1)': np.int64(2 ** 53 + 1),
    '1.5': 1.5, 'np.float32(1.5)': np.float32(1.5), 'np.float16(0.5)': np.float16(0.5), 'np.nan': np.nan,
    'nan': float('nan'), 'None': None, 'NaT': np.datetime64('NaT'), 'NaTd': np.timedelta64('NaT'),
    "'abcdef'": 'abcdef', "''": '', "np.str_('xyz')": np.str_('xyz'), "b'xy'": b'xy', "np.bytes_(b'wxyz')": np.bytes_(b'wxyz'),
    'date64': np.datetime64('2021-03-04'), 'ns64': np.datetime64('2021-03-04T05:06:07.000000008'),
    'td64s': np.timedelta64(5, 's'), 'tuple': (1, 2), '1+2j': 1 + 2j, 'pydate': datetime.date(2020, 5, 5),
    'tuple_str': ('abcdef', 2 ** 70),
}
ELEMENT_NAMES = list(ELEMENTS)
TUPLES = ('tuple', 'tuple_str')


# --------------------------------------------------------------------------- model encodings
def float_width(x):
    for w, t in ((16, np.float16), (32, np.float32), (64, np.float64)):
        with np.errstate(all='ignore'):
            if float(t(x)) == x:
                return w
    return 128


def v_wire(v, ids):
    """Python/NumPy value -> model value s-expression (None when the universe has no such value)."""
    c = vclass(v)
    if c == 'none':
        return 'none'
    if c == 'nan':
        return 'nan'
    if c == 'nat':
        return 'natD' if isinstance(v, np.datetime64) else 'natT'
    if c == 'bool':
        return f'(b {int(bool(v))})'
    if c == 'num':
        p = py_num(v)
        if isinstance(p, complex):
            if p.imag == 0:
                p = p.real
            else:
                w = 2 * max(float_width(p.real), float_width(p.imag))
                return f'(c {w} {ids(("c", p))})'
        if isinstance(p, int):
            return f'(i {p})'
        if isinstance(p, float):
            if math.isinf(p):
                return None
            if p == int(p):
                return f'(i {int(p)})'
            return f'(f {float_width(p)} {ids(("f", p))})'
        return None
    if c == 'str':
        return f'(s {len(v)} {ids(("s", str(v)))})'
    if c == 'bytes':
        return f'(y {len(v)} {ids(("y", bytes(v)))})'
    if c == 'dt' and isinstance(v, np.datetime64):
        return f'(dt {np.datetime_data(v.dtype)[0]} {v.astype(np.int64).item()})'
    if c == 'td' and isinstance(v, np.timedelta64):
        return f'(td {np.datetime_data(v.dtype)[0]} {v.astype(np.int64).item()})'
    if c == 'tuple':
        return f'(t {ids(("t", repr(v)))})'
    return None


class Ids:
    def __init__(self):
        self.d = {}

    def __call__(self, key):
        return self.d.setdefault(key, len(self.d))


def elem_wire(v):
    """element -> model Elem s-expression (None: outside the modelled universe)"""
    ids = Ids()
    if v is np.nan:
        return 'nanS'
    if v is None:
        return 'none'
    if isinstance(v, tuple):
        return '(tuple 0)'
    if hasattr(v, 'dtype'):
        w = v_wire(v, ids)
        return None if w is None else f'(np {dt_atom(v.dtype)} {w})'
    if isinstance(v, (bool, int, float, complex, str, bytes)):
        w = v_wire(v, ids)
        return None if w is None else f'(py {w})'
    return None


def elem_from_wire(ans):
    """model Elem answer -> (kind, payload) for comparison with a real NA / fill value"""
    return ans


# --------------------------------------------------------------------------- case generation
def nontrivial(c):
    if c['k'] == 'pair':
        return c['a'] != c['b']
    return True


def cases(ctx):
    rng = ctx.rng('main')
    quick = ctx.tier == 'quick'
    # (A) exhaustive table
    for a in UNIVERSE:
        for b in UNIVERSE:
            yield {'k': 'pair', 'a': a, 'b': b}
    yield {'k': 'na'}
    for name in ELEMENT_NAMES:
        yield {'k': 'elem', 'e': name}
    for d in UNIVERSE:
        yield {'k': 'holds', 'd': d}
    for _ in range(300 if quick else 3000):
        n = rng.randint(1, 4)
        yield {'k': 'iter', 'ds': [rng.choice(UNIVERSE) for _ in range(n)]}
    for ds in itertools.product(['int8', 'uint8', 'float16', '<U3', 'bool', 'object', 'M8[D]', 'm8[Y]', 'm8[D]', 'int64', 'uint64'], repeat=3):
        yield {'k': 'iter', 'ds': list(ds)}
    for _ in range(300 if quick else 4000):
        n = rng.randint(0, 5)
        yield {'k': 'prep', 'vals': [rng.choice(PREP_NAMES) for _ in range(n)], 'gen': rng.random() < 0.3}
    if not quick:
        for vals in itertools.product(PREP_NAMES, repeat=3):
            yield {'k': 'prep', 'vals': list(vals), 'gen': False}
    # (C) sites
    combos = []
    for site in ELEM_SITES:
        for a in SITE_DTYPES:
            for e in ELEMENT_NAMES:
                for layout in (0, 1):
                    if layout == 1 and not site.startswith('f_'):
                        continue
                    combos.append({'k': 'site', 'site': site, 'a': a, 'e': e, 'layout': layout})
    for site in ARRAY_SITES:
        for a in SITE_DTYPES:
            for b in SITE_DTYPES:
                for layout in (0, 1):
                    if layout == 1 and not site.startswith('f_'):
                        continue
                    if site == 'f_assign_frame':
                        for b2 in (B2_QUICK if quick else SITE_DTYPES):
                            if layout == 0 and b2 != b and quick:
                                continue    # the 1-D target is the control: same-dtype value only in the quick tier
                            combos.append({'k': 'site', 'site': site, 'a': a, 'b': b, 'layout': layout, 'b2': b2})
                        continue
                    combos.append({'k': 'site', 'site': site, 'a': a, 'b': b, 'layout': layout})
    if quick:
        rng.shuffle(combos)
        # every site x base dtype at least once, then a random sample of the product
        seen, first, rest = set(), [], []
        for c in combos:
            key = (c['site'], c['a'])
            if key not in seen:
                seen.add(key)
                first.append(c)
            else:
                rest.append(c)
        combos = first + rest[:QUICK_SITE_SAMPLE]   # the whole product (about 25 000 probes) runs in well under a minute
    for c in combos:
        yield c


QUICK_SITE_SAMPLE = 10 ** 6

PREP_POOL = {
    'tuple': (1, 2), 'list': [1], 'enum': _Color.RED, 'str': 'a', 'npstr': np.str_('b'), 'float': 1.5, 'complex': 1j,
    'npfloat': np.float64(2.5), 'big': 10 ** 16, 'negbig': -10 ** 16, 'edge': 10 ** 15, 'bool': True, 'int': 3, 'None': None,
    'bytes': b'x', 'npint': np.int64(10 ** 17),
}
PREP_NAMES = list(PREP_POOL)
PREP_CLS = {'tuple': 'tuple', 'list': 'tuple', 'enum': 'enum', 'str': 'str', 'npstr': 'str', 'float': 'inexact', 'complex': 'inexact',
            'npfloat': 'other', 'big': 'bigint', 'negbig': 'bigint', 'edge': 'other', 'bool': 'other', 'int': 'other', 'None': 'other',
            'bytes': 'other', 'npint': 'other'}


def model_lines(c):
    k = c['k']
    if k == 'pair':
        a, b = dt_atom(c['a']), dt_atom(c['b'])
        return [f'dtype.resolve {a} {b}', f'dtype.rt {a} {b}']
    if k == 'iter':
        ds = '(' + ' '.join(dt_atom(d) for d in c['ds']) + ')'
        return [f'dtype.iter {ds}', f'dtype.concat {ds}']
    if k == 'elem':
        w = elem_wire(ELEMENTS[c['e']])
        if w is None:
            return []
        lines = [f'dtype.elem {w}']
        for d in FILL_DTYPES:
            lines.append(f'dtype.fullfill {dt_atom(d) if d else "N"} {w}')
        return lines
    if k == 'na':
        return [f'dtype.na {kd}' for kd in 'biufcUSMmO'] + [f'dtype.fillvalue {dt_atom(d)}' for d in UNIVERSE]
    if k == 'holds':
        lines = []
        for v in holds_probes():
            w = v_wire(v, Ids())
            if w is not None:
                lines.append(f'dtype.holds {dt_atom(c["d"])} {w}')
        return lines
    if k == 'prep':
        return ['dtype.prepare (' + ' '.join(PREP_CLS[v] for v in c['vals']) + ')']
    return []


FILL_DTYPES = [None, 'bool', 'int8', 'int64', 'uint64', 'float32', 'float64', 'complex128', '<U1', 'S1', 'M8[D]', 'M8[ns]', 'm8[D]', 'object']


def holds_probes():
    out = [True, False, 0, 1, -1, 127, 128, -128, -129, 255, 256, 2048, 2049, 65535, 65536, 2 ** 24, 2 ** 24 + 1, 2 ** 31 - 1, 2 ** 31, -2 ** 31,
           2 ** 32 - 1, 2 ** 32, 2 ** 53, 2 ** 53 + 1, 2 ** 53 + 2, 2 ** 63 - 1, 2 ** 63, -2 ** 63, -2 ** 63 - 1, 2 ** 64 - 1, 2 ** 64, 2 ** 70,
           0.5, 1.5, 0.1, np.float32(0.1).item(), 1e300, 2049.5, float('nan'), None, 1 + 2j, 0.1 + 1j,
           'a', 'abc', 'abcdef', '', b'x', b'wxyz', (1, 2),
           np.datetime64('NaT'), np.timedelta64('NaT')]
    # values that are not on the grid of any coarser unit
    out += [np.datetime64('1971', 'Y'), np.datetime64('1971-02', 'M'), np.datetime64('1971-01-07', 'W'), np.datetime64('1971-03-05', 'D'),
            np.datetime64('1971-03-05T01', 'h'), np.datetime64('1971-03-05T01:02:03', 's'), np.datetime64('1971-03-05T01:02:03.000000004', 'ns')]
    for u in ('Y', 'M', 'W', 'D', 'h', 's', 'ns'):
        out.append(np.timedelta64(11, u))
    return out


# --------------------------------------------------------------------------- evaluation
def evaluate(ctx, c, outs):
    k = c['k']
    ctx.count('kind_' + k)
    if k == 'pair':
        return eval_pair(ctx, c, outs)
    if k == 'iter':
        return eval_iter(ctx, c, outs)
    if k == 'elem':
        return eval_elem(ctx, c, outs)
    if k == 'na':
        return eval_na(ctx, c, outs)
    if k == 'holds':
        return eval_holds(ctx, c, outs)
    if k == 'prep':
        return eval_prep(ctx, c, outs)
    if k == 'site':
        return eval_site(ctx, c)
    raise ValueError(k)


def real_resolve(a, b):
    from static_frame.core.util import resolve_dtype
    try:
        return 'ok ' + dt_atom(resolve_dtype(np.dtype(a), np.dtype(b)))
    except TypeError:
        return 'err value'


PAIR_PROBES = {}


def probes_for(name):
    """values an array of the named dtype holds (boundary values of the type)"""
    if name in PAIR_PROBES:
        return PAIR_PROBES[name]
    dt = np.dtype(name)
    k = dt.kind
    if k == 'b':
        vals = [True, False]
    elif k in 'iu':
        info = np.iinfo(dt)
        vals = [info.min, info.max, min(info.max, 2 ** 53 + 1)]
    elif k == 'f':
        vals = {2: [0.5, 2048.0, 65504.0], 4: [1.5, 16777216.0, 0.1], 8: [0.1, 1e300, 2.0 ** 53], 16: [0.1, 1e300]}[dt.itemsize]
    elif k == 'c':
        vals = [1 + 2j, 0.5j]
    elif k == 'U':
        vals = ['abcdef'[:dt.itemsize // 4], 'z']
    elif k == 'S':
        vals = [b'wxyz'[:dt.itemsize], b'q']
    elif k == 'M':
        vals = [] if np.datetime_data(dt)[0] == 'generic' else ['1971-01-01', '2021-03-04']
    elif k == 'm':
        vals = [] if np.datetime_data(dt)[0] == 'generic' else [7, -3]   # a generic-unit value is only NaT / a bare count
    else:
        vals = ['abcdef', 2 ** 70, True, None, (1, 2)]
    if k == 'O':
        arr = np.empty(len(vals), dtype=object)
        for i, v in enumerate(vals):
            arr[i] = v
    elif k == 'm':
        arr = np.array(vals, dtype=np.int64).astype(dt)
    else:
        arr = np.array(vals, dtype=dt)
    PAIR_PROBES[name] = arr
    return arr


def eval_pair(ctx, c, outs):
    from static_frame.core.util import resolve_dtype
    fails = []
    a, b = c['a'], c['b']
    da, db = np.dtype(a), np.dtype(b)
    real = real_resolve(a, b)
    if outs:
        if outs[0] != real:
            fails.append(Failure('corr', f'resolve_dtype({a}, {b}): model {outs[0]} vs real {real}', c))
        try:
            rt = 'ok ' + dt_atom(np.result_type(da, db))
        except TypeError:
            rt = 'err value'
        except ValueError:
            rt = None
        if outs[1] == 'ok untabulated':
            ctx.count('rt_untabulated')
        elif rt is not None and outs[1] != rt:
            fails.append(Failure('corr', f'np.result_type({a}, {b}): table {outs[1]} vs NumPy {rt}', c))
    # (B) Lean-independent oracle on resolve_dtype itself
    if not real.startswith('ok'):
        fails.append(Failure('oracle', f'resolve_dtype({a}, {b}) raised', c, detail={'site': 'resolve_dtype', 'a': a, 'b': b}))
        return fails
    r = resolve_dtype(da, db)
    r2 = resolve_dtype(db, da)
    if r != r2:
        fails.append(Failure('oracle', f'resolve_dtype not symmetric on ({a}, {b}): {r} vs {r2}', c, detail={'site': 'resolve_dtype', 'a': a, 'b': b}))
    if {da.kind, db.kind} == {'U', 'S'}:
        ctx.count('pair_str_bytes_outside_claim')
        return fails
    arr = probes_for(a)
    try:
        with np.errstate(all='ignore'):
            conv = arr.astype(r)
    except Exception as ex:
        fails.append(Failure('oracle', f'values of {a} cannot be cast to resolve_dtype({a}, {b}) = {r}: {ex}', c,
                             detail={'site': 'resolve_dtype', 'a': a, 'b': b}))
        return fails
    for i in range(len(arr)):
        sup, sto = arr[i], conv[i]
        if not same(sto, sup):
            fails.append(Failure('oracle', f'resolve_dtype({a}, {b}) = {r} does not hold {show(sup)} of the first operand: reads back {show(sto)}', c,
                                 detail=dict({'site': 'resolve_dtype', 'a': a, 'b': b, 'r': str(r)}, **cell_detail(sup, sto))))
            break
    return fails


def eval_iter(ctx, c, outs):
    from static_frame.core.util import resolve_dtype_iter, concat_resolved
    fails = []
    ds = [np.dtype(d) for d in c['ds']]
    real = 'ok ' + dt_atom(resolve_dtype_iter(ds))
    arrays = []
    for d in ds:
        arrays.append(np.empty(1, dtype=d) if d.kind != 'O' else np.array([None], dtype=object))
    try:
        with np.errstate(all='ignore'):
            realc = 'ok ' + dt_atom(concat_resolved(arrays).dtype)
    except Exception as ex:
        realc = f'raised {type(ex).__name__}'
    if outs:
        if outs[0] != real:
            fails.append(Failure('corr', f'resolve_dtype_iter({c["ds"]}): model {outs[0]} vs real {real}', c))
        if not realc.startswith('raised') and outs[1] != realc:
            fails.append(Failure('corr', f'concat_resolved dtype({c["ds"]}): model {outs[1]} vs real {realc}', c))
    return fails


def eval_elem(ctx, c, outs):
    from static_frame.core.util import dtype_from_element, full_for_fill
    fails = []
    v = ELEMENTS[c['e']]
    if not outs:
        ctx.count('elem_outside_model')
    real = 'ok ' + dt_atom(dtype_from_element(v))
    if outs and outs[0] != real:
        fails.append(Failure('corr', f'dtype_from_element({c["e"]}): model {outs[0]} vs real {real}', c))
    for i, d in enumerate(FILL_DTYPES):
        try:
            with np.errstate(all='ignore'):
                arr = full_for_fill(None if d is None else np.dtype(d), 2, v)
        except Exception as ex:
            # a refused fill stores nothing
            ctx.count('full_for_fill_raises')
            continue
        if outs:
            got = outs[1 + i]
            # answer: ok (<dtype> <stored value>)
            mdt = got[4:].split(' ')[0]
            if mdt != dt_atom(arr.dtype):
                fails.append(Failure('corr', f'full_for_fill({d}, {c["e"]}): model dtype {mdt} vs real {dt_atom(arr.dtype)}', c))
            mheld = not got.endswith('garbage)')
            rheld = same(arr[0], v) and same(arr[1], v)
            if mheld != rheld:
                fails.append(Failure('corr', f'full_for_fill({d}, {c["e"]}): model says value {"kept" if mheld else "changed"}, real reads back {show(arr[0])}', c))
        if {np.dtype(d).kind if d else 'x', vclass(v)} in ({'U', 'bytes'}, {'S', 'str'}):
            continue
        if not (same(arr[0], v) and same(arr[1], v)):
            fails.append(Failure('oracle', f'full_for_fill(dtype={d}, fill_value={show(v)}) stores {show(arr[0])}', c,
                                 detail=dict({'site': 'full_for_fill', 'a': d, 'e': c['e']}, **cell_detail(v, arr[0]))))
    return fails


def na_token(v):
    if v is None:
        return 'none'
    if v is np.nan:
        return 'nanS'
    return elem_wire(v)


def eval_na(ctx, c, outs):
    from static_frame.core.util import dtype_kind_to_na, dtype_to_fill_value
    fails = []
    if not outs:
        return fails
    kinds = 'biufcUSMmO'
    for i, kd in enumerate(kinds):
        real = 'ok ' + na_token(dtype_kind_to_na(kd))
        if outs[i] != real:
            fails.append(Failure('corr', f'dtype_kind_to_na({kd!r}): model {outs[i]} vs real {real}', c))
    for j, d in enumerate(UNIVERSE):
        v = dtype_to_fill_value(np.dtype(d))
        real = 'ok ' + na_token(v)
        if outs[len(kinds) + j] != real:
            fails.append(Failure('corr', f'dtype_to_fill_value({d}): model {outs[len(kinds) + j]} vs real {real}', c))
    return fails


def eval_holds(ctx, c, outs):
    fails = []
    d = np.dtype(c['d'])
    j = 0
    for v in holds_probes():
        w = v_wire(v, Ids())
        if w is None:
            continue
        if not outs:
            return fails
        model = outs[j] == 'ok 1'
        j += 1
        if {d.kind, vclass(v)} in ({'U', 'bytes'}, {'S', 'str'}):
            continue
        arr = np.empty(1, dtype=d)
        try:
            with np.errstate(all='ignore'):
                arr[0] = v
            real = same(arr[0], v)
        except Exception:
            real = False
        if not real and vclass(v) == 'num' and d.kind in 'fc':
            # item assignment of a Python int goes through a C double for the long double types: also try astype
            try:
                import warnings
                with np.errstate(all='ignore'), warnings.catch_warnings():
                    warnings.simplefilter('ignore')
                    arr = np.array([v]).astype(d)
                real = same(arr[0], v)
            except Exception:
                pass
        ctx.count('holds_true' if real else 'holds_false')
        if real != model:
            fails.append(Failure('corr', f'holds({c["d"]}, {show(v)}): model {model} vs NumPy {real} (reads back {show(arr[0]) if real is not None else "?"})', c))
    return fails


def eval_prep(ctx, c, outs):
    from static_frame.core.util import prepare_iter_for_array
    fails = []
    vals = [PREP_POOL[v] for v in c['vals']]
    src = (x for x in vals) if c.get('gen') else vals
    resolved, has_tuple, post = prepare_iter_for_array(src)
    real = f'ok ({int(resolved is object)} {int(bool(has_tuple))})'
    if list(post) != vals:
        fails.append(Failure('oracle', f'prepare_iter_for_array changed the values: {post!r}', c, detail={'site': 'prepare_iter_for_array'}))
    if outs and outs[0] != real:
        fails.append(Failure('corr', f'prepare_iter_for_array({c["vals"]}): model {outs[0]} vs real {real}', c))
    return fails


# --------------------------------------------------------------------------- sites
IDX = ('p', 'q', 'r')
K_VALS = [2 ** 53 + 1, 5, -7]
S_VALS = ['abcdef', 'gh', 'i']


class Obs:
    def __init__(self):
        self.pairs = []       # (supplied, stored, where)
        self.untouched = []   # (dtype_before, dtype_after, where)

    def col(self, supplied, arr, where, py=False):
        """py: the stored array was built by the library from a Python iterable of these values"""
        arr = np.asarray(arr) if not isinstance(arr, np.ndarray) else arr
        if len(supplied) != len(arr):
            self.pairs.append((('len', len(supplied)), ('len', len(arr)), where + ' length', py))
            return
        for i, s in enumerate(supplied):
            self.pairs.append((s, arr[i], f'{where}[{i}]', py))

    def keep(self, before, after, where):
        self.untouched.append((np.dtype(before), np.dtype(after), where))


def mk_series(name, na=False):
    import static_frame as sf
    return sf.Series(base_array(name, na=na), index=IDX)


def mk_frame(name, layout, na=False):
    """columns A, A2 (dtype `name`), K (int64 with 2**53+1), S (<U6). layout 1: A and A2 share a 2-D block."""
    import static_frame as sf
    a, a2 = base_array(name, na=na), base_array(name, na=na, variant=1)
    k = np.array(K_VALS, dtype=np.int64)
    s = np.array(S_VALS)
    if layout == 1:
        blk = np.empty((3, 2), dtype=a.dtype)
        blk[:, 0] = a
        blk[:, 1] = a2
        blocks = [blk, k, s]
    else:
        blocks = [a, a2, k, s]
    return sf.Frame(sf.TypeBlocks.from_blocks(blocks), index=IDX, columns=('A', 'A2', 'K', 'S'), own_data=True)


def colarr(f, label):
    return f[label].values


def fcols(name, na=False):
    return {'A': cells(base_array(name, na=na)), 'A2': cells(base_array(name, na=na, variant=1)),
            'K': cells(np.array(K_VALS, dtype=np.int64)), 'S': cells(np.array(S_VALS))}


def with_fill(vals, positions, e):
    return [e if i in positions else v for i, v in enumerate(vals)]


# ---- element sites: fn(name, e, layout) -> Obs ; raise Skip when the combination is not applicable
class Skip(Exception):
    pass


def s_reindex(name, e, layout):
    s = mk_series(name)
    a = cells(s.values)
    r = s.reindex(('r', 'zz', 'p'), fill_value=e)
    o = Obs()
    o.col([a[2], e, a[0]], r.values, 'reindex')
    return o


def s_shift(name, e, layout):
    s = mk_series(name)
    a = cells(s.values)
    o = Obs()
    o.col([e, a[0], a[1]], s.shift(1, fill_value=e).values, 'shift(1)')
    o.col([a[2], e, e], s.shift(-2, fill_value=e).values, 'shift(-2)')
    return o


def s_assign_elem(name, e, layout):
    if isinstance(e, tuple):
        raise Skip()  # the assign interface reads a tuple as an array of values, not as one element
    s = mk_series(name)
    a = cells(s.values)
    o = Obs()
    o.col([a[0], e, a[2]], s.assign.iloc[1](e).values, 'assign.iloc[1]')
    o.col([e, a[1], e], s.assign.loc[['p', 'r']](e).values, 'assign.loc[[p,r]]')
    o.col([a[0], a[1], e], s.assign['r'](e).values, "assign['r']")
    return o


def s_fillna(name, e, layout):
    if name not in NA_ABLE:
        raise Skip()
    if isinstance(e, tuple):
        raise Skip()  # iterables are read as containers by fillna
    s = mk_series(name, na=True)
    a = cells(s.values)
    o = Obs()
    o.col([a[0], e, a[2]], s.fillna(e).values, 'fillna')
    import static_frame as sf
    arr = base_array(name, na=True)
    arr[0] = arr[1]
    s2 = sf.Series(arr, index=IDX)
    o.col([e, e, a[2]], s2.fillna_leading(e).values, 'fillna_leading')
    arr = base_array(name, na=True)
    arr[2] = arr[1]
    s3 = sf.Series(arr, index=IDX)
    o.col([a[0], e, e], s3.fillna_trailing(e).values, 'fillna_trailing')
    return o


def f_reindex_rows(name, e, layout):
    f = mk_frame(name, layout)
    c = fcols(name)
    r = f.reindex(index=('r', 'zz', 'p'), fill_value=e)
    o = Obs()
    for lab in ('A', 'A2', 'K', 'S'):
        o.col([c[lab][2], e, c[lab][0]], colarr(r, lab), f'reindex rows col {lab}')
    return o


def f_reindex_cols(name, e, layout):
    f = mk_frame(name, layout)
    c = fcols(name)
    r = f.reindex(columns=('K', 'new', 'A'), fill_value=e)
    o = Obs()
    o.col(c['K'], colarr(r, 'K'), 'reindex columns col K')
    o.col(c['A'], colarr(r, 'A'), 'reindex columns col A')
    o.col([e, e, e], colarr(r, 'new'), 'reindex columns new col')
    o.keep(f['K'].dtype, r['K'].dtype, 'K')
    o.keep(f['A'].dtype, r['A'].dtype, 'A')
    return o


def f_shift(name, e, layout):
    f = mk_frame(name, layout)
    c = fcols(name)
    o = Obs()
    r = f.shift(index=1, fill_value=e)
    for lab in ('A', 'A2', 'K', 'S'):
        o.col([e, c[lab][0], c[lab][1]], colarr(r, lab), f'shift rows col {lab}')
    r = f.shift(columns=1, fill_value=e)
    o.col([e, e, e], r.iloc[:, 0].values, 'shift columns col 0')
    for j, lab in enumerate(('A', 'A2', 'K')):
        o.col(c[lab], r.iloc[:, j + 1].values, f'shift columns col {j + 1}')
        o.keep(f[lab].dtype, r.iloc[:, j + 1].dtype, f'shifted {lab}')
    return o


def f_assign_elem(name, e, layout):
    if isinstance(e, tuple):
        raise Skip()
    f = mk_frame(name, layout)
    c = fcols(name)
    o = Obs()
    r = f.assign.iloc[1, 0](e)
    o.col([c['A'][0], e, c['A'][2]], colarr(r, 'A'), 'assign.iloc[1,0] col A')
    for lab in ('A2', 'K', 'S'):
        o.col(c[lab], colarr(r, lab), f'assign.iloc[1,0] col {lab}')
        o.keep(f[lab].dtype, r[lab].dtype, f'assign.iloc[1,0] {lab}')
    r = f.assign['A'](e)
    o.col([e, e, e], colarr(r, 'A'), "assign['A']")
    for lab in ('A2', 'K', 'S'):
        o.col(c[lab], colarr(r, lab), f"assign['A'] col {lab}")
        o.keep(f[lab].dtype, r[lab].dtype, f"assign['A'] {lab}")
    r = f.assign.loc['q', ['A', 'K']](e)
    o.col([c['A'][0], e, c['A'][2]], colarr(r, 'A'), 'assign.loc[q,[A,K]] col A')
    o.col([c['K'][0], e, c['K'][2]], colarr(r, 'K'), 'assign.loc[q,[A,K]] col K')
    for lab in ('A2', 'S'):
        o.col(c[lab], colarr(r, lab), f'assign.loc[q,[A,K]] col {lab}')
        o.keep(f[lab].dtype, r[lab].dtype, f'assign.loc[q,[A,K]] {lab}')
    return o


def f_assign_bloc(name, e, layout):
    if isinstance(e, tuple):
        raise Skip()
    import static_frame as sf
    f = mk_frame(name, layout)
    c = fcols(name)
    mask = sf.Frame.from_records([[False, False, False, False], [True, False, False, False], [False, False, False, False]],
                                 index=IDX, columns=('A', 'A2', 'K', 'S'))
    r = f.assign.bloc[mask](e)
    o = Obs()
    o.col([c['A'][0], e, c['A'][2]], colarr(r, 'A'), 'assign.bloc col A')
    for lab in ('A2', 'K', 'S'):
        o.col(c[lab], colarr(r, lab), f'assign.bloc col {lab}')
        o.keep(f[lab].dtype, r[lab].dtype, f'assign.bloc {lab}')
    return o


def f_fillna(name, e, layout):
    if name not in NA_ABLE:
        raise Skip()
    if isinstance(e, tuple):
        raise Skip()
    f = mk_frame(name, layout, na=True)
    c = fcols(name, na=True)
    o = Obs()
    r = f.fillna(e)
    o.col([c['A'][0], e, c['A'][2]], colarr(r, 'A'), 'fillna col A')
    a2 = c['A2']
    o.col([e if vclass(v) in MISSING else v for v in a2], colarr(r, 'A2'), 'fillna col A2')
    for lab in ('K', 'S'):
        o.col(c[lab], colarr(r, lab), f'fillna col {lab}')
        o.keep(f[lab].dtype, r[lab].dtype, f'fillna {lab}')
    # leading / trailing along both axes: A has its missing value at row q, A2 at row p
    r = f.fillna_leading(e)
    o.col(c['A'], colarr(r, 'A'), 'fillna_leading col A')
    o.col([e, a2[1], a2[2]], colarr(r, 'A2'), 'fillna_leading col A2')
    for lab in ('K', 'S'):
        o.keep(f[lab].dtype, r[lab].dtype, f'fillna_leading {lab}')
        o.col(c[lab], colarr(r, lab), f'fillna_leading col {lab}')
    r = f.fillna_trailing(e, axis=1)
    for lab in ('A', 'A2', 'K', 'S'):
        o.col(c[lab], colarr(r, lab), f'fillna_trailing(axis=1) col {lab}')
    r = f.fillna_leading(e, axis=1)
    o.col([c['A'][0], e, c['A'][2]], colarr(r, 'A'), 'fillna_leading(axis=1) col A')
    o.col(a2, colarr(r, 'A2'), 'fillna_leading(axis=1) col A2')
    for lab in ('K', 'S'):
        o.col(c[lab], colarr(r, lab), f'fillna_leading(axis=1) col {lab}')
    return o


def i_fillna(name, e, layout):
    if name not in NA_ABLE or name.startswith('m8'):
        raise Skip()
    if isinstance(e, tuple):
        raise Skip()
    import static_frame as sf
    arr = base_array(name, na=True)
    a = cells(arr)
    try:
        if hash(e) in (hash(a[0]), hash(a[2])) or (name == 'object' and vclass(e) in ('bool', 'num')):
            raise Skip()  # would duplicate a label (True == 1)
    except TypeError:
        raise Skip()
    try:
        ix = sf.Index(arr)
    except Exception:
        raise Skip()
    o = Obs()
    o.col([a[0], e, a[2]], ix.fillna(e).values, 'Index.fillna')
    return o


def s_searchsorted(name, e, layout):
    """Series.loc_searchsorted(values, fill_value): labels merged with the fill value"""
    import static_frame as sf
    labels = base_array(name)
    try:
        s = sf.Series(np.array([10, 20, 30]), index=sf.Index(labels))
    except Exception:
        raise Skip()
    lv = cells(labels)
    o = Obs()
    o.col([lv[0], lv[2], e], s.loc_searchsorted(np.array([5, 25, 35]), fill_value=e), 'loc_searchsorted')
    return o


def f_pivot(name, e, layout):
    """pivot_unstack / pivot_stack place the fill value next to the data of each column"""
    import static_frame as sf
    a = base_array(name)
    av = cells(a)
    f = sf.Frame(sf.TypeBlocks.from_blocks([a[:2]]), index=sf.IndexHierarchy.from_labels([('p', 1), ('q', 2)]), columns=('A',), own_data=True)
    o = Obs()
    if layout == 0:
        r = f.pivot_unstack(fill_value=e)
        exp = {('p', ('A', 1)): av[0], ('q', ('A', 1)): e, ('p', ('A', 2)): e, ('q', ('A', 2)): av[1]}
        rows = [str(i) for i in r.index]
        cols = [(str(c[0]), int(c[1])) for c in r.columns]
        if sorted(rows) != ['p', 'q'] or sorted(cols) != [('A', 1), ('A', 2)]:
            o.pairs.append((('labels', 4), ('labels', tuple(rows), tuple(cols)), 'pivot_unstack labels', False))
            return o
        for (i, c), v in exp.items():
            o.pairs.append((v, r.iloc[:, cols.index(c)].values[rows.index(i)], f'pivot_unstack cell {(i, c)}', False))
    else:
        blk = np.empty((2, 2), dtype=a.dtype)
        blk[:, 0] = a[:2]
        blk[:, 1] = a[1:]
        f2 = sf.Frame(sf.TypeBlocks.from_blocks([blk]), index=('p', 'q'), columns=sf.IndexHierarchy.from_labels([('A', 1), ('B', 2)]), own_data=True)
        r = f2.pivot_stack(fill_value=e)
        exp = {(('p', 1), 'A'): av[0], (('p', 2), 'A'): e, (('q', 1), 'A'): av[1], (('q', 2), 'A'): e,
               (('p', 1), 'B'): e, (('p', 2), 'B'): av[1], (('q', 1), 'B'): e, (('q', 2), 'B'): av[2]}
        rows = [(str(i[0]), int(i[1])) for i in r.index]
        if sorted(rows) != [('p', 1), ('p', 2), ('q', 1), ('q', 2)] or sorted(map(str, r.columns)) != ['A', 'B']:
            o.pairs.append((('labels', 4), ('labels', rows), 'pivot_stack labels', False))
            return o
        for (i, c), v in exp.items():
            o.pairs.append((v, r[c].values[rows.index(i)], f'pivot_stack cell {(i, c)}', False))
    return o


ELEM_SITES = {
    's_searchsorted': s_searchsorted, 'f_pivot': f_pivot,
    's_reindex': s_reindex, 's_shift': s_shift, 's_assign_elem': s_assign_elem, 's_fillna': s_fillna,
    'f_reindex_rows': f_reindex_rows, 'f_reindex_cols': f_reindex_cols,
    'f_shift': f_shift, 'f_assign_elem': f_assign_elem, 'f_assign_bloc': f_assign_bloc, 'f_fillna': f_fillna,
    'i_fillna': i_fillna,
}


# ---- array sites: fn(name_a, name_b, layout) -> Obs
def s_concat(a, b, layout):
    import static_frame as sf
    sa = mk_series(a)
    sb = sf.Series(base_array(b, variant=1), index=('x', 'y', 'z'))
    r = sf.Series.from_concat((sa, sb))
    o = Obs()
    o.col(cells(sa.values) + cells(sb.values), r.values, 'Series.from_concat')
    return o


def f_concat_rows(a, b, layout):
    import static_frame as sf
    fa = mk_frame(a, layout)
    fb = mk_frame(b, layout).relabel(index=('x', 'y', 'z'))
    r = sf.Frame.from_concat((fa, fb), axis=0)
    ca, cb = fcols(a), fcols(b)
    o = Obs()
    for lab in ('A', 'A2', 'K', 'S'):
        o.col(ca[lab] + cb[lab], colarr(r, lab), f'from_concat(axis=0) col {lab}')
    o.keep(fa['K'].dtype, r['K'].dtype, 'K')
    o.keep(fa['S'].dtype, r['S'].dtype, 'S')
    return o


def f_concat_cols(a, b, layout):
    import static_frame as sf
    fa = mk_frame(a, layout)
    fb = mk_frame(b, layout).relabel(columns=('B', 'B2', 'L', 'T'))
    r = sf.Frame.from_concat((fa, fb), axis=1)
    ca, cb = fcols(a), fcols(b)
    o = Obs()
    for lab, src in (('A', ca['A']), ('A2', ca['A2']), ('K', ca['K']), ('S', ca['S']), ('B', cb['A']), ('B2', cb['A2']), ('L', cb['K']), ('T', cb['S'])):
        o.col(src, colarr(r, lab), f'from_concat(axis=1) col {lab}')
    for lab, src in (('A', fa['A']), ('K', fa['K']), ('S', fa['S']), ('B', fb['B']), ('L', fb['L'])):
        o.keep(src.dtype, r[lab].dtype, f'from_concat(axis=1) {lab}')
    return o


def f_concat_union(a, b, layout):
    """axis 1 with different indices: the union index introduces the default NaN fill"""
    import static_frame as sf
    fa = mk_frame(a, layout)[['A', 'K']]
    fb = mk_frame(b, layout)[['A2']].relabel(index=('q', 'r', 's'), columns=('B',))
    r = sf.Frame.from_concat((fa, fb), axis=1)
    ca, cb = fcols(a), fcols(b)
    nan = np.nan
    o = Obs()
    o.col(ca['A'] + [nan], colarr(r, 'A'), 'from_concat(axis=1, union) col A')
    o.col(ca['K'] + [nan], colarr(r, 'K'), 'from_concat(axis=1, union) col K')
    o.col([nan] + cb['A2'], colarr(r, 'B'), 'from_concat(axis=1, union) col B')
    return o


def s_assign_array(a, b, layout):
    import static_frame as sf
    s = mk_series(a)
    av = cells(s.values)
    barr = base_array(b, variant=1)
    bv = cells(barr)
    o = Obs()
    o.col([bv[0], av[1], bv[1]], s.assign.iloc[[0, 2]](barr[:2]).values, 'assign.iloc[[0,2]](array)')
    sb = sf.Series(barr, index=('r', 'zz', 'p'))
    o.col([bv[2], av[1], bv[0]], s.assign.loc[['p', 'r']](sb).values, 'assign.loc[[p,r]](Series)')
    o.col(bv, s.assign[:](barr).values, 'assign[:](array)')
    return o


def f_assign_array(a, b, layout):
    import static_frame as sf
    f = mk_frame(a, layout)
    c = fcols(a)
    barr = base_array(b, variant=1)
    bv = cells(barr)
    o = Obs()
    r = f.assign['A'](barr)
    o.col(bv, colarr(r, 'A'), "assign['A'](array)")
    for lab in ('A2', 'K', 'S'):
        o.col(c[lab], colarr(r, lab), f"assign['A'](array) col {lab}")
        o.keep(f[lab].dtype, r[lab].dtype, f"assign['A'](array) {lab}")
    r = f.assign.iloc[[0, 2], 0](barr[:2])
    o.col([bv[0], c['A'][1], bv[1]], colarr(r, 'A'), 'assign.iloc[[0,2],0](array)')
    for lab in ('A2', 'K', 'S'):
        o.col(c[lab], colarr(r, lab), f'assign.iloc[[0,2],0](array) col {lab}')
        o.keep(f[lab].dtype, r[lab].dtype, f'assign.iloc[[0,2],0](array) {lab}')
    sb = sf.Series(barr, index=('r', 'zz', 'p'))
    r = f.assign['A2'](sb, fill_value=barr[1])
    o.col([bv[2], bv[1], bv[0]], colarr(r, 'A2'), "assign['A2'](Series)")
    for lab in ('A', 'K', 'S'):
        o.col(c[lab], colarr(r, lab), f"assign['A2'](Series) col {lab}")
        o.keep(f[lab].dtype, r[lab].dtype, f"assign['A2'](Series) {lab}")
    return o


def f_assign_2d(a, b, layout):
    import static_frame as sf
    f = mk_frame(a, layout)
    c = fcols(a)
    b0, b1 = base_array(b), base_array(b, variant=1)
    blk = np.empty((3, 2), dtype=b0.dtype)
    blk[:, 0] = b0
    blk[:, 1] = b1
    o = Obs()
    r = f.assign.iloc[:, [0, 2]](blk)
    o.col(cells(b0), colarr(r, 'A'), 'assign.iloc[:,[0,2]](2d) col A')
    o.col(cells(b1), colarr(r, 'K'), 'assign.iloc[:,[0,2]](2d) col K')
    for lab in ('A2', 'S'):
        o.col(c[lab], colarr(r, lab), f'assign.iloc[:,[0,2]](2d) col {lab}')
        o.keep(f[lab].dtype, r[lab].dtype, f'assign.iloc[:,[0,2]](2d) {lab}')
    fb = sf.Frame(sf.TypeBlocks.from_blocks([b0, b1]), index=IDX, columns=('A', 'K'), own_data=True)
    r = f.assign.loc[['p', 'r'], ['A', 'K']](fb)
    bv0, bv1 = cells(b0), cells(b1)
    o.col([bv0[0], c['A'][1], bv0[2]], colarr(r, 'A'), 'assign.loc(Frame) col A')
    o.col([bv1[0], c['K'][1], bv1[2]], colarr(r, 'K'), 'assign.loc(Frame) col K')
    for lab in ('A2', 'S'):
        o.col(c[lab], colarr(r, lab), f'assign.loc(Frame) col {lab}')
        o.keep(f[lab].dtype, r[lab].dtype, f'assign.loc(Frame) {lab}')
    return o


def s_fillna_series(a, b, layout):
    if a not in NA_ABLE:
        raise Skip()
    import static_frame as sf
    s = mk_series(a, na=True)
    av = cells(s.values)
    barr = base_array(b, variant=1)
    bv = cells(barr)
    sb = sf.Series(barr, index=('q', 'zz', 'p'))
    o = Obs()
    o.col([av[0], bv[0], av[2]], s.fillna(sb).values, 'fillna(Series)')
    return o


def f_fillna_frame(a, b, layout):
    if a not in NA_ABLE:
        raise Skip()
    import static_frame as sf
    f = mk_frame(a, layout, na=True)
    c = fcols(a, na=True)
    b0 = base_array(b, variant=1)
    fb = sf.Frame(sf.TypeBlocks.from_blocks([b0]), index=('q', 'zz', 'p'), columns=('A',), own_data=True)
    r = f.fillna(fb)
    o = Obs()
    o.col([c['A'][0], b0[0], c['A'][2]], colarr(r, 'A'), 'fillna(Frame) col A')
    for lab in ('A2', 'K', 'S'):
        o.col(c[lab], colarr(r, lab), f'fillna(Frame) col {lab}')
    for lab in ('K', 'S'):
        o.keep(f[lab].dtype, r[lab].dtype, f'fillna(Frame) {lab}')
    return o


def s_overlay(a, b, layout):
    if a not in NA_ABLE:
        raise Skip()
    import static_frame as sf
    s = mk_series(a, na=True)
    av = cells(s.values)
    barr = base_array(b, variant=1)
    bv = cells(barr)
    sb = sf.Series(barr, index=('q', 'zz', 'p'))
    r = sf.Series.from_overlay((s, sb))
    o = Obs()
    exp = {'p': av[0], 'q': bv[0], 'r': av[2], 'zz': bv[1]}
    o.col([exp[l] for l in r.index], r.values, 'Series.from_overlay')
    return o


def f_overlay(a, b, layout):
    if a not in NA_ABLE:
        raise Skip()
    import static_frame as sf
    f = mk_frame(a, layout, na=True)
    c = fcols(a, na=True)
    b0 = base_array(b, variant=1)
    fb = sf.Frame(sf.TypeBlocks.from_blocks([b0]), index=IDX, columns=('A',), own_data=True)
    r = sf.Frame.from_overlay((f, fb))
    o = Obs()
    o.col([c['A'][0], b0[1], c['A'][2]], colarr(r, 'A'), 'Frame.from_overlay col A')
    for lab in ('K', 'S'):
        o.col(c[lab], colarr(r, lab), f'Frame.from_overlay col {lab}')
        o.keep(f[lab].dtype, r[lab].dtype, f'Frame.from_overlay {lab}')
    return o


def s_insert(a, b, layout):
    import static_frame as sf
    s = mk_series(a)
    av = cells(s.values)
    barr = base_array(b, variant=1)
    sb = sf.Series(barr[:2], index=('x', 'y'))
    o = Obs()
    o.col([av[0]] + cells(barr[:2]) + av[1:], s.insert_before('q', sb).values, 'insert_before')
    o.col(av + cells(barr[:2]), s.insert_after('r', sb).values, 'insert_after')
    return o


def f_insert(a, b, layout):
    import static_frame as sf
    f = mk_frame(a, layout)
    c = fcols(a)
    barr = base_array(b, variant=1)
    sb = sf.Series(barr, index=IDX, name='new')
    r = f.insert_before('A2', sb)
    o = Obs()
    o.col(cells(barr), colarr(r, 'new'), 'insert_before(Series) new col')
    for lab in ('A', 'A2', 'K', 'S'):
        o.col(c[lab], colarr(r, lab), f'insert_before col {lab}')
        o.keep(f[lab].dtype, r[lab].dtype, f'insert_before {lab}')
    fb = mk_frame(b, layout).relabel(columns=('B', 'B2', 'L', 'T'))
    r = f.insert_after('A', fb)
    cb = fcols(b)
    for lab, src in (('B', cb['A']), ('B2', cb['A2'])):
        o.col(src, colarr(r, lab), f'insert_after(Frame) col {lab}')
    for lab in ('A', 'A2', 'K', 'S'):
        o.col(c[lab], colarr(r, lab), f'insert_after(Frame) col {lab}')
        o.keep(f[lab].dtype, r[lab].dtype, f'insert_after(Frame) {lab}')
    return o


def pyvals(arr):
    """the values as Python objects where NumPy offers one (what a user's records hold)"""
    if arr.dtype.kind in 'mM':
        return cells(arr)
    return arr.tolist()


def from_records(a, b, layout):
    import static_frame as sf
    av, bv = pyvals(base_array(a)), pyvals(base_array(b, variant=1))
    o = Obs()
    recs = [[av[0], 'abcdef'], [bv[0], 'gh'], [av[1], 'i'], [bv[1], 'jk']]
    r = sf.Frame.from_records(recs, columns=('X', 'S'))
    o.col([av[0], bv[0], av[1], bv[1]], colarr(r, 'X'), 'from_records col X', py=True)
    o.col(['abcdef', 'gh', 'i', 'jk'], colarr(r, 'S'), 'from_records col S')
    r = sf.Frame.from_dict_records([{'X': av[0], 'S': 'abcdef'}, {'X': bv[0], 'S': 'gh'}])
    o.col([av[0], bv[0]], colarr(r, 'X'), 'from_dict_records col X', py=True)
    return o


def from_items(a, b, layout):
    import static_frame as sf
    arr_a, arr_b = base_array(a), base_array(b, variant=1)
    av, bv = pyvals(arr_a), pyvals(arr_b)
    o = Obs()
    r = sf.Frame.from_items((('X', av[:2] + bv[:2]), ('Y', arr_a[:2].tolist() + [av[2], av[2]]), ('Z', np.concatenate([arr_b, arr_b[:1]]) if arr_b.dtype.kind != 'O' else list(bv) + bv[:1])))
    o.col(av[:2] + bv[:2], colarr(r, 'X'), 'from_items col X (mixed list)', py=True)
    o.col(av[:2] + [av[2], av[2]], colarr(r, 'Y'), 'from_items col Y', py=True)
    o.col(bv + bv[:1], colarr(r, 'Z'), 'from_items col Z (array)')
    o.keep(arr_b.dtype, r['Z'].dtype, 'from_items Z')
    r = sf.Series(av[:2] + bv[:2])
    o.col(av[:2] + bv[:2], r.values, 'Series(mixed list)', py=True)
    r = sf.Series.from_items(zip('wxyz', av[:2] + bv[:2]))
    o.col(av[:2] + bv[:2], r.values, 'Series.from_items', py=True)
    r = sf.Series(list(cells(arr_a)[:2]) + list(cells(arr_b)[:2]))
    o.col(cells(arr_a)[:2] + cells(arr_b)[:2], r.values, 'Series(mixed NumPy scalars)', py=True)
    return o


def index_values(a, b, layout):
    import static_frame as sf
    av, bv = pyvals(base_array(a)), pyvals(base_array(b, variant=1))
    vals = [av[0], bv[0]]
    try:
        if hash(av[0]) == hash(bv[0]):
            raise Skip()   # equal labels (True / 1 / 1.0): a duplicate, not a merge
    except TypeError:
        raise Skip()
    o = Obs()
    r = sf.Index(vals)
    o.col(vals, r.values, 'Index(mixed list)', py=True)
    g = sf.IndexGO([av[0]])
    g.append(bv[0])
    o.col(vals, g.values, 'IndexGO.append', py=True)
    return o


def row_values(a, b, layout):
    import static_frame as sf
    arr_a, arr_b = base_array(a), base_array(b, variant=1)
    f = sf.Frame(sf.TypeBlocks.from_blocks([arr_a, arr_b]), index=IDX, columns=('A', 'B'), own_data=True)
    av, bv = cells(arr_a), cells(arr_b)
    o = Obs()
    v = f.values
    for i in range(3):
        o.col([av[i], bv[i]], v[i], f'.values row {i}')
    o.col([av[1], bv[1]], f.iloc[1].values, 'iloc[1] row Series')
    for i, row in enumerate(f.iter_array(axis=1)):
        o.col([av[i], bv[i]], row, f'iter_array(axis=1) row {i}')
    for i, row in enumerate(f.iter_series(axis=1)):
        o.col([av[i], bv[i]], row.values, f'iter_series(axis=1) row {i}')
    o.col([av[0], av[1], av[2]], f['A'].values, 'column A after row access')
    o.keep(arr_a.dtype, f['A'].dtype, 'A')
    return o


def f_consolidate(a, b, layout):
    """consolidation merges adjacent blocks of EQUAL dtype only: two adjacent columns keep their own dtype and cells
    (layout 0: constructor with consolidate_blocks=True, 1: TypeBlocks.consolidate / Frame.consolidate route, plus the
    row-wise concatenation of two frames with different layouts, which consolidates each member first)"""
    import static_frame as sf
    arr_a, arr_b = base_array(a), base_array(b, variant=1)
    av, bv = cells(arr_a), cells(arr_b)
    o = Obs()
    if layout == 0:
        f = sf.Frame.from_items((('A', arr_a), ('B', arr_b), ('A2', arr_a)), index=IDX, consolidate_blocks=True)
    else:
        f0 = sf.Frame(sf.TypeBlocks.from_blocks([arr_a, arr_b, arr_a]), index=IDX, columns=('A', 'B', 'A2'), own_data=True)
        f = sf.Frame(f0._blocks.consolidate(), index=IDX, columns=('A', 'B', 'A2'), own_data=True)
    o.col(av, f['A'].values, 'consolidated col A')
    o.col(bv, f['B'].values, 'consolidated col B')
    o.col(av, f['A2'].values, 'consolidated col A2')
    o.keep(arr_a.dtype, f['A'].dtype, 'A')
    o.keep(arr_b.dtype, f['B'].dtype, 'B')
    g1 = sf.Frame(sf.TypeBlocks.from_blocks([arr_a, arr_b]), index=IDX, columns=('A', 'B'), own_data=True)
    blk = np.empty((3, 1), dtype=arr_a.dtype)
    blk[:, 0] = arr_a
    g2 = sf.Frame(sf.TypeBlocks.from_blocks([blk, arr_b]), index=('x', 'y', 'z'), columns=('A', 'B'), own_data=True)
    r = sf.Frame.from_concat((g1, g2))
    o.col(bv + bv, r['B'].values, 'from_concat(rows) of two layouts col B')
    o.col(av + av, r['A'].values, 'from_concat(rows) of two layouts col A')
    o.keep(arr_b.dtype, r['B'].dtype, 'from_concat B')
    return o


def row_values_grown(a, b, layout):
    """the rows of a FrameGO whose second column was added after construction (layout 0: __setitem__, 1: extend):
    the incrementally maintained row dtype must describe both columns"""
    import static_frame as sf
    arr_a, arr_b = base_array(a), base_array(b, variant=1)
    f = sf.FrameGO(sf.TypeBlocks.from_blocks([arr_a]), index=IDX, columns=('A',), own_data=True)
    if layout == 1:
        f.extend(sf.Frame(sf.TypeBlocks.from_blocks([arr_b]), index=IDX, columns=('B',), own_data=True))
    else:
        f['B'] = arr_b
    av, bv = cells(arr_a), cells(arr_b)
    o = Obs()
    v = f.values
    for i in range(3):
        o.col([av[i], bv[i]], v[i], f'FrameGO .values row {i}')
    o.col([av[1], bv[1]], f.iloc[1].values, 'FrameGO iloc[1] row Series')
    for i, row in enumerate(f.iter_array(axis=1)):
        o.col([av[i], bv[i]], row, f'FrameGO iter_array(axis=1) row {i}')
    for i, row in enumerate(f.iter_tuple(axis=1, constructor=tuple)):
        held = np.empty(2, dtype=object)
        held[0], held[1] = row[0], row[1]
        o.col([av[i], bv[i]], held, f'FrameGO iter_tuple(axis=1) row {i}')
    o.col(bv, f['B'].values, 'FrameGO column B')
    o.keep(arr_a.dtype, f['A'].dtype, 'A')
    o.keep(arr_b.dtype, f['B'].dtype, 'B')
    return o


def f_bloc_assign(a, b, layout):
    """assign.bloc with a Frame value and with a coordinate Series (as produced by Frame.bloc)"""
    import static_frame as sf
    f = mk_frame(a, layout)
    c = fcols(a)
    b0 = base_array(b, variant=1)
    bv = cells(b0)
    fb = sf.Frame(sf.TypeBlocks.from_blocks([b0]), index=IDX, columns=('A',), own_data=True)
    mask = sf.Frame.from_records([[False] * 4, [True, False, False, False], [False] * 4], index=IDX, columns=('A', 'A2', 'K', 'S'))
    o = Obs()
    r = f.assign.bloc[mask](fb)
    o.col([c['A'][0], bv[1], c['A'][2]], colarr(r, 'A'), 'assign.bloc(Frame) col A')
    for lab in ('A2', 'K', 'S'):
        o.col(c[lab], colarr(r, lab), f'assign.bloc(Frame) col {lab}')
    for lab in ('K', 'S'):
        o.keep(f[lab].dtype, r[lab].dtype, f'assign.bloc(Frame) {lab}')
    coord = fb.bloc[mask[['A']]]
    o.col([bv[1]], coord.values, 'bloc selection of the value')
    r = f.assign.bloc[mask](coord)
    o.col([c['A'][0], bv[1], c['A'][2]], colarr(r, 'A'), 'assign.bloc(coordinate Series) col A')
    for lab in ('A2', 'K', 'S'):
        o.col(c[lab], colarr(r, lab), f'assign.bloc(coordinate Series) col {lab}')
    for lab in ('K', 'S'):
        o.keep(f[lab].dtype, r[lab].dtype, f'assign.bloc(coordinate Series) {lab}')
    return o


def f_bloc_select(a, b, layout):
    """Frame.bloc[mask] consolidates the selected cells of several columns into one array"""
    import static_frame as sf
    arr_a, arr_b = base_array(a), base_array(b, variant=1)
    f = sf.Frame(sf.TypeBlocks.from_blocks([arr_a, arr_b]), index=IDX, columns=('A', 'B'), own_data=True)
    mask = sf.Frame.from_records([[True, False], [False, True], [True, True]], index=IDX, columns=('A', 'B'))
    r = f.bloc[mask]
    exp = {('p', 'A'): arr_a[0], ('q', 'B'): arr_b[1], ('r', 'A'): arr_a[2], ('r', 'B'): arr_b[2]}
    o = Obs()
    labels = [tuple(l) for l in r.index]
    if sorted(labels) != sorted(exp):
        o.pairs.append((('labels', sorted(exp)), ('labels', sorted(labels)), 'bloc labels', False))
        return o
    o.col([exp[l] for l in labels], r.values, 'bloc selection')
    return o


def f_fill_directional(a, b, layout):
    """fillna_forward / fillna_backward along axis 1 carry a value into a column of another dtype"""
    if a not in NA_ABLE:
        raise Skip()
    import static_frame as sf
    x, y, z = base_array(b), base_array(a, na=True), base_array(b, variant=1)
    if b in NA_ABLE and layout == 1:
        x, z = base_array(b, na=True, variant=1), base_array(b, na=True, variant=1)   # missing at row p: nothing to carry there
    f = sf.Frame(sf.TypeBlocks.from_blocks([x, y, z]), index=IDX, columns=('X', 'Y', 'Z'), own_data=True)
    xv, yv, zv = cells(x), cells(y), cells(z)
    o = Obs()
    r = f.fillna_forward(axis=1)
    o.col([yv[0], xv[1], yv[2]], colarr(r, 'Y'), 'fillna_forward(axis=1) col Y')
    o.col(xv, colarr(r, 'X'), 'fillna_forward(axis=1) col X')
    o.keep(x.dtype, r['X'].dtype, 'fillna_forward(axis=1) X')
    r = f.fillna_backward(axis=1)
    o.col([yv[0], zv[1], yv[2]], colarr(r, 'Y'), 'fillna_backward(axis=1) col Y')
    o.col(zv, colarr(r, 'Z'), 'fillna_backward(axis=1) col Z')
    o.keep(z.dtype, r['Z'].dtype, 'fillna_backward(axis=1) Z')
    return o


def f_fill_directional_2d(a, b, layout):
    """fillna_forward / fillna_backward along axis 1 enter a 2-D block of dtype a from a block of dtype b: the edge the values
    enter through has a missing cell (row q), the middle column is complete, the far edge is complete (layout 0) or has its
    missing cell in another row (layout 1)"""
    if a not in NA_ABLE:
        raise Skip()
    import static_frame as sf
    x = base_array(b)
    # the complete middle column holds the variant-0 values: no tuple is ever carried (a tuple cell makes every directional
    # fill raise ValueError on the unchanged tree - recorded in DESIGN 5.2, same family as F30)
    y, ym = base_array(a, na=True), base_array(a)
    y2 = base_array(a, variant=1) if layout == 0 else base_array(a, na=True, variant=1)
    xv, yv, ymv, y2v = cells(x), cells(y), cells(ym), cells(y2)
    o = Obs()
    for forward in (True, False):
        blk = np.empty((3, 3), dtype=y.dtype)
        for j, colv in enumerate((y, ym, y2) if forward else (y2, ym, y)):
            blk[:, j] = colv
        blocks, columns = ([x, blk], ('X', 'Y', 'Ym', 'Y2')) if forward else ([blk, x], ('Y2', 'Ym', 'Y', 'X'))
        f = sf.Frame(sf.TypeBlocks.from_blocks(blocks), index=IDX, columns=columns, own_data=True)
        r = f.fillna_forward(axis=1) if forward else f.fillna_backward(axis=1)
        w = 'fillna_forward(axis=1) into a 2-D block' if forward else 'fillna_backward(axis=1) into a 2-D block'
        o.col([yv[0], xv[1], yv[2]], colarr(r, 'Y'), w + ' col Y')
        o.col(ymv, colarr(r, 'Ym'), w + ' col Ym')
        o.col(y2v if layout == 0 else [ymv[0], y2v[1], y2v[2]], colarr(r, 'Y2'), w + ' col Y2')
        o.col(xv, colarr(r, 'X'), w + ' col X')
        o.keep(x.dtype, r['X'].dtype, w + ' X')
    return o


def mk_frame3(name, layout):
    """columns A, A2, A3 (dtype `name`, three different value orders), K (int64), S (<U6).
    layout 1: A, A2, A3 form ONE 2-D block of width 3; layout 0: every column its own 1-D block."""
    import static_frame as sf
    cols = [base_array(name, variant=v) for v in (0, 1, 2)]
    k = np.array(K_VALS, dtype=np.int64)
    s = np.array(S_VALS)
    if layout == 1:
        blk = np.empty((3, 3), dtype=cols[0].dtype)
        for j, cl in enumerate(cols):
            blk[:, j] = cl
        blocks = [blk, k, s]
    else:
        blocks = cols + [k, s]
    return sf.Frame(sf.TypeBlocks.from_blocks(blocks), index=IDX, columns=('A', 'A2', 'A3', 'K', 'S'), own_data=True)


def fcols3(name):
    return {'A': cells(base_array(name)), 'A2': cells(base_array(name, variant=1)), 'A3': cells(base_array(name, variant=2)),
            'K': cells(np.array(K_VALS, dtype=np.int64)), 'S': cells(np.array(S_VALS))}


# row keys of the block-slice assignments: (name, loc key, iloc key, addressed row positions)
ROW_KEYS = (
    ('list', ['p', 'r'], [0, 2], (0, 2)),
    ('slice', slice('p', 'q'), slice(0, 2), (0, 1)),
    ('mask', np.array([False, True, True]), np.array([False, True, True]), (1, 2)),
    ('one', ['q'], [1], (1,)),
    ('full', slice(None), slice(None), (0, 1, 2)),
)


def check_block_assign(o, f, r, c, rows, new, what):
    """addressed cells of A2 / A3 hold the supplied values, every other cell and the dtype of every unaddressed column is unchanged"""
    for lab in ('A2', 'A3'):
        exp = list(c[lab])
        for k, i in enumerate(rows):
            exp[i] = new[lab][k]
        o.col(exp, colarr(r, lab), f'{what} col {lab}')
    for lab in ('A', 'K', 'S'):
        o.col(c[lab], colarr(r, lab), f'{what} col {lab}')
        o.keep(f[lab].dtype, r[lab].dtype, f'{what} {lab}')


def f_assign_frame(a, b, layout, b2=None):
    """Frame.assign.loc / iloc[rows, contiguous columns inside one 2-D block](Frame): the value Frame holds the two
    addressed columns in SEPARATE blocks of independently drawn dtypes (b, b2); partial and full row keys"""
    import static_frame as sf
    b2 = b2 or b
    f = mk_frame3(a, layout)
    c = fcols3(a)
    v2, v3 = base_array(b, variant=1), base_array(b2, variant=2)
    o = Obs()
    for name, lk, ik, rows in ROW_KEYS:
        rows = list(rows)
        labels = [IDX[i] for i in rows]
        fb = sf.Frame(sf.TypeBlocks.from_blocks([v2[rows], v3[rows]]), index=labels, columns=('A2', 'A3'), own_data=True)
        new = {'A2': cells(v2[rows]), 'A3': cells(v3[rows])}
        r = f.assign.loc[lk, ['A2', 'A3']](fb)
        check_block_assign(o, f, r, c, rows, new, f'assign.loc[{name}, [A2,A3]](Frame {b}|{b2})')
        r = f.assign.iloc[ik, 1:3](fb)
        check_block_assign(o, f, r, c, rows, new, f'assign.iloc[{name}, 1:3](Frame {b}|{b2})')
    # the value frame in the other column order, and covering the whole block
    rows = [0, 2]
    v1 = base_array(b2, variant=0)
    fb = sf.Frame(sf.TypeBlocks.from_blocks([v3[rows], v1[rows], v2[rows]]), index=['p', 'r'], columns=('A3', 'A', 'A2'), own_data=True)
    r = f.assign.loc[['p', 'r'], ['A', 'A2', 'A3']](fb)
    exp = {'A': list(c['A']), 'A2': list(c['A2']), 'A3': list(c['A3'])}
    for k, i in enumerate(rows):
        exp['A'][i], exp['A2'][i], exp['A3'][i] = v1[rows][k], v2[rows][k], v3[rows][k]
    for lab in ('A', 'A2', 'A3'):
        o.col(exp[lab], colarr(r, lab), f'assign.loc[list, [A,A2,A3]](Frame, permuted columns) col {lab}')
    for lab in ('K', 'S'):
        o.col(c[lab], colarr(r, lab), f'assign.loc[list, [A,A2,A3]](Frame) col {lab}')
        o.keep(f[lab].dtype, r[lab].dtype, f'assign.loc[list, [A,A2,A3]](Frame) {lab}')
    return o


def f_assign_block_slice(a, b, layout):
    """array- and Series-valued assignment into a contiguous slice of a 2-D block with partial row keys"""
    import static_frame as sf
    f = mk_frame3(a, layout)
    c = fcols3(a)
    v2, v3 = base_array(b, variant=1), base_array(b, variant=2)
    o = Obs()
    for name, lk, ik, rows in ROW_KEYS:
        rows = list(rows)
        arr = np.empty((len(rows), 2), dtype=v2.dtype)
        arr[:, 0] = v2[rows]
        arr[:, 1] = v3[rows]
        new = {'A2': cells(v2[rows]), 'A3': cells(v3[rows])}
        r = f.assign.iloc[ik, 1:3](arr)
        check_block_assign(o, f, r, c, rows, new, f'assign.iloc[{name}, 1:3](2-D array)')
        r = f.assign.loc[lk, ['A2', 'A3']](arr)
        check_block_assign(o, f, r, c, rows, new, f'assign.loc[{name}, [A2,A3]](2-D array)')
        # one column of the block, Series value labelled by the addressed rows
        sb = sf.Series(v2[rows], index=[IDX[i] for i in rows])
        r = f.assign.loc[lk, 'A2'](sb)
        exp = list(c['A2'])
        for k, i in enumerate(rows):
            exp[i] = new['A2'][k]
        o.col(exp, colarr(r, 'A2'), f'assign.loc[{name}, A2](Series) col A2')
        for lab in ('A', 'A3', 'K', 'S'):
            o.col(c[lab], colarr(r, lab), f'assign.loc[{name}, A2](Series) col {lab}')
            o.keep(f[lab].dtype, r[lab].dtype, f'assign.loc[{name}, A2](Series) {lab}')
    # one row across the slice: a Series labelled by the columns
    sr = sf.Series(np.array(cells(v2)[:2], dtype=v2.dtype) if v2.dtype.kind != 'O' else v2[:2], index=('A2', 'A3'))
    r = f.assign.loc['q', ['A2', 'A3']](sr)
    check_block_assign(o, f, r, c, [1], {'A2': [sr.values[0]], 'A3': [sr.values[1]]}, 'assign.loc[q, [A2,A3]](Series over columns)')
    return o


# representative dtypes for the second value column of f_assign_frame in the quick tier (thorough: all)
B2_QUICK = ('bool', 'int64', 'float64', '<U1', '<U6', 'S4', 'M8[D]', 'object')

ARRAY_SITES = {
    'f_assign_frame': f_assign_frame, 'f_assign_block_slice': f_assign_block_slice,
    'f_bloc_assign': f_bloc_assign, 'f_bloc_select': f_bloc_select, 'f_fill_directional': f_fill_directional, 'f_fill_directional_2d': f_fill_directional_2d,
    's_concat': s_concat, 'f_concat_rows': f_concat_rows, 'f_concat_cols': f_concat_cols, 'f_concat_union': f_concat_union,
    's_assign_array': s_assign_array, 'f_assign_array': f_assign_array, 'f_assign_2d': f_assign_2d,
    's_fillna_series': s_fillna_series, 'f_fillna_frame': f_fillna_frame, 's_overlay': s_overlay, 'f_overlay': f_overlay,
    's_insert': s_insert, 'f_insert': f_insert, 'from_records': from_records, 'from_items': from_items,
    'index_values': index_values, 'row_values': row_values, 'row_values_grown': row_values_grown,
    'f_consolidate': f_consolidate,
}


def outside_claim(sup, sto):
    """str x bytes is outside the claim"""
    return {vclass(sup), vclass(sto)} == {'str', 'bytes'}


def eval_site(ctx, c):
    import warnings
    fails = []
    site = c['site']
    if 'e' in c:
        fn = ELEM_SITES[site]
        arg = ELEMENTS[c['e']]
    else:
        fn = ARRAY_SITES[site]
        arg = c['b']
    detail = {'site': site, 'a': c['a'], 'b': c.get('b'), 'b2': c.get('b2'), 'e': c.get('e'), 'layout': c['layout']}
    try:
        with warnings.catch_warnings():
            warnings.simplefilter('ignore')
            with np.errstate(all='ignore'):
                o = fn(c['a'], arg, c['layout'], **({'b2': c['b2']} if 'b2' in c else {}))
    except Skip:
        ctx.count('site_not_applicable')
        return fails
    except Exception as ex:
        ctx.count('site_raised')
        d = dict(detail, exc=type(ex).__name__, msg=str(ex)[:160])
        fails.append(Failure('oracle', f'{site}({c["a"]}, {c.get("b") or c.get("e")}) raised {type(ex).__name__}: {str(ex)[:120]}', c, detail=d))
        return fails
    ctx.count('site_' + site)
    seen = set()
    for sup, sto, where, py in o.pairs:
        ctx.count('cells_checked')
        if same(sto, sup):
            if vclass(sup) in MISSING and vclass(sto) != vclass(sup):
                ctx.count('missing_marker_flavour_changed')
            continue
        if outside_claim(sup, sto):
            ctx.count('str_bytes_outside_claim')
            continue
        d = dict(detail, where=where, py=py, **cell_detail(sup, sto))
        f = Failure('oracle', f'{site}({c["a"]}, {c.get("b") or c.get("e")}) {where}: supplied {show(sup)} stored {show(sto)}', c, detail=d)
        f.finding = classify(f)
        key = (f.finding, d['supc'], d['stoc'])
        if key not in seen:      # one report per distinct kind of deviation in this case
            seen.add(key)
            fails.append(f)
    for before, after, where in o.untouched:
        ctx.count('untouched_checked')
        if before != after:
            d = dict(detail, where=where, untouched=True, before=str(before), after=str(after))
            f = Failure('oracle', f'{site}({c["a"]}, {c.get("b") or c.get("e")}) untouched column {where}: dtype {before} became {after}', c, detail=d)
            f.finding = classify(f)
            key = (f.finding, 'untouched')
            if key not in seen:
                seen.add(key)
                fails.append(f)
    return fails


def cell_detail(sup, sto):
    d = {'sup': show(sup), 'sto': show(sto), 'supc': vclass(sup), 'stoc': vclass(sto)}
    if d['supc'] == 'num' and d['stoc'] == 'num':
        ps, pt = py_num(sup), py_num(sto)
        d['sup_int'] = isinstance(ps, int)
        d['sup_big'] = isinstance(ps, int) and abs(ps) > 2 ** 53
        d['sto_inexact'] = isinstance(pt, (float, complex)) or (HAS_LD and isinstance(pt, (np.float128, np.complex256)))
        try:
            d['rounded'] = bool(isinstance(ps, int) and complex(pt) == complex(float(ps)))
        except OverflowError:
            d['rounded'] = False
    if d['supc'] in ('dt', 'td') and isinstance(sup, (np.datetime64, np.timedelta64)):
        d['sup_unit'] = np.datetime_data(sup.dtype)[0]
        if isinstance(sto, int) and not isinstance(sto, bool):
            d['sto_ticks'] = bool(sto == sup.astype(np.int64).item())
            try:
                ns = sup.astype('M8[ns]' if isinstance(sup, np.datetime64) else 'm8[ns]')
                d['sto_ticks_ns'] = bool(sto == ns.astype(np.int64).item())
            except Exception:
                d['sto_ticks_ns'] = False
    return d


PY_MERGES = {('bool', 'num'), ('bool', 'bytes'), ('bool', 'td'), ('num', 'bytes'), ('num', 'td'), ('num', 'nat'), ('td', 'dt')}


def classify(f):
    """Map a failure to a known finding of findings/C07.json (predicates on the call site and the cell)."""
    d = f.detail or {}
    if f.kind != 'oracle':
        return None
    site = d.get('site')
    if d.get('untouched'):
        if site == 'f_assign_bloc' and d.get('layout') == 1 and d.get('where', '').endswith('A2'):
            return 'F19-c07-bloc-assign-retypes-block-mate'
        return None
    if 'exc' in d:
        if site == 's_searchsorted' and d['exc'] == 'ValueError' and 'cannot assign' in d.get('msg', '') and d.get('e') in TUPLES:
            return 'F30-c07-tuple-fill-refused'
        if site == 'f_pivot' and d['exc'] == 'ValueError' and 'inhomogeneous' in d.get('msg', '') and d.get('e') in TUPLES:
            return 'F30-c07-tuple-fill-refused'
        return None
    supc, stoc = d.get('supc'), d.get('stoc')
    if supc == 'num' and stoc == 'num' and d.get('sup_big') and d.get('sto_inexact') and d.get('rounded'):
        return 'F5-c07-int64-float64'
    if stoc == 'num' and d.get('sto_ticks') and (
            (supc == 'dt' and d.get('sup_unit') in ('ns', 'ps', 'fs', 'as')) or
            (supc == 'td' and d.get('sup_unit') in ('Y', 'M', 'ns', 'ps', 'fs', 'as'))):
        return 'F26c-c07-datetime-units-object-int'
    if stoc == 'num' and supc in ('dt', 'td') and d.get('sto_ticks_ns') and \
            any(isinstance(x, str) and x.endswith('[ns]') for x in (d.get('a'), d.get('b'), d.get('b2'))):
        # a coarser unit first promoted to [ns] next to an [ns] column (concat_resolved of the value blocks), then to object
        return 'F26c-c07-datetime-units-object-int'
    if d.get('py') and (supc, stoc) in PY_MERGES:
        return 'F25-c07-python-values-numpy-merge'
    if site == 'resolve_dtype' and supc == 'dt' and stoc == 'dt' and d.get('r') == 'datetime64[W]' and d.get('a') in ('M8[Y]', 'M8[M]'):
        return 'F31-c07-datetime-week-grid'
    return None


def search(ctx):
    for site in ELEM_SITES:
        for a in SITE_DTYPES:
            for e in ELEMENT_NAMES:
                yield {'k': 'site', 'site': site, 'a': a, 'e': e, 'layout': 0}
    for site in ARRAY_SITES:
        for a in SITE_DTYPES:
            for b in SITE_DTYPES:
                yield {'k': 'site', 'site': site, 'a': a, 'b': b, 'layout': 0}
