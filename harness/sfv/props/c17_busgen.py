"""C17 (Bus cache / LRU bookkeeping) - `Bus._update_series_cache_iloc` TRANSLATED from the source
(tools/py2lean_bus.py -> lean/SFModel/Gen/Bus.lean, bridge lemmas lean/SFModel/BridgeBus.lean, theorems
lean/SFModel/Props/C17Gen.lean).

This module holds what harness/sfv/props/c17.py needs for it:
  * the extra lake targets / audited theorems,
  * case kind 'bgrid': an access history on a REAL Bus - over an in-memory store stub whose reads can be made to fail
    per label and per access, or over a zip-pickle file - observed after every access (`_loaded`, the order of
    `_last_accessed`, `_loaded_all`, which cells of `_series` hold a Frame, the exception category) and compared with
    the translated transformer run through the driver (`busgen.run`).  Keys: integers, lists, slices, Boolean masks,
    the null slice, label keys through loc / getitem; routes: the method itself, iloc, loc, getitem;
    max_persist None, 1, 2, 3, ...; boundary shapes (empty Bus, one label, capacity = length, out-of-range keys,
    empty selections).  Lean-independent oracle on the same cases: a textbook OrderedDict LRU predicts loaded set and
    recency order of failure-free histories; at most max_persist frames loaded; a label is flagged loaded iff its cell
    holds a Frame - strictly, also after a read that fails part-way through an access (finding F96, repaired in /repo 1f9773b),
  * case kind 'bsem': the primitives of lean/SFModel/BusSem.lean against the real dict / OrderedDict / NumPy operations.
"""
from __future__ import annotations

import collections
import itertools
import os
import tempfile

import numpy as np

from check import Failure
from sfv.canon import err_cat
from sfv import gen

TARGETS = ['SFModel.BridgeBus', 'SFModel.Props.C17Gen']
THEOREMS = [
    # generated = hand-mirrored (lean/SFModel/BridgeBus.lean)
    'SF.BridgeBus.touch_bridge', 'SF.BridgeBus.evict_bridge', 'SF.BridgeBus.body_bridge_mpNone', 'SF.BridgeBus.body_bridge_mpSome',
    'SF.BridgeBus.loop_bridge_mpNone', 'SF.BridgeBus.loop_bridge_mpSome', 'SF.BridgeBus.hit_loop_bridge',
    'SF.BridgeBus.seriesTake_eq', 'SF.BridgeBus.labelsTake_eq', 'SF.BridgeBus.arrTake_eq',
    'SF.BridgeBus.update_bridge', 'SF.BridgeBus.genUpdate_eq', 'SF.BridgeBus.genExtractIloc_eq', 'SF.BridgeBus.genIterElements_eq',
    'SF.BridgeBus.genValues_eq', 'SF.BridgeBus.genStep_eq', 'SF.BridgeBus.genRunAll_eq',
    # the C17 theorems for the machine over the translated cache update (lean/SFModel/Props/C17Gen.lean)
    'SF.C17Gen.translated_bus_inv', 'SF.C17Gen.translated_bus_lru', 'SF.C17Gen.translated_update_inv_partial',
    'SF.C17Gen.pinned_partial_read_counterexample',
]
PARTIAL = ['SF.C17Gen.translated_update_inv_partial: the whole invariant (flags = cells, loaded count <= max_persist, recency-list keys = loaded labels) '
           'through the translated cache update, returning or raising, is proved for stores whose reads within one access all succeed or all fail (a stale '
           'file: the store of the model); for a store failing per label the repaired try / finally (1f9773b) is translated and bridged, its effect is shown '
           'on the proved example pinned_partial_read_counterexample (second conjunct) and checked by the strict grid oracle, not proved for all states']
TRUSTED = ['tools/py2lean_bus.py (translator of Bus._update_series_cache_iloc) and its reading of dict / NumPy / generator operations '
           '(lean/SFModel/BusSem.lean); typing assumptions: a key is an integer or addresses each of its positions once (a repeated position '
           'makes Series.iloc / Index.iloc raise before any mutation); cross-checked against the real Bus and the real dict / array operations '
           'on a grid each run (cases bgrid, bsem)']
CORR_ONLY = ['Bus._store_reader (batching of read_many calls) and the store itself are abstract parameters of the translation (a frame or an '
             'exception per label); key -> positions (NumPy indexing, Index._loc_to_iloc for label keys) is done by the harness']

LABELS = 'abcdefgh'
OOR = 7          # offset used for "a position outside the axis"
_STATE = {}


# ------------------------------------------------------------------ keys
def positions(key, n):
    """the translation's key for a JSON key on an axis of n labels: ('el', p) | ('arr', [p, ...]); a position >= n stands for anything
    NumPy refuses (IndexError)"""
    k = key[0]
    if k == 'int':
        i = key[1]
        return ('el', i if 0 <= i < n else (i + n if -n <= i < 0 else n + OOR))
    if k == 'all':
        return ('arr', list(range(n)))
    if k == 'sl':
        return ('arr', list(range(n))[slice(key[1], key[2], key[3])])
    if k == 'list':
        return ('arr', [i if 0 <= i < n else (i + n if -n <= i < 0 else n + OOR) for i in key[1:]])
    if k == 'mask':
        if len(key) - 1 != n:
            return ('arr', [n + OOR])
        return ('arr', [i for i, b in enumerate(key[1:]) if b])
    raise ValueError(key)


def valid(key, n):
    """in range, no repeated position"""
    kind, ps = positions(key, n)
    ps = [ps] if kind == 'el' else ps
    return all(p < n for p in ps) and len(set(ps)) == len(ps)


def label_key(key, n):
    """label form of a key for loc / getitem (None when it has none)"""
    labs = LABELS[:n]
    k = key[0]
    if not valid(key, n):
        return None
    if k == 'int':
        return labs[key[1]]
    if k == 'all':
        return slice(None)
    if k == 'list':
        return [labs[i] for i in key[1:]]
    if k == 'mask':
        return np.array([bool(b) for b in key[1:]], dtype=bool)
    return None


def rand_key(rng, n):
    r = rng.random()
    if r < 0.34:
        if n == 0 or rng.random() < 0.05:
            return ['int', rng.choice([n, -n - 1, n + 2])]
        return ['int', rng.randint(-n, n - 1)]
    if r < 0.60:
        if n == 0:
            return ['list']
        ps = rng.sample(range(n), rng.randint(0, n))
        out = [p if rng.random() < 0.8 else p - n for p in ps]
        if out and rng.random() < 0.04:
            out[rng.randrange(len(out))] = rng.choice([n, -n - 1])
        return ['list'] + out
    if r < 0.76:
        while True:
            s = gen.rand_slice(rng, n)
            if s[3] != 0:
                return s
    if r < 0.90:
        if rng.random() < 0.04:
            return ['mask'] + [rng.randint(0, 1) for _ in range(n + 1)]
        return ['mask'] + [rng.randint(0, 1) for _ in range(n)]
    return ['all']


def rand_case(rng, store=None):
    n = rng.choice([0, 1, 2, 3, 3, 4, 4, 5, 6])
    mp = rng.choice([None, None, 1, 1, 2, 2, 3, 3, n, n + 1, max(n - 1, 1)])
    if mp == 0:
        mp = 1
    store = store or rng.choice(['stub', 'stub', 'stub', 'zip'])
    p_fail = 0.0 if store == 'zip' else rng.choice([0.0, 0.0, 0.15, 0.35])
    ops = []
    for _ in range(rng.randint(1, 9)):
        key = rand_key(rng, n)
        route = rng.choice(['direct', 'direct', 'iloc', 'loc', 'getitem'])
        if route != 'direct' and not valid(key, n):
            route = 'direct'
        if route in ('loc', 'getitem') and label_key(key, n) is None:
            route = 'iloc'
        fail = []
        if p_fail and n and rng.random() < p_fail:
            fail = sorted(rng.sample(range(n), rng.randint(1, n)))
        ops.append([route, key, fail])
    return {'k': 'bgrid', 'n': n, 'mp': mp, 'store': store, 'ops': ops}


def boundary_cases():
    """evictions exactly at capacity, capacity = length, hits that only re-order, selections that are partly loaded, empty selections,
    out-of-range keys in every state (flag off / all loaded, with and without max_persist), failures at the first / a later read"""
    out = []
    for mp in (None, 1, 2, 3, 4):
        for n in (0, 1, 2, 3, 4):
            hs = [
                [['int', i] for i in range(n)] + [['int', 0]] * (1 if n else 0) + [['all']],
                [['all'], ['int', n], ['list', n], ['all'], ['mask'] + [0] * n, ['list']],
                [['list'] + list(range(n))[::-1], ['int', -1] if n else ['all'], ['sl', None, None, -1], ['mask'] + [1] * n],
                [['int', 0], ['list', 0, n - 1], ['list', n - 1, 0], ['sl', 1, None, None], ['int', 0]] if n >= 2 else [['all'], ['all']],
                [['sl', 0, 2, None], ['sl', 1, 3, None], ['sl', 2, 4, None], ['sl', 0, 2, None], ['int', n + 1], ['mask'] + [1] * (n + 1)],
            ]
            for h in hs:
                out.append({'k': 'bgrid', 'n': n, 'mp': mp, 'store': 'stub', 'ops': [['direct', k, []] for k in h]})
                out.append({'k': 'bgrid', 'n': n, 'mp': mp, 'store': 'stub', 'ops': [['iloc' if valid(k, n) else 'direct', k, []] for k in h]})
            if n >= 2:
                for fail in ([0], [1], [n - 1], list(range(n))):
                    out.append({'k': 'bgrid', 'n': n, 'mp': mp, 'store': 'stub',
                                'ops': [['direct', ['all'], fail], ['direct', ['int', 0], []], ['direct', ['all'], []], ['direct', ['int', 1], fail],
                                        ['direct', ['list', 1, 0], fail], ['direct', ['all'], []]]})
    return out


def exhaustive_cases():
    """every history of length 3 over 3 labels from an alphabet of element / pair / triple / mask / empty keys x max_persist, failure-free,
    and every single access with every failing label set on every state reachable by one failure-free access"""
    n = 3
    alphabet = [['int', i] for i in range(n)] + [['list', i, j] for i in range(n) for j in range(n) if i != j] + \
               [['all'], ['sl', None, None, -1], ['mask', 1, 0, 1], ['list'], ['list', 2, 0, 1]]
    for mp in (None, 1, 2, 3):
        for hist in itertools.product(alphabet, repeat=3):
            yield {'k': 'bgrid', 'n': n, 'mp': mp, 'store': 'stub', 'x': 1, 'ops': [['direct', list(k), []] for k in hist]}
        fails = [list(f) for r in range(1, n + 1) for f in itertools.combinations(range(n), r)]
        for first in alphabet:
            for second in alphabet:
                for fail in fails:
                    yield {'k': 'bgrid', 'n': n, 'mp': mp, 'store': 'stub', 'x': 2,
                           'ops': [['direct', list(first), []], ['direct', list(second), fail], ['direct', ['all'], []]]}


# ------------------------------------------------------------------ the real Bus
def frames(n):
    import static_frame as sf
    if ('frames', n) not in _STATE:
        _STATE[('frames', n)] = [sf.Frame.from_records([(i, i * 2)], columns=('x', 'y'), name=LABELS[i]) for i in range(n)]
    return _STATE[('frames', n)]


def stub_store(n):
    from static_frame.core.store import Store

    class Stub(Store):
        """in-memory store: `failing` is the set of labels that cannot be read right now"""
        __slots__ = ('frames', 'failing', 'log')

        def __init__(self, frames):
            self.frames = {f.name: f for f in frames}
            self.failing = set()
            self.log = []

        def labels(self, config=None, strip_ext=True):
            return list(self.frames)

        def read(self, label, config=None, **kw):
            self.log.append(label)
            if label in self.failing:
                raise OSError(f'cannot read {label}')
            return self.frames[label]

        def read_many(self, labels, config=None, **kw):
            for label in labels:
                yield self.read(label)
    return Stub(frames(n))


def zip_path(n):
    import static_frame as sf
    if 'tmp' not in _STATE:
        _STATE['tmp'] = tempfile.TemporaryDirectory(prefix='sfv_c17gen_', dir=os.environ.get('TMPDIR') or None)
    fp = os.path.join(_STATE['tmp'].name, f'z{n}.zip')
    if not os.path.exists(fp):
        sf.Bus.from_frames(frames(n)).to_zip_pickle(fp)
    return fp


def open_bus(c):
    import static_frame as sf
    n, mp = c['n'], c['mp']
    if c['store'] == 'zip' and n > 0:
        return sf.Bus.from_zip_pickle(zip_path(n), max_persist=mp), None
    store = stub_store(n)
    return sf.Bus(sf.Bus._deferred_series(list(LABELS[:n])), store=store, config=None, max_persist=mp), store


def observe(bus):
    from static_frame.core.bus import FrameDeferred
    lru = [LABELS.index(l) for l in bus._last_accessed] if hasattr(bus, '_last_accessed') else []
    return ([int(x) for x in bus._loaded.tolist()], lru, int(bool(bus._loaded_all)), [int(v is not FrameDeferred) for v in bus._series.values])


def real_run(c):
    """[(status, loaded, lru, loaded_all, cells, labels read, returned ok)] per access"""
    bus, store = open_bus(c)
    n = c['n']
    out = []
    for route, key, fail in c['ops']:
        if store is not None:
            store.failing = {LABELS[p] for p in fail}
            del store.log[:]
        status = 'ok'
        try:
            if route == 'direct':
                bus._update_series_cache_iloc(gen.key_to_py(key))
            elif route == 'iloc':
                bus.iloc[gen.key_to_py(key)]
            elif route == 'loc':
                bus.loc[label_key(key, n)]
            else:
                bus[label_key(key, n)]
        except Exception as ex:
            status = 'err ' + err_cat(ex)
        out.append((status,) + observe(bus) + ([LABELS.index(l) for l in store.log] if store is not None else None,))
    return out


# ------------------------------------------------------------------ API used by c17.py
def cases(ctx):
    quick = ctx.tier == 'quick'
    yield from boundary_cases()
    rng = ctx.rng('bgrid')
    for _ in range(4000 if quick else 20000):
        yield rand_case(rng)
    yield from bsem_cases(3 if quick else 4)
    if not quick:
        yield from exhaustive_cases()


def search(ctx):
    rng = ctx.rng('bgrid-search')
    for _ in range(6000):
        yield rand_case(rng, store='stub')


def nontrivial(c):
    if c['k'] == 'bsem':
        return True
    return c['n'] > 0 and len(c['ops']) > 0


def model_lines(c):
    if c['k'] == 'bsem':
        return bsem_lines(c)
    n = c['n']
    ops = []
    for route, key, fail in c['ops']:
        kind, ps = positions(key, n)
        f = ' '.join(str(p) for p in fail)
        ops.append(f'(el {ps} ({f}))' if kind == 'el' else f'(arr ({" ".join(str(p) for p in ps)}) ({f}))')
    return [f'busgen.run {"N" if c["mp"] is None else c["mp"]} {n} ({" ".join(ops)})']


def parse_sexp(s):
    toks = s.replace('(', ' ( ').replace(')', ' ) ').split()
    stack = [[]]
    for t in toks:
        if t == '(':
            stack.append([])
        elif t == ')':
            top = stack.pop()
            stack[-1].append(top)
        else:
            stack[-1].append(t)
    return stack[0]


def evaluate(ctx, c, outs):
    if c['k'] == 'bsem':
        return bsem_eval(ctx, c, outs)
    fails = []
    n, mp = c['n'], c['mp']
    ctx.count('bgrid_cases')
    ctx.count(f'bgrid_store_{c["store"]}')
    ctx.count(f'bgrid_mp_{"none" if mp is None else ("1" if mp == 1 else ("ge_n" if mp >= n else "mid"))}')
    real = real_run(c)
    model = None
    if outs:
        if outs[0].startswith('ok '):
            model = parse_sexp(outs[0][3:])[0]
        else:
            fails.append(Failure('corr', f'busgen.run answered {outs[0][:100]}', c))
    ref = collections.OrderedDict()      # textbook LRU (mp None: the set of labels accessed so far)
    clean = True                         # no access of this history failed so far
    partial = False                      # an access failed after it had read at least one frame
    for i, ((route, key, fail), r) in enumerate(zip(c['ops'], real)):
        status, loaded, lru, la, cells, log = r
        kind, ps = positions(key, n)
        ps = [ps] if kind == 'el' else ps
        ctx.count(f'bgrid_key_{key[0]}')
        ctx.count(f'bgrid_route_{route}')
        inrange = all(p < n for p in ps)
        where = f'bgrid n={n} mp={mp} {c["store"]} access {i} {route} {key} failing={fail}'
        # ---- correspondence with the translated transformer
        if model is not None:
            ms, mloaded, mlru, mla, mcells = model[i]
            ms = 'ok' if ms == 'ok' else 'err ' + ms[1]
            got = (status, loaded, lru if mp is not None else [], la, cells)
            want = (ms, [int(x) for x in mloaded], [int(x) for x in mlru], int(mla), [int(x) for x in mcells])
            if got != want:
                fails.append(Failure('corr', f'{where}: real (status, _loaded, _last_accessed, _loaded_all, cells) {got} != translated {want}', c))
                break
        # ---- oracle
        need = [p for p in ps if p < n and not (real[i - 1][1][p] if i else 0)]
        if status == 'ok':
            ctx.count('bgrid_load' if need else ('bgrid_hit' if ps else 'bgrid_empty_selection'))
            if not inrange and not (la and mp is None):
                fails.append(Failure('oracle', f'{where}: a key outside the axis was accepted', c))
        else:
            ctx.count('bgrid_' + status.replace(' ', '_'))
            if status == 'err lookup' and inrange:
                fails.append(Failure('oracle', f'{where}: IndexError / KeyError for a key inside the axis', c))
            if status not in ('err lookup', 'err other'):
                fails.append(Failure('oracle', f'{where}: raised {status}', c))
            if status == 'err other':
                clean = False
                if not any(p in fail for p in need):
                    fails.append(Failure('oracle', f'{where}: the store failed although none of the labels to read {need} is failing', c))
                if log is not None and any(p not in fail for p in log):
                    partial = True
                    ctx.count('bgrid_failed_after_a_successful_read')
        if inrange and status == 'ok' and clean:
            for p in ps:
                ref.pop(p, None)
                ref[p] = None
                if mp is not None and len(ref) > mp:
                    ref.popitem(last=False)
            if mp is not None and len(ref) == mp and need:
                ctx.count('bgrid_at_capacity')
        if clean and inrange and status == 'ok' or (clean and status == 'err lookup'):
            want_loaded = [int(p in ref) for p in range(n)]
            if loaded != want_loaded:
                fails.append(Failure('oracle', f'{where}: loaded flags {loaded}, least-recently-used reference says {want_loaded}', c))
            elif mp is not None and lru != list(ref):
                fails.append(Failure('oracle', f'{where}: recency order {lru} != reference {list(ref)}', c))
        if mp is not None and sum(loaded) > mp:
            fails.append(Failure('oracle', f'{where}: {sum(loaded)} frames flagged loaded with max_persist={mp}', c))
        if mp is not None and sorted(lru) != [p for p in range(n) if loaded[p]]:
            fails.append(Failure('oracle', f'{where}: keys of _last_accessed {lru} are not the labels flagged loaded {loaded}', c))
        if la != int(all(loaded)):
            fails.append(Failure('oracle', f'{where}: _loaded_all={la} flags={loaded}', c))
        if loaded != cells:
            ctx.count('bgrid_flags_without_frames')
            fails.append(Failure('oracle', f'{where}: labels flagged loaded {loaded} but the cells holding a Frame are {cells}', c))
            break
        if len(fails) > 4:
            break
    return fails


# ------------------------------------------------------------------ bsem: the primitives
OD_OPS = ['pop', 'set', 'touch', 'del', 'first', 'last', 'poplast', 'contains', 'len']


def bsem_cases(m):
    for ln in range(0, m + 1):
        for d in itertools.permutations(range(m + 1), ln):
            for k in range(m + 1):
                yield {'k': 'bsem', 'sub': 'od', 'd': list(d), 'key': k}
    for n in range(0, 4):
        for bits in itertools.product((0, 1), repeat=n):
            for ps in [[], [0], [n - 1] if n else [0], list(range(n)), list(range(n))[::-1], [n], [0, n + 1]]:
                yield {'k': 'bsem', 'sub': 'arr', 'a': list(bits), 'ps': ps}


def bsem_lines(c):
    if c['sub'] == 'od':
        d = ' '.join(str(x) for x in c['d'])
        return [f'bussem.od {op} ({d}) {c["key"]}' for op in OD_OPS]
    a = ' '.join(str(x) for x in c['a'])
    p = c['ps'][0] if c['ps'] else 0
    return [f'bussem.take ({a}) ({" ".join(str(x) for x in c["ps"])})', f'bussem.get ({a}) {p}', f'bussem.set ({a}) {p} 1', f'bussem.set ({a}) {p} 0']


def od_real(op, d, k):
    """the real operation on a dict (`_last_accessed` is a plain dict)"""
    dd = dict.fromkeys(d)
    keys = lambda x: '(' + ' '.join(str(v) for v in x) + ')'
    try:
        if op == 'pop':
            dd.pop(k, None)
            return 'ok ' + keys(dd)
        if op == 'set':
            dd[k] = None
            return 'ok ' + keys(dd)
        if op == 'touch':
            dd[k] = dd.pop(k, None)
            return 'ok ' + keys(dd)
        if op == 'del':
            del dd[k]
            return 'ok ' + keys(dd)
        if op == 'first':
            return f'ok {next(iter(dd))}'
        if op == 'last':
            return f'ok {next(reversed(dd))}'
        if op == 'poplast':
            kk, _ = dd.popitem()
            return f'ok ({kk} {keys(dd)})'
        if op == 'contains':
            return f'ok {int(k in dd)}'
        if op == 'len':
            return f'ok {len(dd)}'
    except KeyError:
        return 'err lookup'
    except StopIteration:
        return 'err other'
    raise ValueError(op)


def bsem_eval(ctx, c, outs):
    ctx.count('bsem_' + c['sub'])
    if not outs:
        return []
    fails = []
    if c['sub'] == 'od':
        for op, out in zip(OD_OPS, outs):
            real = od_real(op, c['d'], c['key'])
            if out != real:
                fails.append(Failure('corr', f'BusSem dict primitive {op} on keys {c["d"]} with {c["key"]}: model {out}, Python {real}', c))
        return fails
    a = np.array(c['a'], dtype=bool)
    ps = c['ps']
    b = lambda x: '(' + ' '.join(str(int(v)) for v in x) + ')'
    try:
        sel = a[np.array(ps, dtype=int)] if ps else a[[]]
        real = [f'ok ({b(sel)} {int(sel.all())})']
    except IndexError:
        real = ['err lookup']
    p = ps[0] if ps else 0
    try:
        real.append(f'ok {int(a[p])}')
    except IndexError:
        real.append('err lookup')
    for v in (True, False):
        x = a.copy()
        try:
            x[p] = v
            real.append(f'ok ({b(x)} {int(x.sum())} {int(x.all())})')
        except IndexError:
            real.append('err lookup')
    for what, out, r in zip(('take', 'get', 'set True', 'set False'), outs, real):
        if out != r:
            fails.append(Failure('corr', f'BusSem array primitive {what} on {c["a"]} at {ps}: model {out}, NumPy {r}', c))
    return fails
