"""C12 - sorting permutes whole rows, orders the keys, and is stable."""
from __future__ import annotations

import itertools

import numpy as np

from check import Failure
from sfv import gen
from sfv.canon import tok, untok, err_cat, dtype_tok
from sfv.ordutil import (mtok, mtok_orderable, pykey, pyval, parse_answer, wire_list, label_toks, series_rows,
                         frame_cols, frame_dtypes)

TARGETS = ['SFModel.Props.C12']
THEOREMS = [
    'SF.C12.order_spec', 'SF.C12.order_perm', 'SF.C12.sort_perm', 'SF.C12.sort_values_perm',
    'SF.C12.sort_columns_perm', 'SF.C12.sort_values_cols_perm', 'SF.C12.series_sort_perm',
    'SF.C12.series_sort_values_perm', 'SF.C12.index_sort_perm',
    'SF.C12.sort_sorted', 'SF.C12.sort_sorted_lex', 'SF.C12.sort_stable', 'SF.C12.sort_unique',
    'SF.C12.sort_desc_reverse', 'SF.C12.sort_desc_reverse_frame', 'SF.C12.sort_desc_ties',
    'SF.C12.sort_carries', 'SF.C12.key_length_checked', 'SF.C12.one_column_key',
]
PARTIAL = []
CORR_ONLY = [
    'np.argsort(kind=util.DEFAULT_SORT_KIND) and np.lexsort themselves (parameter of the model: compared on key arrays with ties, negatives, NaN/NaT, strings)',
    'label -> position lookup of the sort_values label argument; dtype / name / index-class carry-over on the real containers (oracle)',
    'key functions (any Python callable): the model takes the container the key function returned',
]
RULE = ('seeded Series / Frames (all block layouts of sfv.gen, flat / date / hierarchical labels) with few distinct key values '
        '(ties), negatives, NaN/NaT, strings; sort_index / sort_columns / sort_values on both axes with 1..3 keys, ascending and '
        'descending, key functions returning 1-D / 2-D arrays, Series, Frame, Index; arrays of 17..40 entries so that an unstable '
        'sort kind shows; thorough adds every key vector of length <= 6 over 3 values. non-trivial = at least 2 entries to order; '
        'distinct = distinct canonical case JSON')
TRUSTED = ['NumPy sort kernels are a parameter of the model (np.argsort(kind=DEFAULT_SORT_KIND), np.lexsort): compared with the model on every run, not proved',
           "the driver's comparison leAtom (Drv/Order.lean) on value tokens is an order embedding of NumPy's order for the generated key kinds (ints, bools, floats in quarter units, ASCII strings, NaN/NaT last)"]
ASSUMPTIONS = ['key values of one key column are mutually comparable (one dtype kind); object arrays holding NaN or mixed str/number keys are outside the claim (no total order)']
BUDGET = {'quick': 60, 'thorough': 700}

INT_POOL = [-3, -2, -1, 0, 1, 2, 3, 100, -2 ** 40]
FLOAT_POOL = [-3.25, -1.5, 0.0, 0.25, 2.0, 1e10]
STR_POOL = ['a', 'b', 'ab', '', 'a b', 'Z', 'abc']
DT_OF = {'int': 'int64', 'float': 'float64', 'str': 'str', 'bool': 'bool', 'date': 'datetime64[D]'}


def rand_key_tokens(rng, n, kind, distinct=3, na=0.2):
    if kind == 'int':
        pool = [tok(v) for v in rng.sample(INT_POOL, min(distinct, len(INT_POOL)))]
    elif kind == 'float':
        pool = [tok(v) for v in rng.sample(FLOAT_POOL, min(distinct, len(FLOAT_POOL)))]
        if rng.random() < 0.7:
            pool.append('nan')
    elif kind == 'str':
        pool = [tok(v) for v in rng.sample(STR_POOL, min(distinct, len(STR_POOL)))]
    elif kind == 'bool':
        pool = ['b:0', 'b:1']
    elif kind == 'date':
        pool = [tok(np.datetime64('2020-01-01', 'D') + np.timedelta64(d, 'D')) for d in rng.sample(range(-5, 6), distinct)]
        if rng.random() < 0.5:
            pool.append('nat')
    else:
        raise ValueError(kind)
    return [rng.choice(pool) for _ in range(n)]


def rand_index(rng, n, kinds=('int', 'str', 'date', 'ih', 'auto'), name=True, nan_ok=False):
    k = rng.choice(kinds)
    if k == 'ih' and n >= 2 and nan_ok and rng.random() < 0.4:
        # depths of different kinds (text outside, floats inside, one of them NaN): each depth is ordered by its own dtype
        outers = rng.sample(['b', 'a', 'c'], rng.randint(1, min(3, n)))
        sizes = [1] * len(outers)
        for _ in range(n - len(outers)):
            sizes[rng.randrange(len(outers))] += 1
        labs = []
        for o, k2 in zip(outers, sizes):
            inner = rng.sample([3.0, 7.0, -1.0, 0.5, 2.0, 10.0], min(k2, 6))
            if rng.random() < 0.6:
                inner[rng.randrange(len(inner))] = float('nan')
            labs += [tok((o, v)) for v in inner]
        spec = {'kind': 'ih', 'labels': labs} if len(labs) == n else gen.rand_index_spec(rng, n, kinds=('ih',))
    elif k == 'ih':
        spec = gen.rand_index_spec(rng, n, kinds=('ih',))
    elif k == 'auto':
        spec = {'kind': 'auto', 'labels': gen.rand_labels(rng, n, 'auto')}
    elif k == 'date':
        spec = {'kind': 'date', 'labels': gen.rand_labels(rng, n, 'date')}
    elif n > 15:
        if k == 'int':
            spec = {'kind': 'flat', 'labels': [f'i:{v}' for v in rng.sample(range(-60, 300), n)]}
        else:
            pool = [a + b for a in 'abcdxyzABQ' for b in ('', 'a', 'b', 'z', '0', ' c')]
            spec = {'kind': 'flat', 'labels': [tok(v) for v in rng.sample(pool, n)]}
    else:
        spec = {'kind': 'flat', 'labels': gen.rand_labels(rng, n, k)}
    if name and spec['kind'] != 'auto' and rng.random() < 0.6:
        spec['name'] = tok(rng.choice(['ixn', 7]))
    return spec


# ------------------------------------------------------------------ key function descriptors
def rand_keyfn_index(rng, n, index_spec):
    """key function for sort_index / sort_columns / Index.sort (receives the index)."""
    r = rng.random()
    ih = index_spec['kind'] == 'ih'
    depth = len(untok(index_spec['labels'][0])) if ih and index_spec['labels'] else 1
    if r < 0.30:
        kind = rng.choice(['int', 'float', 'str'])
        return {'f': 'const', 'dt': DT_OF[kind], 'v': rand_key_tokens(rng, n, kind)}
    if r < 0.50:
        m = rng.choice([2, 2, 3])
        kind = rng.choice(['int', 'str', 'float'])
        return {'f': 'const2', 'cols': [{'dt': DT_OF[kind], 'v': rand_key_tokens(rng, n, kind, distinct=2)} for _ in range(m)]}
    if r < 0.60:
        perm = list(range(n))
        rng.shuffle(perm)
        return {'f': 'constidx', 'dt': 'int64', 'v': [tok(p) for p in perm]}
    if r < 0.72 and ih:
        return {'f': 'depth', 'd': rng.randrange(depth)}
    if r < 0.82 and ih:
        return {'f': 'revdepth'}
    if r < 0.90 and n > 0:
        return {'f': 'badlen'}
    if r < 0.95 and n > 0:
        kind = rng.choice(['int', 'str'])
        return {'f': 'col1', 'dt': DT_OF[kind], 'v': rand_key_tokens(rng, n, kind)}
    if index_spec['kind'] == 'flat' and all(t.startswith('i:') for t in index_spec['labels']):
        return {'f': 'neg'}
    return {'f': 'const', 'dt': 'int64', 'v': rand_key_tokens(rng, n, 'int')}


def rand_keyfn_values(rng, n, nkeys, numeric):
    """key function for sort_values (receives the selected Series / Frame)."""
    r = rng.random()
    if r < 0.25:
        kind = rng.choice(['int', 'float', 'str'])
        return {'f': 'const', 'dt': DT_OF[kind], 'v': rand_key_tokens(rng, n, kind)}
    if r < 0.40:
        kind = rng.choice(['int', 'str'])
        return {'f': 'const2', 'cols': [{'dt': DT_OF[kind], 'v': rand_key_tokens(rng, n, kind, distinct=2)} for _ in range(rng.choice([2, 3]))]}
    if r < 0.50:
        kind = rng.choice(['int', 'float'])
        return {'f': 'constser', 'dt': DT_OF[kind], 'v': rand_key_tokens(rng, n, kind)}
    if r < 0.60:
        kind = rng.choice(['int', 'str'])
        return {'f': 'constframe', 'cols': [{'dt': DT_OF[kind], 'v': rand_key_tokens(rng, n, kind, distinct=2)} for _ in range(rng.choice([1, 2]))]}
    if r < 0.70:
        kind = rng.choice(['int', 'str'])
        return {'f': 'col1', 'dt': DT_OF[kind], 'v': rand_key_tokens(rng, n, kind)}
    if r < 0.78 and n > 0:
        return {'f': 'badlen'}
    if numeric:
        return {'f': rng.choice(['neg', 'abs', 'values'])}
    if numeric is None:  # heterogeneous selection: `.values` would coerce the key columns to one object array
        return {'f': 'const', 'dt': 'int64', 'v': rand_key_tokens(rng, n, 'int')}
    return {'f': 'values'}


def make_keyfn(desc, axis_for_2d=0):
    """Python callable for a key function descriptor. `axis_for_2d`: 0 -> 2-D keys have one row per
    entry (sort_index, sort_values axis=1); 1 -> one column per entry (sort_values axis=0)."""
    import static_frame as sf
    f = desc['f']
    if f == 'const':
        a = gen.col_array(desc['dt'], desc['v'])
        return lambda c: a
    if f in ('const2', 'constframe', 'col1'):
        cols = desc['cols'] if 'cols' in desc else [{'dt': desc['dt'], 'v': desc['v']}]
        arrs = [gen.col_array(c['dt'], c['v']) for c in cols]
        a2 = np.empty((len(arrs[0]), len(arrs)), dtype=np.result_type(*[a.dtype for a in arrs]))
        for j, a in enumerate(arrs):
            a2[:, j] = a
        if axis_for_2d == 1:
            a2 = a2.T.copy()
        if f == 'constframe':
            fr = sf.Frame(a2)
            return lambda c: fr
        return lambda c: a2
    if f == 'constser':
        s = sf.Series(gen.col_array(desc['dt'], desc['v']))
        return lambda c: s
    if f == 'constidx':
        ix = sf.Index(gen.col_array(desc['dt'], desc['v']))
        return lambda c: ix
    if f == 'depth':
        d = desc['d']
        return lambda c: c.values_at_depth(d)
    if f == 'revdepth':
        return lambda c: c.values[:, ::-1]
    if f == 'neg':
        return lambda c: -(c.values if isinstance(c, sf.Index) else c)
    if f == 'abs':
        return lambda c: abs(c)
    if f == 'values':
        return lambda c: c.values
    if f == 'badlen':
        def bad(c):
            v = c.values
            if v.ndim == 1:
                return v[:-1]
            return v[:-1] if axis_for_2d == 0 else v[:, :-1]
        return bad
    raise ValueError(desc)


def keyfn_columns(desc, base_cols):
    """Reference key columns (primary first; python values) after the key function; `base_cols` are the key
    columns without key function.  None -> the key function must be rejected (wrong length)."""
    f = desc['f']
    if f in ('const', 'constser', 'constidx', 'col1'):
        return [[pyval(x) for x in gen.col_array(desc['dt'], desc['v'])]]
    if f in ('const2', 'constframe'):
        return [[pyval(x) for x in gen.col_array(c['dt'], c['v'])] for c in desc['cols']]
    if f == 'depth':
        return [base_cols[desc['d']]]
    if f == 'revdepth':
        return list(reversed(base_cols))
    if f == 'neg':
        return [[-x for x in col] for col in base_cols]
    if f == 'abs':
        return [[abs(x) for x in col] for col in base_cols]
    if f == 'values':
        return base_cols
    if f == 'badlen':
        return None
    raise ValueError(desc)


# ------------------------------------------------------------------ case generation
def series_case(rng, n, big=False):
    kind = rng.choice(['int', 'float', 'str', 'bool', 'date'])
    method = rng.choice(['sort_values', 'sort_values', 'sort_index'])
    index = rand_index(rng, n, kinds=('int', 'str', 'auto') if big else ('int', 'str', 'date', 'ih', 'auto'), nan_ok=method == 'sort_index')
    c = {'k': 'series', 'dt': DT_OF[kind], 'v': rand_key_tokens(rng, n, kind, distinct=rng.choice([2, 3, 3, 5])),
         'index': index, 'name': tok(rng.choice([None, 'sname', 3])), 'method': method, 'asc': rng.random() < 0.5, 'keyfn': None}
    if rng.random() < 0.35 or (method == 'sort_index' and big):
        if method == 'sort_index':
            c['keyfn'] = rand_keyfn_index(rng, n, index)
        else:
            kf = rand_keyfn_values(rng, n, 1, kind in ('int', 'float'))
            if kf['f'] in ('const2', 'constframe', 'badlen'):
                kf = {'f': 'const', 'dt': 'int64', 'v': rand_key_tokens(rng, n, 'int')}
            c['keyfn'] = kf
    return _drop_object_key_with_nan(c, index)


FAMILIES = {
    'numf': ['int64', 'float64'],
    'numb': ['int64', 'bool'],
    'str': ['str'],
    'any': ['int64', 'float64', 'bool', 'str', 'object', 'datetime64[D]'],
}


def frame_spec(rng, n, m, family, index_kinds, column_kinds):
    dts = []
    for j in range(m):
        if dts and rng.random() < 0.5:
            dts.append(dts[-1])
        else:
            dts.append(rng.choice(FAMILIES[family]))
    cols = []
    for dt in dts:
        if dt == 'object':
            cols.append({'dt': dt, 'v': [gen.rand_value(rng, dt) for _ in range(n)]})
        else:
            kind = {'int64': 'int', 'float64': 'float', 'str': 'str', 'bool': 'bool', 'datetime64[D]': 'date'}[dt]
            cols.append({'dt': dt, 'v': rand_key_tokens(rng, n, kind, distinct=rng.choice([2, 3]),
                                                        na=0.2)})
    spec = {'index': rand_index(rng, n, index_kinds), 'columns': rand_index(rng, m, column_kinds),
            'cols': cols, 'layout': gen.rand_layout(rng, dts), 'rows': n,
            'name': tok(rng.choice([None, 'fname', 5]))}
    return spec


def frame_case(rng, max_n=6, max_m=5, big=False):
    method = rng.choice(['sort_values', 'sort_values', 'sort_values', 'sort_index', 'sort_columns'])
    axis = 1
    if method == 'sort_values':
        axis = rng.choice([1, 1, 0])
    if big:
        n, m = (rng.randint(17, 30), rng.randint(1, 4)) if not (method == 'sort_columns' or axis == 0) else (rng.randint(1, 3), rng.randint(17, 26))
    else:
        n, m = rng.randint(0, max_n), rng.randint(1, max_m)  # zero-column frames with rows: known finding F28 (C04)
    if method == 'sort_values' and axis == 0:
        family = rng.choice(['numf', 'numb', 'str'])
    else:
        family = rng.choice(['any', 'any', 'numf', 'str'])
    ik = ('int', 'str', 'auto') if big else ('int', 'str', 'date', 'ih', 'auto')
    spec = frame_spec(rng, n, m, family, ik, ik if not big else ('int', 'str', 'auto'))
    c = {'k': 'frame', 'spec': spec, 'method': method, 'axis': axis, 'asc': rng.random() < 0.5, 'keyfn': None,
         'labels': [], 'single': False}
    if m >= 2 and rng.random() < (0.5 if (method == 'sort_columns' or axis == 0) else 0.15):
        c['grown'] = True      # a FrameGO that grew by its last column straight before the sort (build_grown_frame)
    if method == 'sort_values':
        extent = m if axis == 1 else n
        if extent == 0:
            return None
        if axis == 1:
            cand = [j for j in range(m) if spec['cols'][j]['dt'] != 'object']
        else:
            cand = list(range(n))
        if not cand:
            return None
        nk = min(len(cand), rng.choice([1, 1, 2, 2, 3]))
        c['labels'] = rng.sample(cand, nk)
        c['single'] = nk == 1 and rng.random() < 0.6
        if rng.random() < 0.3:
            sel_dts = {spec['cols'][j]['dt'] for j in (c['labels'] if axis == 1 else range(m))}
            numeric = True if sel_dts <= {'int64', 'float64'} else (False if len(sel_dts) == 1 or axis == 0 else None)
            c['keyfn'] = rand_keyfn_values(rng, n if axis == 1 else m, nk, numeric)
            if (spec['columns'] if axis == 1 else spec['index'])['kind'] == 'ih':
                # the key function receives self._extract(selected labels): with hierarchical labels a selection that is
                # not tree-ordered cannot be built at all (IndexHierarchy limit, selection = C04): keep it tree-ordered
                c['labels'] = sorted(c['labels'])
    else:
        ispec = spec['index'] if method == 'sort_index' else spec['columns']
        if rng.random() < 0.3 or big:
            c['keyfn'] = rand_keyfn_index(rng, n if method == 'sort_index' else m, ispec)
    return c


def index_case(rng, n):
    index = rand_index(rng, n, kinds=('int', 'str', 'date', 'ih'), nan_ok=True)
    c = {'k': 'index', 'index': index, 'asc': rng.random() < 0.5, 'keyfn': None}
    if rng.random() < 0.4:
        c['keyfn'] = rand_keyfn_index(rng, n, index)
    return _drop_object_key_with_nan(c, index)


def np_case(rng, n, nkeys):
    cols = []
    for _ in range(nkeys):
        kind = rng.choice(['int', 'float', 'str', 'bool', 'date'])
        cols.append({'dt': DT_OF[kind], 'v': rand_key_tokens(rng, n, kind, distinct=rng.choice([2, 3, 4]))})
    return {'k': 'np', 'cols': cols}


VARIANTS = [('int64', ['i:0', 'i:-1', 'i:2']), ('float64', ['f:0.5', 'f:-1.0', 'nan']), ('str', ['s:"b"', 's:"a"', 's:"ab"'])]


def exhaustive_cases(rng):
    """every key vector of length <= 6 over 3 values (1 key), <= 4 (2 keys), <= 2 (3 keys): Series.sort_values,
    Frame.sort_values on both axes, both directions."""
    for ln in range(0, 7):
        for vec in itertools.product(range(3), repeat=ln):
            dt, vals = VARIANTS[rng.randrange(3)]
            v = [vals[x] for x in vec]
            for asc in (True, False):
                yield {'k': 'series', 'dt': dt, 'v': v, 'index': {'kind': 'auto', 'labels': [f'i:{i}' for i in range(ln)]},
                       'name': 'N', 'method': 'sort_values', 'asc': asc, 'keyfn': None}
            if ln:
                yield exhaustive_frame(rng, [v], dt, rng.random() < 0.5, rng.choice([0, 1]))
    for nk, maxlen in ((2, 4), (3, 2)):
        for ln in range(1, maxlen + 1):
            for vecs in itertools.product(itertools.product(range(3), repeat=ln), repeat=nk):
                dt, vals = VARIANTS[rng.randrange(3)]
                yield exhaustive_frame(rng, [[vals[x] for x in vec] for vec in vecs], dt, rng.random() < 0.5, rng.choice([0, 1]))


def exhaustive_frame(rng, keycols, dt, asc, axis):
    """Frame whose key lines are `keycols` (as columns for axis 1, as rows for axis 0) plus a payload line."""
    ln = len(keycols[0])
    nk = len(keycols)
    if axis == 1:
        cols = [{'dt': dt, 'v': kc} for kc in keycols] + [{'dt': 'int64', 'v': [f'i:{i}' for i in range(ln)]}]
        dts = [c['dt'] for c in cols]
        spec = {'index': {'kind': 'flat', 'labels': gen.rand_labels(rng, ln, 'str')}, 'columns': {'kind': 'auto', 'labels': [f'i:{j}' for j in range(nk + 1)]},
                'cols': cols, 'layout': gen.rand_layout(rng, dts), 'rows': ln, 'name': 'N'}
    else:
        cols = [{'dt': dt, 'v': [kc[j] for kc in keycols]} for j in range(ln)]
        dts = [dt] * ln
        spec = {'index': {'kind': 'auto', 'labels': [f'i:{i}' for i in range(nk)]}, 'columns': {'kind': 'flat', 'labels': gen.rand_labels(rng, ln, 'str')},
                'cols': cols, 'layout': gen.rand_layout(rng, dts), 'rows': nk, 'name': 'N'}
    return {'k': 'frame', 'spec': spec, 'method': 'sort_values', 'axis': axis, 'asc': asc, 'keyfn': None,
            'labels': list(range(nk)), 'single': nk == 1 and rng.random() < 0.5}


def cases(ctx):
    rng = ctx.rng('main')
    quick = ctx.tier == 'quick'
    for _ in range(500 if quick else 4000):
        yield np_case(rng, rng.choice([0, 1, 2, 5, 9, 20, 33]), rng.choice([1, 1, 2, 3]))
    for i in range(7000 if quick else 250000):
        r = rng.random()
        if r < 0.25:
            c = series_case(rng, rng.randint(0, 7))
        elif r < 0.30:
            c = series_case(rng, rng.randint(17, 40), big=True)
        elif r < 0.36:
            c = frame_case(rng, big=True)
        elif r < 0.44:
            c = index_case(rng, rng.randint(0, 7))
        else:
            c = frame_case(rng)
        if c is not None:
            yield c
    if not quick:
        yield from exhaustive_cases(ctx.rng('exhaustive'))


def search(ctx):
    rng = ctx.rng('search')
    for _ in range(40000):
        r = rng.random()
        if r < 0.4:
            n = rng.randint(2, 40)
            c = series_case(rng, n, big=n > 15)
        else:
            c = frame_case(rng, big=rng.random() < 0.3)
        if c is not None:
            yield c


def _drop_object_key_with_nan(c, index_spec):
    """a key function handing back the depths as ONE object array puts NaN next to numbers inside an object column: NumPy's
    order of such a column is not defined (every comparison with NaN is False) - outside the claim"""
    kf = c.get('keyfn')
    if kf and kf.get('f') == 'revdepth' and any('nan' in t for t in index_spec['labels']):
        c['keyfn'] = None
    return c


def nontrivial(c):
    if c['k'] == 'np':
        return len(c['cols'][0]['v']) >= 2
    if c['k'] == 'series':
        return len(c['v']) >= 2
    if c['k'] == 'index':
        return len(c['index']['labels']) >= 2
    spec = c['spec']
    return (spec['rows'] >= 2 and len(spec['cols']) >= 1) if (c['method'] == 'sort_index' or (c['method'] == 'sort_values' and c['axis'] == 1)) \
        else (len(spec['cols']) >= 2 and spec['rows'] >= 1)


# ------------------------------------------------------------------ reference
def label_depth_cols(index_spec, n):
    """key columns (primary first) of an index without key function: one per depth."""
    labs = [untok(t) for t in index_spec['labels']]
    if index_spec['kind'] == 'ih' and labs:
        d = len(labs[0])
        return [[lab[i] for lab in labs] for i in range(d)]
    return [labs]


def base_key_columns(c):
    """(n entries, key columns primary first as python values, index spec of the sorted axis)"""
    if c['k'] == 'series':
        n = len(c['v'])
        if c['method'] == 'sort_index':
            return n, label_depth_cols(c['index'], n)
        return n, [[pyval(x) for x in gen.col_array(c['dt'], c['v'])]]
    if c['k'] == 'index':
        n = len(c['index']['labels'])
        return n, label_depth_cols(c['index'], n)
    spec = c['spec']
    n, m = spec['rows'], len(spec['cols'])
    if c['method'] == 'sort_index':
        return n, label_depth_cols(spec['index'], n)
    if c['method'] == 'sort_columns':
        return m, label_depth_cols(spec['columns'], m)
    arrays = [gen.col_array(col['dt'], col['v']) for col in spec['cols']]
    if c['axis'] == 1:
        return n, [[pyval(x) for x in arrays[j]] for j in c['labels']]
    return m, [[pyval(arrays[j][i]) for j in range(m)] for i in c['labels']]


def expected_order(c):
    """('ok', positions) | ('err', category) from the Python reference: stable `sorted`, reversed when descending."""
    n, cols = base_key_columns(c)
    if c.get('keyfn'):
        cols = keyfn_columns(c['keyfn'], cols)
        if cols is None:
            return n, None, ('err', 'shape')
    keys = [tuple(pykey(col[i]) for col in cols) for i in range(n)]
    order = sorted(range(n), key=lambda i: keys[i])
    if not c['asc']:
        order = order[::-1]
    return n, cols, ('ok', order)


def cfs_wire(cols, one_column_2d=False):
    """`one_column_2d`: the key function returned a 2-D array of one column (sent as a one-column `multi`)."""
    toks = [[mtok(x) for x in col] for col in cols]
    if not all(mtok_orderable(t) for col in toks for t in col):
        return None
    if len(toks) == 1 and not one_column_2d:
        return '(single ' + ' '.join(toks[0]) + ')'
    return '(multi ' + ' '.join(wire_list(col) for col in toks) + ')'


def model_lines(c):
    if c['k'] == 'np':
        cols = [[mtok(x) for x in gen.col_array(col['dt'], col['v'])] for col in c['cols']]
        if len(cols) == 1:
            return [f'order.argsort {wire_list(cols[0])}']
        return [f'order.lexsort ({" ".join(wire_list(col) for col in cols)}) {len(cols[0])}']
    kf = c.get('keyfn')
    n, cols = base_key_columns(c)
    if kf:
        if kf['f'] == 'badlen':
            cols = [col[:-1] for col in cols[:1]]
        else:
            cols = keyfn_columns(kf, cols)
    w = cfs_wire(cols, one_column_2d=bool(kf and kf['f'] == 'col1'))
    if w is None:
        return []
    lines = [f'order.sifo {n} {w} {int(c["asc"])}']
    if c['k'] == 'frame' and not kf:
        fw = frame_wire(c)
        if fw:
            m = {'sort_index': 'sort_index', 'sort_columns': 'sort_columns'}.get(c['method']) or \
                ('sort_values_rows' if c['axis'] == 1 else 'sort_values_cols')
            lines.append(f'order.frame {m} {int(c["asc"])} ({" ".join(str(x) for x in c["labels"])}) N {fw}')
    return lines


def labels_wire(index_spec):
    out = []
    for t in index_spec['labels']:
        v = untok(t)
        out.append(wire_list([mtok(x) for x in v]) if index_spec['kind'] == 'ih' else wire_list([mtok(v)]))
    return out


def frame_wire(c):
    spec = c['spec']
    arrays = [gen.col_array(col['dt'], col['v']) for col in spec['cols']]
    n = spec['rows']
    rows = [wire_list([mtok(a[i]) for a in arrays]) for i in range(n)]
    dts = gen.spec_dtypes(spec)
    if c.get('grown') and grown_applies(spec):
        # the last column arrived on its own: it has the dtype of its own array, the others those of the head's blocks
        dts = gen.spec_dtypes(grown_head_spec(spec)) + gen.spec_dtypes({**spec, 'cols': spec['cols'][-1:], 'layout': [[1, False]]})
    return ('(frame ' + mtok(untok(spec['name'])) + ' (index ' + ' '.join(labels_wire(spec['index'])) + ') (columns '
            + ' '.join(labels_wire(spec['columns'])) + ') (dtypes ' + ' '.join(dts) + ') (rows ' + ' '.join(rows) + '))')


# ------------------------------------------------------------------ evaluation
def evaluate(ctx, c, outs):
    if c['k'] == 'np':
        return eval_np(ctx, c, outs)
    return eval_sort(ctx, c, outs)


def eval_np(ctx, c, outs):
    from static_frame.core import util
    fails = []
    arrays = [gen.col_array(col['dt'], col['v']) for col in c['cols']]
    n = len(arrays[0])
    kind = util.DEFAULT_SORT_KIND
    ctx.count(f'np_keys_{len(arrays)}')
    if len(arrays) == 1:
        real = np.argsort(arrays[0], kind=kind).tolist()
    else:
        real = np.lexsort(arrays).tolist()
    ref = sorted(range(n), key=lambda i: tuple(pykey(a[i]) for a in reversed(arrays)))
    if real != ref:
        fails.append(Failure('oracle', f'np.argsort(kind=util.DEFAULT_SORT_KIND={kind!r}) / np.lexsort is not the stable order on {c["cols"]}: {real} vs {ref}', c))
    if outs:
        st, val = parse_answer(outs[0])
        got = [int(x) for x in val] if st == 'ok' else val
        if got != real:
            fails.append(Failure('corr', f'argsortStable/lexsort model {got} vs numpy {real}', c))
    return fails


def build_series(c):
    import static_frame as sf
    arr = gen.col_array(c['dt'], c['v'])
    return sf.Series(arr, index=gen.build_index(c['index']), name=untok(c['name']))


def grown_head_spec(spec):
    """`spec` without its last column (the last block shrinks by one)"""
    import copy
    head = copy.deepcopy(spec)
    head['cols'] = head['cols'][:-1]
    head['columns']['labels'] = head['columns']['labels'][:-1]
    lay = [list(b) for b in head['layout']]
    lay[-1][0] -= 1
    head['layout'] = [b for b in lay if b[0] > 0]
    return head


def grown_applies(spec):
    return len(spec['cols']) >= 2 and len(spec['columns']['labels']) == len(spec['cols'])


def build_grown_frame(spec):
    """The frame of `spec` as a FrameGO that was built without its last column, had every cache of its axes read, and then
    received that column by assignment: the sort that follows is the FIRST thing that looks at the grown axis."""
    import copy
    import static_frame as sf
    m = len(spec['cols'])
    if not grown_applies(spec):
        return gen.build_frame(spec, cls=sf.FrameGO)
    head = grown_head_spec(spec)
    g = gen.build_frame(head, cls=sf.FrameGO)
    # read what a user reads before going on: labels, values, length, per-depth arrays of a hierarchy
    _ = (g.columns.values, len(g.columns), list(g.columns), g.values, g.shape)
    if g.columns.depth > 1:
        _ = [g.columns.values_at_depth(d) for d in range(g.columns.depth)]
    full_cols = gen.build_index(spec['columns'])
    if full_cols is None:          # automatic integer columns: the next integer
        label = m - 1
    else:
        last = full_cols.values[-1]
        label = tuple(last) if full_cols.depth > 1 else last
        label = label.item() if isinstance(label, np.generic) and not isinstance(label, np.datetime64) else label
    g[label] = gen.col_array(spec['cols'][-1]['dt'], spec['cols'][-1]['v'])
    return g


def run_real(c):
    """Run the real method; returns ('ok', result, source) | ('err', cat, exception)."""
    import static_frame as sf
    kf = c.get('keyfn')
    try:
        if c['k'] == 'series':
            s = build_series(c)
            key = make_keyfn(kf) if kf else None
            res = getattr(s, c['method'])(ascending=c['asc'], key=key)
            return ('ok', res, s)
        if c['k'] == 'index':
            ix = gen.build_index(c['index'])
            key = make_keyfn(kf) if kf else None
            return ('ok', ix.sort(ascending=c['asc'], key=key), ix)
        f = build_grown_frame(c['spec']) if c.get('grown') else gen.build_frame(c['spec'])
        if c['method'] in ('sort_index', 'sort_columns'):
            key = make_keyfn(kf) if kf else None
            return ('ok', getattr(f, c['method'])(ascending=c['asc'], key=key), f)
        axis = c['axis']
        src = f.columns if axis == 1 else f.index
        labs = [src.values[p] if src.depth == 1 else tuple(src.values[p]) for p in c['labels']]
        if src.depth > 1:
            label = labs if not c['single'] else labs[0]
            # a tuple is one hierarchical label; a list of tuples selects several
        else:
            label = labs[0] if c['single'] else labs
        key = make_keyfn(kf, axis_for_2d=0 if axis == 1 else 1) if kf else None
        return ('ok', f.sort_values(label, ascending=c['asc'], axis=axis, key=key), f)
    except Exception as ex:
        return ('err', err_cat(ex), ex)


def eval_sort(ctx, c, outs):
    import static_frame as sf
    fails = []
    kf = c.get('keyfn')
    n, cols, exp = expected_order(c)
    where = f'{c["k"]}.{c.get("method", "sort")}' + (f'(axis={c["axis"]})' if c['k'] == 'frame' and c['method'] == 'sort_values' else '') \
        + f' asc={c["asc"]} key={kf["f"] if kf else None}'
    ctx.count(f'{c["k"]}_{c.get("method", "sort")}' + (f'_axis{c["axis"]}' if c['k'] == 'frame' and c['method'] == 'sort_values' else ''))
    ctx.count('asc' if c['asc'] else 'desc')
    ctx.count(f'keyfn_{kf["f"] if kf else "none"}')
    if cols is not None:
        ctx.count(f'nkeys_{min(len(cols), 4)}')
        keys = [tuple(pykey(col[i]) for col in cols) for i in range(n)]
        if len(set(keys)) < n:
            ctx.count('has_ties')
    if n >= 17:
        ctx.count('big_n')
    if c['k'] == 'frame':
        ctx.count(f'layout_blocks_{min(len(c["spec"]["layout"]), 4)}')
        ctx.count(f'index_{c["spec"]["index"]["kind"]}')
    elif 'index' in c:
        ctx.count(f'index_{c["index"]["kind"]}')
    real = run_real(c)

    if kf and kf['f'] == 'col1':
        ctx.count('col1_keyfn')

    # --- expected rejection
    if exp[0] == 'err':
        ctx.count('expected_error')
        if real[0] != 'err':
            fails.append(Failure('oracle', f'{where}: key function result of the wrong length accepted', c))
        elif real[1] != exp[1]:
            fails.append(Failure('oracle', f'{where}: wrong-length key function result raised {type(real[2]).__name__}: {real[2]} (expected RuntimeError)', c))
        if outs:
            st, val = parse_answer(outs[0])
            if (st, val) != exp:
                fails.append(Failure('corr', f'{where}: model {outs[0]} vs expected {exp}', c))
        return fails
    if real[0] == 'err':
        fails.append(Failure('oracle', f'{where}: raised {type(real[2]).__name__}: {real[2]}', c,
                             detail={'exc': type(real[2]).__name__, 'msg': str(real[2])[:60],
                                     'ih_non_tree': sorted_axis_non_tree(c, exp[1])}))
        return fails
    res, src = real[1], real[2]
    order = exp[1]

    # --- the arrangement: rows (or columns) as whole units with their labels
    what = compare_result(c, res, src, order)
    if what:
        fails.append(Failure('oracle', f'{where}: {what}', c))
        return fails

    # --- model
    if outs:
        ctx.count('model_orders_compared')
        st, val = parse_answer(outs[0])
        got = [int(x) for x in val] if st == 'ok' else (st, val)
        real_order = result_order(c, res, src)
        if got != real_order:
            fails.append(Failure('corr', f'{where}: sort_index_for_order model {got} vs real arrangement {real_order}', c))
        if len(outs) > 1:
            ctx.count('model_frames_compared')
            w = compare_model_frame(c, res, outs[1])
            if w:
                fails.append(Failure('corr', f'{where}: Frame model: {w}', c))
    return fails


def unit_list(c, obj):
    """The sorted units of a container as hashable tokens: (label, payload)."""
    import static_frame as sf
    if isinstance(obj, sf.Series):
        return series_rows(obj)
    if isinstance(obj, sf.Frame):
        cols = frame_cols(obj)
        if c['method'] == 'sort_columns' or (c['method'] == 'sort_values' and c['axis'] == 0):
            labs = label_toks(obj.columns)
            dts = frame_dtypes(obj)
            return [(labs[j], tuple(cols[j]), dts[j]) for j in range(obj.shape[1])]
        labs = label_toks(obj.index)
        return [(labs[i], tuple(col[i] for col in cols)) for i in range(obj.shape[0])]
    return [(t,) for t in label_toks(obj)]


def result_order(c, res, src):
    """positions (in the source) of the result's units, by label (labels are unique)."""
    su = unit_list(c, src)
    pos = {}
    for i, u in enumerate(su):
        pos.setdefault(u[0], i)
    try:
        return [pos[u[0]] for u in unit_list(c, res)]
    except KeyError:
        return None


def compare_result(c, res, src, order):
    import static_frame as sf
    if type(res) is not type(src):
        return f'result is a {type(res).__name__}, source a {type(src).__name__}'
    su, ru = unit_list(c, src), unit_list(c, res)
    if sorted(map(repr, su)) != sorted(map(repr, ru)):
        return f'result is not a rearrangement of the input (label, row) pairs: {ru} vs input {su}'
    expu = [su[i] for i in order]
    if ru != expu:
        return f'arrangement differs from stable sorted(reference){"" if c["asc"] else " reversed"}: got labels {[u[0] for u in ru]} expected {[u[0] for u in expu]}'
    # carried over
    if isinstance(res, sf.Series):
        if tok(res.name) != tok(src.name):
            return f'name {res.name!r} != {src.name!r}'
        if res.dtype != src.dtype:
            return f'dtype {res.dtype} != {src.dtype}'
        if tok(res.index.name) != tok(src.index.name):
            return f'index name {res.index.name!r} != {src.index.name!r}'
        if res.index.depth != src.index.depth or (src.index.depth == 1 and res.index.values.dtype.kind != src.index.values.dtype.kind):
            return 'index depth / dtype kind changed'
    elif isinstance(res, sf.Frame):
        colsort = c['method'] == 'sort_columns' or (c['method'] == 'sort_values' and c['axis'] == 0)
        if tok(res.name) != tok(src.name):
            return f'name {res.name!r} != {src.name!r}'
        if tok(res.index.name) != tok(src.index.name) or tok(res.columns.name) != tok(src.columns.name):
            return 'index / columns name changed'
        if colsort:
            if label_toks(res.index) != label_toks(src.index):
                return 'index (other axis) changed'
        else:
            if label_toks(res.columns) != label_toks(src.columns):
                return 'columns (other axis) changed'
            if frame_dtypes(res) != frame_dtypes(src):
                return f'dtypes changed: {frame_dtypes(res)} vs {frame_dtypes(src)}'
        if res.index.depth != src.index.depth or res.columns.depth != src.columns.depth:
            return 'index depth changed'
    else:
        if tok(res.name) != tok(src.name):
            return f'index name {res.name!r} != {src.name!r}'
        if res.depth != src.depth:
            return 'depth changed'
    return None


def compare_model_frame(c, res, out):
    st, val = parse_answer(out)
    if st != 'ok':
        return f'model answered {out[:80]}'
    # val = ['frame', name, ['index', ...], ['columns', ...], ['dtypes', ...], ['rows', ...]]
    def labs(ix):
        return [[mtok(x) for x in (lab if ix.depth > 1 else (lab,))] for lab in ix]
    cols = []
    for j in range(res.shape[1]):
        a = res._blocks._extract_array(column_key=j)
        cols.append([mtok(x) for x in a])
    rows = [[col[i] for col in cols] for i in range(res.shape[0])]
    got = {'name': val[1], 'index': val[2][1:], 'columns': val[3][1:], 'dtypes': val[4][1:], 'rows': val[5][1:]}
    real = {'name': mtok(res.name), 'index': labs(res.index), 'columns': labs(res.columns), 'dtypes': frame_dtypes(res), 'rows': rows}
    for k in ('name', 'index', 'columns', 'dtypes', 'rows'):
        if got[k] != real[k]:
            return f'{k}: model {got[k]} vs real {real[k]}'
    return None


def sorted_axis_spec(c):
    if c['k'] in ('series', 'index'):
        return c['index']
    if c['method'] == 'sort_columns' or (c['method'] == 'sort_values' and c['axis'] == 0):
        return c['spec']['columns']
    return c['spec']['index']


def is_tree_form(labels):
    """labels: list of tuples; every prefix group must be contiguous (what IndexHierarchy of this version can hold)."""
    if not labels:
        return True
    depth = len(labels[0])
    for d in range(1, depth):
        seen, last = set(), object()
        for lab in labels:
            p = lab[:d]
            if p != last:
                if p in seen:
                    return False
                seen.add(p)
                last = p
    return True


def sorted_axis_non_tree(c, order):
    spec = sorted_axis_spec(c)
    if spec['kind'] != 'ih':
        return False
    labs = [untok(t) for t in spec['labels']]
    return not is_tree_form([labs[i] for i in order])


def classify(f):
    d = f.detail or {}
    if f.kind == 'oracle' and d.get('exc') == 'ErrorInitIndex' and d.get('ih_non_tree') and 'invalid tree-form' in d.get('msg', ''):
        return 'F51-sort-ih-non-tree-arrangement'
    kf = f.case.get('keyfn') or {}
    if f.kind == 'oracle' and kf.get('f') == 'col1' and f.case['k'] == 'series' and f.case.get('method') == 'sort_values' \
            and d.get('exc'):
        return 'F67-series-sort-values-key-2d-one-column'
    return None
