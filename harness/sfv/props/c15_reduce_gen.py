"""C15 (axis reductions) - the DECISION SKELETONS of the reduction helpers TRANSLATED from the source
(tools/py2lean_reduce.py -> lean/SFModel/Gen/Reduce.lean, bridge lemmas lean/SFModel/BridgeReduce.lean).

Grid cross-check, every run, of the generated functions (through the driver, ops `rgen.*` of Drv/ReduceGen.lean) against
the REAL functions of static_frame/core/util.py called directly:

  rg_axis     util.ufunc_axis_skipna with INSTRUMENTED callables as `ufunc` / `ufunc_skipna` (they record which one is
              called, with which array and keyword arguments; a probe can compare equal to np.sum ... so that the
              `ufunc in UFUNC_AXIS_STR_TO_OBJ` test sees the function it stands for): the ROUTE (early NaN / which kernel /
              the array handed over: as is, None dropped, None -> NaN, astype(object)) for every dtype kind x 1-D / 2-D x
              skipna x function object x missing-cell pattern; plus the VALUE with the real NumPy pairs
              (np.sum/np.nansum, prod, min, max) where NumPy defines it
  rg_logical  util._ufunc_logical_skipna with a probe standing for np.all / np.any / another function: exception class,
              constant, np.full shape, or the array handed to the ufunc (cell by cell); plus the value with the real
              np.all / np.any on 1-D arrays
  rg_arg      util._argminmax_1d / _argminmax_2d with probes: early NaN / full-NaN / which kernel / masked afterwards
              (the probes return a sentinel array, the route answered by Lean is replayed on the sentinel and compared with
              what the real function returned: object identity, dtype, NaN positions); plus values with np.argmin ...
  rg_table    the descriptor table (composable, size_one_unity, dtypes, dispatcher, defaults, the two function objects)
              against what ContainerOperand really passes; ufunc_all ... ufunc_nanany by behaviour; the partial pairs;
              interface.UFUNC_AXIS_SKIPNA / UFUNC_SHAPE_SKIPNA
"""
from __future__ import annotations

import itertools
import math
import warnings

import numpy as np

from check import Failure
from sfv.ordutil import parse_answer

TARGETS = ['SFModel.BridgeReduce']
THEOREMS = [
    'SF.BridgeReduce.desc_bridge', 'SF.BridgeReduce.pair_bridge', 'SF.BridgeReduce.via_shape_bridge', 'SF.BridgeReduce.defaults_bridge',
    'SF.BridgeReduce.interface_pairs_bridge', 'SF.BridgeReduce.wrappers_bridge', 'SF.BridgeReduce.arg_pairs_bridge',
    'SF.BridgeReduce.axis_route_bridge', 'SF.BridgeReduce.ufunc_axis_skipna_dispatch', 'SF.BridgeReduce.ufunc_axis_skipna_bridge',
    'SF.BridgeReduce.ufunc_axis_skipna_datetime', 'SF.BridgeReduce.ufunc_axis_skipna_bridge_datetime_partial',
    'SF.BridgeReduce.ufunc_axis_skipna_datetime_counterexample',
    'SF.BridgeReduce.ufunc_axis_skipna_object_noskip', 'SF.BridgeReduce.ufunc_axis_skipna_object_2d', 'SF.BridgeReduce.ufunc_axis_skipna_object_1d',
    'SF.BridgeReduce.ufunc_axis_skipna_bridge_object_partial', 'SF.BridgeReduce.ufunc_axis_skipna_object_counterexample',
    'SF.BridgeReduce.logical_route_bridge', 'SF.BridgeReduce.logical_route_other', 'SF.BridgeReduce.ufunc_logical_skipna_bridge_gen',
    'SF.BridgeReduce.ufunc_logical_skipna_bridge', 'SF.BridgeReduce.ufunc_logical_skipna_bridge_bytes_partial',
    'SF.BridgeReduce.ufunc_logical_skipna_bytes_counterexample', 'SF.BridgeReduce.logical_pair_dispatch',
    'SF.BridgeReduce.argminmax_1d_route_bridge', 'SF.BridgeReduce.argminmax_1d_bridge',
    'SF.BridgeReduce.argminmax_2d_route_bridge', 'SF.BridgeReduce.argminmax_2d_bridge',
]
PARTIAL = [
    'SF.BridgeReduce.ufunc_axis_skipna_bridge_datetime_partial: datetime64 / timedelta64 arrays equal Red.apply only with skipna off or without NaT - '
    'the source always takes the plain kernel ("dates do not support skipna functions"), so min / max with skipna=True answer NaT '
    '(ufunc_axis_skipna_datetime_counterexample)',
    'SF.BridgeReduce.ufunc_axis_skipna_bridge_object_partial: object arrays equal Red.apply unless a 1-D vector holds nothing but None with skipna on '
    '(the source answers NaN, the 2-D path and every other dtype the identity: finding F40; ufunc_axis_skipna_object_counterexample)',
    "SF.BridgeReduce.ufunc_logical_skipna_bridge_bytes_partial: all / any over a bytes array equal logicalSkipna only when no element is b'' - the source "
    "compares with the str '' and NumPy finds a bytes element unequal to it whatever it holds (finding F92; ufunc_logical_skipna_bytes_counterexample)",
]
RULE = ('translated skeletons: every dtype kind (b i u f c U S M m O) x 1-D vectors (empty, no / some / only missing cells, None and NaN for object) and '
        '2-D arrays (0 x 2, 2 x 0, 1 x 1, 2 x 3, 3 x 2) x skipna x function object (np.sum / min / max / prod / another; np.all / any / another) x axis; '
        'arg-min/max: every pattern of {0, 1, 2, NaN} up to length 3 (4 thorough) and small 2-D arrays')
TRUSTED = ['tools/py2lean_reduce.py (translator of the branch skeletons of util.ufunc_axis_skipna, _ufunc_logical_skipna, _argminmax_1d/_2d and of the '
           'descriptor table of container.py) and lean/SFModel/ReduceSem.lean (what a preparation does to the cells, how a route is run): both '
           'cross-checked against the real functions on a grid each run (cases rg_*: route, array handed to the kernel cell by cell, value)']

KINDS = 'biufcUSMmO'
AXIS_UFS = ('np_sum', 'np_min', 'np_max', 'np_prod', 'other')
NP_OF = {'np_sum': np.sum, 'np_min': np.min, 'np_max': np.max, 'np_prod': np.prod, 'np_all': np.all, 'np_any': np.any}
PAIRS = {'sum': (np.sum, np.nansum), 'prod': (np.prod, np.nanprod), 'min': (np.min, np.nanmin), 'max': (np.max, np.nanmax)}
DAY0 = np.datetime64('2020-01-01', 'D')


# --------------------------------------------------------------------------- arrays from cells
def enc(kind, t, truth=False):
    """cell token (int | 'nan' | 'None') -> element of an array of dtype kind `kind`; `truth`: 0 / 1 are a falsy / truthy value"""
    if t == 'None':
        return None
    if t == 'nan':
        return {'f': np.nan, 'c': complex(np.nan, 0), 'M': np.datetime64('NaT', 'D'), 'm': np.timedelta64('NaT', 'D'), 'O': np.nan}[kind]
    v = int(t)
    if truth:
        return {'b': bool(v), 'i': 3 * v, 'u': 3 * v, 'f': 2.5 * v, 'c': (1 + 1j) * v, 'U': 'ab' if v else '', 'S': b'ab' if v else b'',
                'M': DAY0, 'm': np.timedelta64(2, 'D'), 'O': 'x' if v else 0}[kind]
    return {'b': bool(v), 'i': v, 'u': v, 'f': float(v), 'c': complex(v, 0), 'U': str(v), 'S': str(v).encode(),
            'M': DAY0 + np.timedelta64(v, 'D'), 'm': np.timedelta64(v, 'D'), 'O': v}[kind]


DTYPES = {'b': bool, 'i': np.int64, 'u': np.uint8, 'f': np.float64, 'c': np.complex128, 'U': '<U2', 'S': 'S2', 'M': 'M8[D]', 'm': 'm8[D]',
          'O': object}


def build(kind, cells, shape, truth=False):
    a = np.empty(len(cells), dtype=DTYPES[kind])
    for i, t in enumerate(cells):
        a[i] = enc(kind, t, truth)
    a = a.reshape(shape)
    a.flags.writeable = False
    return a


def dec(x, truth=False):
    """element -> cell token"""
    if x is None:
        return 'None'
    if isinstance(x, (np.datetime64, np.timedelta64)):
        if np.isnat(x):
            return 'nan'
        if truth:
            return 1
        return int((x - DAY0) / np.timedelta64(1, 'D')) if isinstance(x, np.datetime64) else int(x / np.timedelta64(1, 'D'))
    if isinstance(x, (float, np.floating)) and math.isnan(float(x)):
        return 'nan'
    if isinstance(x, (complex, np.complexfloating)):
        if math.isnan(complex(x).real):
            return 'nan'
        return int(bool(x)) if truth else int(complex(x).real)
    if truth:
        return int(bool(x))
    if isinstance(x, (bytes, np.bytes_)):
        return int(x.decode())
    return int(x)


def flat_tokens(v, truth=False):
    return [dec(x, truth) for x in (v.reshape(-1) if v.dtype.kind in 'mM' else v.reshape(-1).tolist())]


def wire(cells):
    return '(' + ' '.join(str(t) for t in cells) + ')'


def show_sexp(x):
    return x if isinstance(x, str) else '(' + ' '.join(show_sexp(y) for y in x) + ')'


# --------------------------------------------------------------------------- instrumented callables
class Probe:
    """stands for a function object: records its calls, answers a sentinel; compares (and hashes) equal to `eq`"""

    def __init__(self, name, log, eq=None, ret=None):
        self.name, self.log, self.eq, self.ret = name, log, eq, ret

    def __call__(self, v, **kw):
        self.log.append((self.name, v, kw))
        return self.ret(v, kw) if self.ret is not None else SENTINEL

    def __eq__(self, other):
        return other is self or (self.eq is not None and other is self.eq)

    def __ne__(self, other):
        return not self.__eq__(other)

    def __hash__(self):
        return hash(self.eq) if self.eq is not None else id(self)

    def __repr__(self):
        return f'<probe {self.name}>'


class _Sentinel:
    def __repr__(self):
        return '<sentinel>'


SENTINEL = _Sentinel()


# --------------------------------------------------------------------------- cases
def patterns(kind, truth=False):
    """1-D cell patterns of an array of this kind (boundary first)"""
    hi = 1 if (truth or kind == 'b') else 3
    if truth and kind in 'Mm':
        vals = [[], [1], [1, 1]]
    else:
        vals = [[], [1], [0], [1, 0, hi], [hi, 1]]
    out = [list(p) for p in vals]
    if kind in 'fcMmO':
        out += [['nan'], [1, 'nan'], ['nan', 'nan'], ['nan', 1, hi if not (truth and kind in 'Mm') else 1]]
        if not (truth and kind in 'Mm'):
            out += [[0, 'nan']]
    if kind == 'O':
        out += [['None'], ['None', 'None'], [1, 'None'], ['None', 'nan'], [hi, 'nan', 'None', 0], ['None', 0]]
    return out


def shapes_2d(kind, truth=False):
    """(shape, flat cells) of 2-D arrays: rows x cols, row-major"""
    pats = patterns(kind, truth)
    out = [((0, 2), []), ((2, 0), []), ((1, 1), [1])]
    rows3 = [p for p in pats if len(p) == 3]
    rows2 = [p for p in pats if len(p) == 2]
    for a, b in itertools.product(rows3, rows3):
        out.append(((2, 3), a + b))
    for a, b, c in itertools.product(rows2, rows2, rows2):
        out.append(((3, 2), a + b + c))
    return out


def cases(ctx):
    quick = ctx.tier == 'quick'
    rng = ctx.rng('rgen')
    yield {'k': 'rg_table'}
    for kind in KINDS:
        for p in patterns(kind):
            yield {'k': 'rg_axis', 'kind': kind, 'shape': [len(p)], 'cells': p}
        s2 = shapes_2d(kind)
        if quick and len(s2) > 14:
            s2 = s2[:3] + rng.sample(s2[3:], 11)
        for shape, cells in s2:
            yield {'k': 'rg_axis', 'kind': kind, 'shape': list(shape), 'cells': cells}
    for kind in KINDS:
        for p in patterns(kind, truth=True):
            yield {'k': 'rg_logical', 'kind': kind, 'shape': [len(p)], 'cells': p}
        s2 = shapes_2d(kind, truth=True)
        if quick and len(s2) > 12:
            s2 = s2[:3] + rng.sample(s2[3:], 9)
        for shape, cells in s2:
            yield {'k': 'rg_logical', 'kind': kind, 'shape': list(shape), 'cells': cells}
    # arg-min / arg-max: float and datetime vectors, every missing pattern of a short vector, ties
    vals = [0, 1, 2]
    for n in range(0, 4 if quick else 5):
        for p in itertools.product(vals + ['nan'], repeat=n):
            yield {'k': 'rg_arg', 'kind': 'f' if (n + sum(1 for x in p if x == 'nan')) % 3 else 'M', 'shape': [n], 'cells': list(p)}
    for shape in ((0, 2), (2, 0), (1, 1), (2, 2), (2, 3), (3, 2)):
        n = shape[0] * shape[1]
        pool = list(itertools.product([0, 1, 'nan'], repeat=n)) if n <= 4 else None
        count = (40 if quick else 400)
        for j in range(len(pool) if pool is not None else count):
            p = list(pool[j]) if pool is not None else [rng.choice([0, 1, 2, 'nan', 'nan']) for _ in range(n)]
            yield {'k': 'rg_arg', 'kind': 'f', 'shape': list(shape), 'cells': p}


def nontrivial(c):
    return c['k'] == 'rg_table' or len(c['cells']) > 0


# --------------------------------------------------------------------------- driver lines
def axis_combos(c):
    return [(sk, uf) for sk in (True, False) for uf in AXIS_UFS]


def val_fns(kind):
    return {'b': ('sum', 'prod', 'min', 'max'), 'i': ('sum', 'prod', 'min', 'max'), 'u': ('sum', 'prod', 'min', 'max'),
            'f': ('sum', 'prod', 'min', 'max'), 'c': ('sum', 'prod'), 'M': ('min', 'max'), 'm': ('sum', 'min', 'max'),
            'O': ('sum', 'prod', 'min', 'max'), 'U': (), 'S': ()}[kind]


def lines_of(c):
    """the vectors a call reduces: the array itself (1-D), its rows (2-D, axis=1)"""
    shape, cells = c['shape'], c['cells']
    if len(shape) == 1:
        return [cells]
    return [cells[i * shape[1]:(i + 1) * shape[1]] for i in range(shape[0])]


def logical_combos(c):
    axes = (0,) if len(c['shape']) == 1 else (0, 1)
    return [(uf, sk, ax) for uf in ('np_all', 'np_any', 'other') for sk in (True, False) for ax in axes]


def arg_lines(c, axis):
    shape, cells = c['shape'], c['cells']
    if len(shape) == 1:
        return [cells]
    rows = [cells[i * shape[1]:(i + 1) * shape[1]] for i in range(shape[0])]
    if axis == 1:
        return rows
    return [[rows[i][j] for i in range(shape[0])] for j in range(shape[1])]


def model_lines(c):
    k = c['k']
    if k == 'rg_table':
        return ['rgen.consts'] + [f'rgen.desc {fn}' for fn in FNS]
    ndim = len(c['shape'])
    if k == 'rg_axis':
        out = [f'rgen.axis {c["kind"]} {ndim} {int(sk)} {uf} {wire(c["cells"])}' for sk, uf in axis_combos(c)]
        for fn in val_fns(c['kind']):
            for sk in (True, False):
                for l in lines_of(c):
                    out.append(f'rgen.axis.val {fn} {c["kind"]} {ndim} {int(sk)} np_{fn} {wire(l)}')
        return out
    if k == 'rg_logical':
        out = [f'rgen.logical {uf} {c["kind"]} {int(sk)} {ndim} {ax} {c["shape"][0]} {wire(c["cells"])}' for uf, sk, ax in logical_combos(c)]
        if ndim == 1:
            for uf in ('np_all', 'np_any'):
                for sk in (True, False):
                    out.append(f'rgen.logical.val {uf} {c["kind"]} {int(sk)} {wire(c["cells"])}')
        return out
    if k == 'rg_arg':
        out = []
        if ndim == 1:
            for sk in (True, False):
                out.append(f'rgen.arg1d {int(sk)} {wire(c["cells"])}')
                for which in ('min', 'max'):
                    out.append(f'rgen.arg1d.val {which} {int(sk)} {wire(c["cells"])}')
        else:
            for axis in (0, 1):
                w = '(' + ' '.join(wire(l) for l in arg_lines(c, axis)) + ')'
                for sk in (True, False):
                    out.append(f'rgen.arg2d {int(sk)} {w}')
                    for which in ('min', 'max'):
                        out.append(f'rgen.arg2d.val {which} {int(sk)} {w}')
        return out
    return []


# --------------------------------------------------------------------------- evaluation
def evaluate(ctx, c, outs):
    with warnings.catch_warnings():
        warnings.simplefilter('ignore')
        with np.errstate(all='ignore'):
            if c['k'] == 'rg_table':
                return eval_table(ctx, c, outs)
            if c['k'] == 'rg_axis':
                return eval_axis(ctx, c, outs)
            if c['k'] == 'rg_logical':
                return eval_logical(ctx, c, outs)
            return eval_arg(ctx, c, outs)


def observe_axis(arr, skipna, uf, axis):
    from static_frame.core.util import ufunc_axis_skipna
    log = []
    pu = Probe('ufunc', log, eq=NP_OF.get(uf))
    ps = Probe('ufuncSkipna', log)
    out_token = None
    try:
        r = ufunc_axis_skipna(arr, skipna=skipna, axis=axis, ufunc=pu, ufunc_skipna=ps, out=out_token)
    except Exception as ex:
        return ['raised', type(ex).__name__, str(ex)[:80]], None
    if not log:
        if isinstance(r, float) and math.isnan(r):
            return ['retNan'], None
        return ['returned', repr(r)[:60]], None
    if len(log) != 1 or r is not SENTINEL:
        return ['calls', len(log)], None
    name, v, kw = log[0]
    how = {'same': v is arr, 'dtype': v.dtype.kind, 'kw_ok': set(kw) == {'axis', 'out'} and kw['axis'] == axis and kw['out'] is out_token}
    return ['call', name, flat_tokens(v)], how


def expected_axis(route):
    """(route, cells) parsed from the driver -> what observe_axis should see"""
    r, v = route
    if r[0] == 'retNan':
        return ['retNan'], None
    aexp = r[2]
    toks = [t if t in ('nan', 'None') else int(t) for t in v]
    return ['call', r[1], toks], aexp


def aexp_dtype_is_object(aexp, kind):
    """dtype kind of the array the expression denotes"""
    if isinstance(aexp, list) and aexp[0] == 'astypeObj':
        return True
    if isinstance(aexp, list):
        return aexp_dtype_is_object(aexp[1], kind)
    return kind == 'O'


def eval_axis(ctx, c, outs):
    fails = []
    kind, shape, cells = c['kind'], c['shape'], c['cells']
    arr = build(kind, cells, shape)
    ndim = len(shape)
    ctx.count(f'rg_axis_{kind}_{ndim}d')
    it = iter(outs)
    for sk, uf in axis_combos(c):
        axis = 0 if ndim == 1 else (1 if (len(cells) + int(sk)) % 2 else 0)
        obs, how = observe_axis(arr, sk, uf, axis)
        if not outs:
            continue
        st, val = parse_answer(next(it))
        where = f'ufunc_axis_skipna(kind {kind}, shape {shape}, cells {cells}, skipna={sk}, ufunc~{uf})'
        if st != 'ok':
            fails.append(Failure('corr', f'{where}: driver answered {st} {val}', c))
            continue
        exp, aexp = expected_axis(val)
        ctx.count('rg_axis_route_' + show_sexp(val[0]).replace(' ', '_'))
        if obs != exp:
            fails.append(Failure('corr', f'{where}: translated route {show_sexp(val[0])} hands over {exp}, the real function {obs}', c))
            continue
        if how is not None:
            if how['same'] != (aexp == 'array'):
                fails.append(Failure('corr', f'{where}: the kernel got {"the argument itself" if how["same"] else "another array"}, translated {show_sexp(aexp)}', c))
            if (how['dtype'] == 'O') != aexp_dtype_is_object(aexp, kind):
                fails.append(Failure('corr', f'{where}: the kernel got dtype kind {how["dtype"]}, translated {show_sexp(aexp)}', c))
            if not how['kw_ok']:
                fails.append(Failure('corr', f'{where}: axis / out are not passed through to the kernel', c))
    # ---- values with the real NumPy pairs
    from static_frame.core.util import ufunc_axis_skipna
    lines = lines_of(c)
    for fn in val_fns(kind):
        u, us = PAIRS[fn]
        for sk in (True, False):
            model = [next(it) for _ in lines] if outs else None
            if not value_domain(kind, fn, sk, lines, ndim):
                ctx.count('rg_axis_val_outside_numpy_domain')
                continue
            try:
                r = ufunc_axis_skipna(arr, skipna=sk, axis=0 if ndim == 1 else 1, ufunc=u, ufunc_skipna=us, out=None)
                real = [val_tok(r)] if ndim == 1 else [val_tok(x) for x in (r if r.dtype.kind in 'mM' else r.tolist())]
            except Exception:
                real = 'err'
            ctx.count('rg_axis_val_compared')
            if model is None:
                continue
            if real == 'err':
                ok = any(m.startswith('err') for m in model) or not model
            else:
                ok = len(real) == len(model) and all(m == f'ok {t}' for m, t in zip(model, real))
            if not ok:
                fails.append(Failure('corr', f'ufunc_axis_skipna(kind {kind}, shape {shape}, cells {cells}, skipna={sk}) with np.{fn}: '
                                             f'translated route evaluates to {model}, the real function gives {real}', c, detail={'level': 'value'}))
            # the property on this call, independent of the model (where the bridge lemma is unconditional)
            # (datetime64 / timedelta64: the statement of the property too - finding F93, the NaT is not skipped)
            if kind in 'biufMm' and real != 'err':
                exp = [pyref(fn, l, sk) for l in lines]
                if 'err' not in exp and exp != real:
                    fails.append(Failure('oracle', f'ufunc_axis_skipna(kind {kind}, shape {shape}, cells {cells}, skipna={sk}) with np.{fn} gives {real}, '
                                                   f'the per-vector reduction {exp}', c, detail={'kind': 'rg_axis_value', 'fn': fn, 'skipna': sk}))
    return fails


def value_domain(kind, fn, sk, lines, ndim):
    """where NumPy defines the pair on this array (see the module docstring of c15.py for the object-array findings)"""
    if kind == 'O':
        for l in lines:
            if not sk and 'None' in l:
                return False          # None + 1 raises inside np.sum: a kernel matter
            if fn in ('min', 'max'):
                if not sk and 'nan' in l:
                    return False      # F43: Python comparisons do not propagate NaN
                rest = [t for t in l if t != 'None'] if (sk and ndim == 1) else l
                if sk and rest and all(t in ('nan', 'None') for t in rest):
                    return False      # F45: np.nanmin on an all-NaN object vector
    return True


def val_tok(x):
    if isinstance(x, (np.datetime64, np.timedelta64)):
        return 'N' if np.isnat(x) else dec(x)
    if x is None:
        return 'N'
    if isinstance(x, (complex, np.complexfloating)):
        return 'N' if math.isnan(complex(x).real) else int(complex(x).real)
    if isinstance(x, (float, np.floating)) and math.isnan(float(x)):
        return 'N'
    return int(x)


def pyref(fn, line, sk):
    """the property on one vector of integers and NaN: 'N' = missing, 'err' = not defined"""
    present = [int(t) for t in line if t not in ('nan', 'None')]
    if len(present) != len(line) and not sk:
        return 'N'
    if fn == 'sum':
        return sum(present)
    if fn == 'prod':
        r = 1
        for v in present:
            r *= v
        return r
    if not line:
        return 'err'
    if not present:
        return 'N'
    return min(present) if fn == 'min' else max(present)


def observe_logical(arr, uf, sk, axis):
    from static_frame.core.util import _ufunc_logical_skipna
    log = []
    pu = Probe('ufunc', log, eq=NP_OF.get(uf))
    try:
        r = _ufunc_logical_skipna(arr, ufunc=pu, skipna=sk, axis=axis, out=None)
    except Exception as ex:
        return ['raise', type(ex).__name__], None
    if log:
        if len(log) != 1 or r is not SENTINEL:
            return ['calls', len(log)], None
        _, v, kw = log[0]
        return ['call', flat_tokens(v, truth=True)], {'kw_ok': set(kw) == {'axis', 'out'} and kw['axis'] == axis and kw['out'] is None,
                                                       'same': v is arr, 'bool': v.dtype.kind == 'b'}
    if isinstance(r, (bool, np.bool_)):
        return ['retBool', int(bool(r))], None
    if isinstance(r, np.ndarray) and r.dtype == bool and r.ndim == 1 and (r.all() or not r.any()):
        return ['retFull', r.shape[0], int(bool(r.all())) if r.size else None], None
    return ['returned', repr(r)[:60]], None


def eval_logical(ctx, c, outs):
    from static_frame.core.util import _ufunc_logical_skipna
    fails = []
    kind, shape, cells = c['kind'], c['shape'], c['cells']
    arr = build(kind, cells, shape, truth=True)
    ndim = len(shape)
    ctx.count(f'rg_logical_{kind}_{ndim}d')
    it = iter(outs)
    for uf, sk, axis in logical_combos(c):
        obs, how = observe_logical(arr, uf, sk, axis)
        if not outs:
            continue
        st, val = parse_answer(next(it))
        where = f'_ufunc_logical_skipna(kind {kind}, shape {shape}, cells {cells}, ufunc~{uf}, skipna={sk}, axis={axis})'
        if st != 'ok':
            fails.append(Failure('corr', f'{where}: driver answered {st} {val}', c))
            continue
        r, v = val
        ctx.count('rg_logical_route_' + (r[0] if r[0] != 'call' else 'call_' + show_sexp(r[1]).replace(' ', '_')))
        if r[0] == 'raise':
            exp = ['raise', r[1]]
        elif r[0] == 'retBool':
            exp = ['retBool', int(r[1])]
        elif r[0] == 'retFull':
            n = shape[int(r[1])]
            exp = ['retFull', n, int(r[2]) if n else None]
        else:
            exp = ['call', [t if t in ('nan', 'None') else int(t) for t in v]]
        if obs != exp:
            fails.append(Failure('corr', f'{where}: translated route {show_sexp(r)} means {exp}, the real function {obs}', c))
            continue
        if how is not None:
            lexp = r[1]
            if how['same'] != (lexp == 'array'):
                fails.append(Failure('corr', f'{where}: the ufunc got {"the argument itself" if how["same"] else "another array"}, translated {show_sexp(lexp)}', c))
            if not how['kw_ok']:
                fails.append(Failure('corr', f'{where}: axis / out are not passed through to the ufunc', c))
    if ndim == 1:
        for uf in ('np_all', 'np_any'):
            for sk in (True, False):
                try:
                    r = _ufunc_logical_skipna(arr, ufunc=NP_OF[uf], skipna=sk)
                    real = f'ok {int(bool(r))}'
                except (TypeError, ValueError):
                    real = 'err value'
                except NotImplementedError:
                    real = 'err other'
                ctx.count('rg_logical_val_compared')
                if outs:
                    m = next(it)
                    if m != real:
                        fails.append(Failure('corr', f'_ufunc_logical_skipna(kind {kind}, cells {cells}, {uf}, skipna={sk}): translated route evaluates to '
                                                     f'{m}, the real function gives {real}', c, detail={'level': 'value'}))
                # the property on a bytes vector, independent of the model (the other kinds: cases `logical` of c15.py)
                if kind == 'S':
                    truth = [bool(t) for t in cells]
                    exp = f'ok {int(all(truth) if uf == "np_all" else any(truth))}'
                    if real != exp:
                        fails.append(Failure('oracle', f'_ufunc_logical_skipna(bytes array, truthiness {cells}, {uf}, skipna={sk}): {real}, expected {exp}', c,
                                             detail={'kind': 'rg_logical_bytes', 'uf': uf}))
    return fails


def arg_array(c):
    return build(c['kind'], c['cells'], c['shape'])


def eval_arg(ctx, c, outs):
    from static_frame.core import util
    fails = []
    arr = arg_array(c)
    shape, cells = c['shape'], c['cells']
    it = iter(outs)
    if len(shape) == 1:
        ctx.count('rg_arg_1d')
        for sk in (True, False):
            log = []
            pu, ps = Probe('ufunc', log), Probe('ufuncSkipna', log)
            try:
                r = util._argminmax_1d(arr, ufunc=pu, ufunc_skipna=ps, skipna=sk)
                if not log:
                    obs = ['retNan'] if isinstance(r, float) and math.isnan(r) else ['returned', repr(r)[:40]]
                elif len(log) == 1 and r is SENTINEL and log[0][1] is arr and not log[0][2]:
                    obs = ['call', log[0][0], 'array']
                else:
                    obs = ['calls', len(log)]
            except Exception as ex:
                obs = ['raised', type(ex).__name__]
            vals = {}
            for which in ('min', 'max'):
                try:
                    rv = (util.argmin_1d if which == 'min' else util.argmax_1d)(arr, skipna=sk)
                    vals[which] = 'ok N' if (isinstance(rv, float) and math.isnan(rv)) else f'ok {int(rv)}'
                except ValueError:
                    vals[which] = 'err value'
            if not outs:
                continue
            st, val = parse_answer(next(it))
            where = f'_argminmax_1d(kind {c["kind"]}, cells {cells}, skipna={sk})'
            ctx.count('rg_arg1d_route_' + show_sexp(val).replace(' ', '_'))
            if st != 'ok' or list(val) != obs:
                fails.append(Failure('corr', f'{where}: translated route {show_sexp(val) if st == "ok" else val}, the real function {obs}', c))
            for which in ('min', 'max'):
                m = next(it)
                if c['kind'] == 'M' and sk and 'nan' in cells:
                    # np.nanargmin / np.nanargmax do not know NaT (finding F94): the kernel is not the one of ReduceSem here;
                    # the property itself, independent of the model: the position of the first best PRESENT cell
                    exp = arg_ref(which, cells)
                    if vals[which] != exp:
                        fails.append(Failure('oracle', f'{where} arg{which}: the real function gives {vals[which]}, the first best present cell is {exp}', c,
                                             detail={'kind': 'rg_arg_datetime', 'skipna': sk}))
                    continue
                if m != vals[which]:
                    fails.append(Failure('corr', f'{where} arg{which}: translated route evaluates to {m}, the real function gives {vals[which]}', c,
                                         detail={'level': 'value'}))
        return fails
    ctx.count('rg_arg_2d')
    for axis in (0, 1):
        nlines = shape[1] if axis == 0 else shape[0]
        lines = arg_lines(c, axis)
        mask = np.array([any(t == 'nan' for t in l) for l in lines], dtype=bool)
        for sk in (True, False):
            log = []
            sent = {'ufunc': np.arange(nlines) + 100, 'ufuncSkipna': np.arange(nlines) + 200}
            pu = Probe('ufunc', log, ret=lambda v, kw: sent['ufunc'])
            ps = Probe('ufuncSkipna', log, ret=lambda v, kw: sent['ufuncSkipna'])
            try:
                r = util._argminmax_2d(arr, ufunc=pu, ufunc_skipna=ps, skipna=sk, axis=axis)
                obs = None
            except Exception as ex:
                r, obs = None, f'raised {type(ex).__name__}: {ex}'
            vals = {}
            for which in ('min', 'max'):
                try:
                    rv = (util.argmin_2d if which == 'min' else util.argmax_2d)(arr, skipna=sk, axis=axis)
                    vals[which] = 'ok (' + ' '.join('N' if (isinstance(x, float) and math.isnan(x)) else str(int(x)) for x in rv.tolist()) + ')'
                except ValueError:
                    vals[which] = 'err value'
            if not outs:
                continue
            st, val = parse_answer(next(it))
            where = f'_argminmax_2d(shape {shape}, cells {cells}, skipna={sk}, axis={axis})'
            ctx.count('rg_arg2d_route_' + show_sexp(val).replace(' ', '_'))
            what = None
            if st != 'ok' or obs is not None:
                what = f'driver {st} {val}; real {obs}'
            else:
                what = replay_2d(val, r, log, sent, mask, arr, axis)
            if what:
                fails.append(Failure('corr', f'{where}: translated route {show_sexp(val) if st == "ok" else val}: {what}', c))
            for which in ('min', 'max'):
                m = next(it)
                if m != vals[which]:
                    fails.append(Failure('corr', f'{where} arg{which}: translated route evaluates to {m}, the real function gives {vals[which]}', c,
                                         detail={'level': 'value'}))
    return fails


def arg_ref(which, cells):
    present = [(int(t), i) for i, t in enumerate(cells) if t != 'nan']
    if not present:
        return 'ok N'
    best = min(v for v, _ in present) if which == 'min' else max(v for v, _ in present)
    return f'ok {next(i for v, i in present if v == best)}'


def replay_2d(route, real, log, sent, mask, arr, axis):
    """replay the route Lean answered on the sentinels; compare with what the real function returned"""
    if route[0] == 'retFullNan':
        if log:
            return f'a kernel was called ({log[0][0]})'
        if not (isinstance(real, np.ndarray) and real.dtype == np.float64 and real.shape == mask.shape and np.isnan(real).all()):
            return f'the real function returned {real!r}'
        return None
    p = route[1]
    steps = []
    while p[0] != 'call':
        steps.append(p)
        p = p[1]
    if len(log) != 1 or log[0][0] != p[1] or log[0][1] is not arr or log[0][2] != {'axis': axis}:
        return f'kernel calls {[(n, kw) for n, _, kw in log]}, expected one call of {p[1]}(array, axis={axis})'
    if p[2] != 'array':
        return f'kernel argument {show_sexp(p[2])}'
    exp = sent[p[1]]
    if not steps:
        return None if real is exp else f'the real function did not return the kernel result itself: {real!r}'
    for s in reversed(steps):
        if s[0] == 'astypeFloat':
            exp = exp.astype(np.float64)
        elif s[0] == 'setNan':
            if show_sexp(s[2]) != '(anyAxis isna)':
                return f'mask {show_sexp(s[2])}'
            exp = exp.copy()
            exp[mask] = np.nan
    if not (isinstance(real, np.ndarray) and real.dtype == exp.dtype and np.array_equal(real, exp, equal_nan=True)):
        return f'the real function returned {real!r}, the route gives {exp!r}'
    return None


FNS = ('all', 'any', 'sum', 'min', 'max', 'mean', 'median', 'std', 'var', 'prod', 'cumsum', 'cumprod')


def classify(f):
    """known findings of findings/C15.json reproduced by the grid: predicates on the call, never on the value alone"""
    d, c = f.detail or {}, f.case or {}
    if f.kind != 'oracle':
        return None
    # any / all over a bytes array holding the empty bytes string
    if d.get('kind') == 'rg_logical_bytes' and c.get('k') == 'rg_logical' and c.get('kind') == 'S' and 0 in c.get('cells', []):
        return 'F92-c15-bytes-empty-string-truthy'
    # datetime64 / timedelta64 with a NaT and skipna=True
    if d.get('kind') == 'rg_axis_value' and c.get('k') == 'rg_axis' and c.get('kind') in ('M', 'm') and d.get('skipna') is True \
            and 'nan' in c.get('cells', []):
        return 'F93-c15-datetime-skipna-not-skipped'
    # arg-min / arg-max of datetime64 cells with a NaT and skipna=True
    if d.get('kind') == 'rg_arg_datetime' and c.get('k') == 'rg_arg' and c.get('kind') == 'M' and d.get('skipna') is True and 'nan' in c.get('cells', []):
        return 'F94-c15-datetime-argminmax-answers-nat'
    return None


def uf_name(f):
    """a function object of the real code -> constructor name of ReduceSem.UF"""
    from functools import partial
    from static_frame.core import util
    if isinstance(f, partial):
        if set(f.keywords) != {'ddof'} or f.args:
            return f'partial({f.func.__name__}, {f.keywords})'
        f = f.func
    for n in ('ufunc_all', 'ufunc_any', 'ufunc_nanall', 'ufunc_nanany'):
        if f is getattr(util, n):
            return n
    for n in dir(np):
        if n in ('all', 'any', 'sum', 'nansum', 'prod', 'nanprod', 'min', 'nanmin', 'max', 'nanmax', 'mean', 'nanmean', 'median', 'nanmedian',
                 'std', 'nanstd', 'var', 'nanvar', 'cumsum', 'nancumsum', 'cumprod', 'nancumprod', 'argmin', 'nanargmin', 'argmax', 'nanargmax') \
                and f is getattr(np, n):
            return 'np_' + n
    return repr(f)


def eval_table(ctx, c, outs):
    import inspect
    from static_frame.core import interface, util
    from static_frame.core.container import ContainerOperand
    fails = []
    seen = {}

    class P(ContainerOperand):
        def _ufunc_axis_skipna(self, **kw):
            seen['via'] = 0
            return kw

        def _ufunc_shape_skipna(self, **kw):
            seen['via'] = 1
            return kw
    p = P()
    real_rows = {}
    for fn in FNS:
        kw = getattr(p, fn)()
        dts = kw['dtypes']
        d = {(): 'row', (np.dtype(bool),): 'bool', (np.dtype(float),): 'float', (np.dtype(float), np.dtype(complex)): 'inexact'}.get(tuple(dts), repr(dts))
        sig = inspect.signature(getattr(ContainerOperand, fn))
        real_rows[fn] = [str(int(kw['composable'])), str(int(kw['size_one_unity'])), d, str(seen['via']), str(sig.parameters['axis'].default),
                         str(int(sig.parameters['skipna'].default)), uf_name(kw['ufunc']), uf_name(kw['ufunc_skipna'])]
        # the defaults are really passed on
        if kw['axis'] != sig.parameters['axis'].default or kw['skipna'] != sig.parameters['skipna'].default:
            fails.append(Failure('corr', f'ContainerOperand.{fn}: axis / skipna are not passed through', c))
    # the wrappers: what they pass on to _ufunc_logical_skipna (recorded by standing in for it)
    real_w = []
    saved = util._ufunc_logical_skipna
    arr0 = np.array([1.0, 0.0])
    try:
        for n in ('ufunc_all', 'ufunc_any', 'ufunc_nanall', 'ufunc_nanany'):
            got = []
            util._ufunc_logical_skipna = lambda *a, **kw: got.append((a, kw))
            getattr(util, n)(arr0, axis=1, out=None)
            a, kw = got[0] if len(got) == 1 else ((), {})
            if len(a) == 1 and a[0] is arr0 and set(kw) == {'ufunc', 'skipna', 'axis', 'out'} and kw['axis'] == 1 and kw['out'] is None:
                real_w.append([uf_name(kw['ufunc']), str(int(kw['skipna']))])
            else:
                real_w.append([repr(got)[:80]])
    finally:
        util._ufunc_logical_skipna = saved
    real_p = []
    for n in ('argmin_1d', 'argmax_1d', 'argmin_2d', 'argmax_2d'):
        f = getattr(util, n)
        target = util._argminmax_1d if n.endswith('1d') else util._argminmax_2d
        real_p.append([uf_name(f.keywords.get('ufunc')), uf_name(f.keywords.get('ufunc_skipna'))] if f.func is target and set(f.keywords) == {'ufunc', 'ufunc_skipna'}
                      else [repr(f)])
    real_i = [[k, uf_name(v.ufunc), uf_name(v.ufunc_skipna)] for k, v in list(interface.UFUNC_AXIS_SKIPNA.items()) + list(interface.UFUNC_SHAPE_SKIPNA.items())]
    ctx.count('rg_table')
    if not outs:
        return fails
    st, val = parse_answer(outs[0])
    if st != 'ok' or [list(map(list, val[0])), list(map(list, val[1])), list(map(list, val[2]))] != [real_w, real_p, real_i]:
        fails.append(Failure('corr', f'wrappers / partial pairs / interface table: translated {show_sexp(val) if st == "ok" else val} vs real {[real_w, real_p, real_i]}', c))
    for fn, o in zip(FNS, outs[1:]):
        st, val = parse_answer(o)
        if st != 'ok' or list(val) != real_rows[fn]:
            fails.append(Failure('corr', f'descriptor of {fn}: translated {show_sexp(val) if st == "ok" else val} vs container.py {real_rows[fn]}', c))
    return fails
