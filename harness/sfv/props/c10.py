"""C10 - equals is a content equivalence; hashable variants honour the hash contract.

Cases are pairs / triples of containers of one kind (Index, IndexHierarchy, Series, Frame, Bus) built
from JSON specs that are ONE-POINT MUTATIONS of each other (one cell, one label, label order, one
dtype, a name, the class, the block layout, the shape; NaN / None / NaT on one or both sides).  Every
pair is evaluated under all 16 option sets (compare_name, compare_dtype, compare_class, skipna), in
both directions, against

  * the property oracle: a reference predicate computed from what the built containers expose
    (labels, values, dtypes, names, classes) - Lean independent;
  * the Lean model of the algorithms (TypeBlocks.equals with its block alignment, the IndexLevel tree
    walk, ...), fed with the real block structure / level tree.
"""
from __future__ import annotations

import copy
import itertools
import math

import numpy as np

from check import Failure
from sfv import gen
from sfv.canon import tok, untok, hash_class

TARGETS = ['SFModel.Props.C10']
THEOREMS = [
    'SF.C10.equals_spec', 'SF.C10.equals_spec_blocks', 'SF.C10.equals_spec_axis', 'SF.C10.equals_spec_index',
    'SF.C10.equals_spec_series', 'SF.C10.equals_spec_bus', 'SF.C10.equals_spec_hierarchy_rows', 'SF.C10.equals_spec_hierarchy',
    'SF.C10.equals_cache_sound', 'SF.C10.equals_cache_unsound_ids_counterexample',
    'SF.C10.equals_refl', 'SF.C10.equals_refl_series', 'SF.C10.equals_refl_axis', 'SF.C10.equals_refl_bus',
    'SF.C10.equals_refl_skipna_false_counterexample',
    'SF.C10.equals_symm', 'SF.C10.equals_symm_series', 'SF.C10.equals_symm_axis', 'SF.C10.equals_symm_bus',
    'SF.C10.equals_trans', 'SF.C10.equals_trans_series', 'SF.C10.equals_trans_axis', 'SF.C10.equals_trans_bus',
    'SF.C10.layout_irrelevant_equals', 'SF.C10.layout_irrelevant_equals_frame', 'SF.C10.values_coercion_counterexample',
    'SF.C10.he_contract', 'SF.C10.he_contract_series',
    'SF.C10.he_hash_pinned_ok_iff_flat', 'SF.C10.he_hash_hierarchy_counterexample',   # historical: the pinned hash, repaired in 7f42cd3
]
PARTIAL = [
    'SF.C10.equals_refl: content-level reflexivity needs skipna=True (equals_refl_skipna_false_counterexample); '
    'the real a.equals(a, skipna=False) is True only through the id() shortcut, which the model does not contain',
    'SF.C10.layout_irrelevant_equals: assumes `.values` keeps the cells; with an object-resolved `.values` NaT becomes None '
    '(values_coercion_counterexample, finding C10-values-path-coercion)',
]
CORR_ONLY = ['NumPy == / isna on one array (parameters veq / Cell.na of the model)',
             'IndexHierarchy: the real tree is canonical (what equals_spec_hierarchy assumes); the tree of the real object is what the model walks',
             'the equal_pairs identity cache of IndexLevel.equals: proved sound in the model (equals_cache_sound: walkC = walk for ids that identify the Index '
             'objects); the driver runs the cache-free walk, the REAL ids / object sharing (from_product, shared from_index_items, copies, selections) are '
             'exercised by the oracle only (reference on label tuples + symmetry + HE contract)',
             'Python hash of a label respects == (NaN labels: finding C10-nan-label-hash)']
RULE = ('hierarchies are built through every route (from_labels, from_product, from_tree, from_index_items with distinct / one shared Index, '
        'selection, level_add, copy, deepcopy) drawn independently for the two sides, depth 2 and 3, with the inner label mutated under the first / a middle / '
        'the last outer label; '
        'pairs (and triples) of Index / IndexHierarchy / Series / Frame / Bus specs where the second is a one-point mutation '
        'of the first (cell, cell->NaN on one/both sides, label, label order, dtype with equal values, 1 vs 1.0 vs True, name, '
        'axis name, class, block layout, shape), each under all 16 option sets in both directions; HE pairs additionally '
        'through ==, !=, hash, set and dict; thorough: all 256x256 pairs of 2x2 frames over {0, 1, NaN, None}; zero-column frames and HE containers with hierarchical axes included; '
        'non-trivial = the container is non-empty; distinct = distinct case JSON')
TRUSTED = ['extraction of labels / column values / dtypes / names through the public API (reference side)',
           'reading TypeBlocks._blocks and IndexHierarchy._levels to feed the model with the real structure']
ASSUMPTIONS = ['== on the generated cell types is an equivalence (ints, floats, bools, strs, None, datetime64)',
               'equal label tuples hash equal (Python); integers beyond 2**53 are not generated (float coercion of `.values` is C07)']
BUDGET = {"quick": 75, "thorough": 800}

OPTS = [(n, d, c, s) for n in (0, 1) for d in (0, 1) for c in (0, 1) for s in (0, 1)]
OPT_KW = [dict(compare_name=bool(n), compare_dtype=bool(d), compare_class=bool(c), skipna=bool(s)) for n, d, c, s in OPTS]
HE_OPT = OPTS.index((1, 0, 0, 1))

# ------------------------------------------------------------------ value pools
POOL = {
    'int64': ['i:0', 'i:1', 'i:2', 'i:3', 'i:-1', 'i:5'],
    'float64': ['f:0.0', 'f:1.0', 'f:2.0', 'f:0.5', 'f:-1.0', 'f:2.5', 'nan'],
    'bool': ['b:0', 'b:1'],
    'str': ['s:"a"', 's:"b"', 's:"ab"', 's:""', 's:"c d"'],
    'object': ['N', 'nan', 'i:1', 'i:0', 's:"a"', 'f:0.5', 'b:1', 'i:2', 'f:1.0'],
    'datetime64[D]': ['d:2020-01-01[D]', 'd:2020-01-02[D]', 'd:2020-02-01[D]', 'd:2019-12-31[D]', 'nat'],
    'datetime64[s]': ['d:2020-01-01T00:00:00[s]', 'd:2020-01-02T00:00:00[s]', 'd:2020-02-01T00:00:00[s]', 'nat'],
}
NA_OF = {'float64': 'nan', 'object': 'nan', 'datetime64[D]': 'nat', 'datetime64[s]': 'nat'}
V_DTYPES = ['int64', 'float64', 'bool', 'str', 'object', 'datetime64[D]']
NAMES = ['N', 's:"x"', 's:"y"', 'i:1', 't:(s:"p" i:2)']


def rv(rng, dt, na=0.2):
    if dt in NA_OF and rng.random() < na:
        return NA_OF[dt] if dt != 'object' else rng.choice(['nan', 'N'])
    return rng.choice([v for v in POOL[dt] if v not in ('nan', 'nat')] or POOL[dt])


# ------------------------------------------------------------------ axis specs
def rand_axis(rng, n, kinds=('int', 'str', 'float', 'object', 'date', 'ih', 'ih', 'auto')):
    k = rng.choice(kinds)
    name = rng.choice(NAMES)
    if k == 'auto':
        # an automatic index (labels = positions, no label map), named afterwards: name / dtype / class flags apply to it too
        return {'k': 'flat', 'dt': 'int64', 'labels': [f'i:{v}' for v in range(n)], 'name': name, 'cls': 'Index', 'auto': True}
    if k == 'ih' and n >= 1:
        depth = rng.choice([2, 2, 3])
        labs = product_labels(rng, n, depth) if rng.random() < 0.5 else None
        if labs is None:
            labs = gen.rand_tree_labels(rng, n, depth=depth)
        if len(labs) == n:
            s = {'k': 'ih', 'labels': labs, 'name': name, 'cls': 'IndexHierarchy', 'depth': depth}
            s['route'] = rand_route(rng, s)
            return s
        k = 'str'
    if k == 'ih':
        if rng.random() < 0.5:
            return {'k': 'ih', 'labels': [], 'name': name, 'cls': 'IndexHierarchy', 'depth': rng.choice([2, 3])}
        k = 'int'
    if k == 'int':
        return {'k': 'flat', 'dt': 'int64', 'labels': [f'i:{v}' for v in rng.sample(range(-3, 12), n)], 'name': name, 'cls': 'Index'}
    if k == 'str':
        return {'k': 'flat', 'dt': 'str', 'labels': [tok(v) for v in rng.sample(['a', 'b', 'c', 'd', 'e', 'ab', 'zz', 'q r'], n)], 'name': name, 'cls': 'Index'}
    if k == 'float':
        pool = ['f:0.0', 'f:1.0', 'f:2.0', 'f:0.5', 'f:-1.5', 'f:3.0', 'f:7.25', 'f:10.0']
        labs = rng.sample(pool, n)
        if n and rng.random() < 0.3:
            labs[rng.randrange(n)] = 'nan'
        return {'k': 'flat', 'dt': 'float64', 'labels': labs, 'name': name, 'cls': 'Index'}
    if k == 'object':
        pool = ['N', 'i:1', 'i:0', 's:"a"', 'f:0.5', 's:"b"', 'i:2', 'i:7']
        return {'k': 'flat', 'dt': 'object', 'labels': rng.sample(pool, n), 'name': name, 'cls': 'Index'}
    if k == 'date':
        days = rng.sample(range(0, 60), n)
        labs = [tok(np.datetime64('2020-01-01', 'D') + np.timedelta64(d, 'D')) for d in days]
        if n and rng.random() < 0.2:
            labs[rng.randrange(n)] = 'nat'
        return {'k': 'flat', 'dt': 'datetime64[D]', 'labels': labs, 'name': name, 'cls': 'IndexDate'}
    raise ValueError(k)


FLAT_CLS = {'Index': 'Index', 'IndexGO': 'IndexGO', 'IndexDate': 'IndexDate', 'IndexDateGO': 'IndexDateGO',
            'IndexSecond': 'IndexSecond', 'IndexSecondGO': 'IndexSecondGO'}


def build_axis(spec, go=None):
    """go: None keep the spec's class; True / False force the grow-only / static variant (Frame columns)."""
    import static_frame as sf
    name = untok(spec['name']) if spec.get('name') else None
    cls_name = spec['cls']
    if go is True and not cls_name.endswith('GO'):
        cls_name += 'GO'
    if go is False and cls_name.endswith('GO'):
        cls_name = cls_name[:-2]
    cls = getattr(sf, cls_name)
    if spec['k'] == 'flat':
        if spec.get('auto') and spec['dt'] == 'int64' and cls_name in ('Index', 'IndexGO') \
                and spec['labels'] == [f'i:{v}' for v in range(len(spec['labels']))]:
            auto = sf.Series(np.zeros(len(spec['labels']))).index          # the automatic index of a container
            ix = (auto if cls_name == 'Index' else sf.IndexGO(auto)).rename(name)
            if ix._map is None:
                return ix
        arr = gen.col_array(spec['dt'], spec['labels'])
        arr.flags.writeable = False
        return cls(arr, name=name)
    labels = [untok(t) for t in spec['labels']]
    if not labels:
        return cls.from_labels((), depth_reference=spec.get('depth', 2), name=name)
    ih = build_ih(cls, labels, name, spec.get('route', 'labels'))
    got = [tok(tuple(x)) for x in ih]
    if [hash_class(untok(t)) for t in got] != [hash_class(untok(t)) for t in spec['labels']] or ih.name != name and not (ih.name is None and name is None):
        raise AssertionError(f'route {spec.get("route")} built {got} named {ih.name!r}, wanted {spec["labels"]} named {name!r}')
    return ih


# ------------------------------------------------------------------ construction routes of a hierarchy
OUTER = [['a', 'b', 'c'], [1, 2, 3], ['x', 'y', 'z']]


def product_labels(rng, n, depth):
    """n = product of the level sizes: the labels of IndexHierarchy.from_product (None when n does not factor)"""
    sizes = {(2, 1): [(1,)], (2, 2): [(2, 1), (1, 2)], (2, 3): [(3, 1), (1, 3)], (2, 4): [(2, 2), (2, 2), (4, 1)], (2, 5): [(5, 1), (1, 5)],
             (2, 6): [(2, 3), (3, 2)], (3, 1): [(1, 1)], (3, 2): [(2, 1, 1), (1, 2, 1), (1, 1, 2)], (3, 4): [(2, 2, 1), (2, 1, 2), (1, 2, 2)],
             (3, 3): [(3, 1, 1), (1, 1, 3)], (3, 6): [(3, 2, 1), (2, 1, 3), (1, 3, 2)], (3, 8): [(2, 2, 2)]}.get((depth, n))
    if not sizes:
        return None
    shape = rng.choice(sizes)
    if len(shape) != depth:
        shape = tuple(shape) + (1,) * (depth - len(shape))
    levels = []
    for d, k in enumerate(shape):
        pool = list(OUTER[d % 3])
        rng.shuffle(pool)
        levels.append(pool[:k])
    return [tok(t) for t in itertools.product(*levels)]


def level_values(labels):
    """per depth the distinct values in order, if the labels are exactly their product (else None)"""
    depth = len(labels[0])
    levels = [list(dict.fromkeys(t[d] for t in labels)) for d in range(depth)]
    return levels if list(itertools.product(*levels)) == [tuple(t) for t in labels] else None


def routes_for(labels):
    """every construction route that can produce exactly these label tuples"""
    out = ['labels', 'tree', 'copy', 'deepcopy', 'select']
    depth = len(labels[0])
    if level_values(labels) is not None:
        out += ['product', 'product', 'product', 'product_copy']
    if depth == 2:
        out.append('items')
        groups = {}
        for t in labels:
            groups.setdefault(t[0], []).append(t[1])
        if len({tuple(v) for v in groups.values()}) == 1:
            out.append('items_shared')
    if len({t[0] for t in labels}) == 1:
        out.append('level_add')
    return out


def rand_route(rng, spec):
    labels = [untok(t) for t in spec['labels']]
    return rng.choice(routes_for(labels)) if labels else 'labels'


def nest(labels):
    """labels -> the tree form of from_tree ({outer: {..: [innermost, ...]}})"""
    if len(labels[0]) == 1:
        return [t[0] for t in labels]
    out = {}
    for t in labels:
        out.setdefault(t[0], []).append(t[1:])
    return {k: nest(v) for k, v in out.items()}


def build_ih(cls, labels, name, route):
    import static_frame as sf
    go = cls.__name__.endswith('GO')
    flat_cls = sf.IndexGO if go else sf.Index
    if route not in routes_for(labels):
        route = 'labels'   # a mutation made the stored route inapplicable
    if route == 'labels':
        return cls.from_labels(labels, name=name)
    if route in ('product', 'product_copy'):
        ih = cls.from_product(*level_values(labels), name=name)
        return ih.copy() if route == 'product_copy' else ih
    if route == 'tree':
        return cls.from_tree(nest(labels), name=name)
    if route in ('items', 'items_shared'):
        groups = {}
        for t in labels:
            groups.setdefault(t[0], []).append(t[1])
        shared = sf.Index(next(iter(groups.values()))) if route == 'items_shared' else None
        ih = cls.from_index_items([(k, shared if shared is not None else sf.Index(v)) for k, v in groups.items()])
        return ih.rename(name)
    if route == 'copy':
        return cls.from_labels(labels, name=name).copy()
    if route == 'deepcopy':
        return copy.deepcopy(cls.from_labels(labels, name=name))
    if route == 'select':
        extra = tuple('ZZZ' if isinstance(v, str) else 987 for v in labels[-1])
        return cls.from_labels(list(labels) + [extra], name=name).iloc[:len(labels)].rename(name)
    if route == 'level_add':
        rest = [t[1:] for t in labels]
        inner = flat_cls([t[0] for t in rest]) if len(rest[0]) == 1 else cls.from_labels(rest)
        return inner.level_add(labels[0][0]).rename(name)
    raise ValueError(route)


def fresh_label(rng, spec):
    have = set(spec['labels'])
    if spec['k'] == 'flat':
        dt = spec['dt']
        pool = {'int64': [f'i:{v}' for v in range(20, 30)], 'str': ['s:"new"', 's:"n2"', 's:"A"'],
                'float64': ['f:99.5', 'f:42.0', 'f:-7.0'], 'object': ['s:"new"', 'i:99', 'f:9.5'],
                'datetime64[D]': ['d:2021-06-01[D]', 'd:2021-06-02[D]'], 'datetime64[s]': ['d:2021-06-01T00:00:00[s]']}[dt]
        c = [p for p in pool if p not in have]
        return rng.choice(c) if c else None
    return None


def reroute(rng, s):
    """the two sides of a pair are built through independently drawn routes"""
    if s['k'] == 'ih' and s['labels'] and rng.random() < 0.75:
        s['route'] = rand_route(rng, s)
    return s


def mut_axis(rng, spec, m):
    """One-point mutation `m` of an axis spec (None when not applicable); a hierarchy is re-routed"""
    r = mut_axis_core(rng, spec, m)
    if r is not None and m != 'route':
        r = reroute(rng, r)
    return r


def mix_routes(rng, spec, p=0.5):
    """independent construction routes for every hierarchy inside a (series / frame / bus) spec"""
    if isinstance(spec, dict):
        if spec.get('k') == 'ih' and spec.get('labels') and rng.random() < p:
            spec['route'] = rand_route(rng, spec)
        for v in spec.values():
            mix_routes(rng, v, p)
    elif isinstance(spec, list):
        for v in spec:
            mix_routes(rng, v, p)
    return spec


def ih_specs(spec, out=None):
    out = [] if out is None else out
    if isinstance(spec, dict):
        if spec.get('k') == 'ih':
            out.append(spec)
        for v in spec.values():
            ih_specs(v, out)
    elif isinstance(spec, list):
        for v in spec:
            ih_specs(v, out)
    return out


def mut_axis_core(rng, spec, m):
    """One-point mutation `m` of an axis spec; None when not applicable."""
    s = copy.deepcopy(spec)
    n = len(s['labels'])
    if m == 'none':
        return s
    if m == 'name':
        s['name'] = rng.choice([x for x in NAMES if x != s['name']])
        return s
    if m == 'class':
        s['cls'] = s['cls'][:-2] if s['cls'].endswith('GO') else s['cls'] + 'GO'
        return s
    if m == 'label':
        if n == 0:
            return None
        i = rng.randrange(n)
        if s['k'] == 'flat':
            f = fresh_label(rng, s)
            if f is None:
                return None
            s['labels'][i] = f
            return s
        t = list(untok(s['labels'][i]))
        d = len(t) - 1  # innermost component keeps the tree hierarchable
        t[d] = {str: 'NEW', int: 977}.get(type(t[d]), 'NEW')
        s['labels'][i] = tok(tuple(t))
        return s
    if m in ('label_inner_first', 'label_inner_middle', 'label_inner_last'):
        # the innermost label of one row under the first / a middle / the last OUTER label
        if n == 0 or s['k'] != 'ih':
            return None
        labs = [untok(l) for l in s['labels']]
        outers = list(dict.fromkeys(t[0] for t in labs))
        if m == 'label_inner_middle' and len(outers) < 3:
            return None
        if m == 'label_inner_last' and len(outers) < 2:
            return None
        o = {'label_inner_first': outers[0], 'label_inner_middle': outers[len(outers) // 2], 'label_inner_last': outers[-1]}[m]
        i = rng.choice([k for k, t in enumerate(labs) if t[0] == o])
        t = list(labs[i])
        t[-1] = {str: 'NEW', int: 977}.get(type(t[-1]), 'NEW')
        s['labels'][i] = tok(tuple(t))
        return reroute(rng, s)
    if m == 'route':
        if n == 0 or s['k'] != 'ih':
            return None
        alts = [r for r in set(routes_for([untok(l) for l in s['labels']])) if r != s.get('route')]
        s['route'] = rng.choice(sorted(alts))
        return s
    if m == 'label_outer':
        if n == 0 or s['k'] != 'ih':
            return None
        # rename one outer label everywhere it occurs (keeps contiguity)
        t0 = untok(s['labels'][rng.randrange(n)])[0]
        new = 'OUT' if isinstance(t0, str) else 555
        s['labels'] = [tok((new,) + untok(l)[1:]) if untok(l)[0] == t0 else l for l in s['labels']]
        return s
    if m == 'swap':
        if n < 2:
            return None
        if s['k'] == 'flat':
            i, j = rng.sample(range(n), 2)
            s['labels'][i], s['labels'][j] = s['labels'][j], s['labels'][i]
            return s
        # reverse the order of the tuples: groups stay contiguous
        s['labels'] = list(reversed(s['labels']))
        return s
    if m == 'dtype':
        if s['k'] == 'flat':
            nd = {'int64': rng.choice(['float64', 'object']), 'str': 'object', 'float64': 'object',
                  'datetime64[D]': 'datetime64[s]'}.get(s['dt'])
            if nd is None:
                return None
            if nd == 'float64':
                s['labels'] = [tok(float(untok(l))) for l in s['labels']]
            if nd == 'datetime64[s]':
                s['labels'] = [l if l == 'nat' else tok(untok(l).astype('datetime64[s]')) for l in s['labels']]
                s['cls'] = 'IndexSecond' + ('GO' if s['cls'].endswith('GO') else '')
            s['dt'] = nd
            return s
        if n == 0:
            return None
        # int components of one depth become floats of the same value
        labs = [untok(l) for l in s['labels']]
        for d in range(len(labs[0])):
            if all(isinstance(t[d], int) and not isinstance(t[d], bool) for t in labs):
                s['labels'] = [tok(t[:d] + (float(t[d]),) + t[d + 1:]) for t in labs]
                return s
        return None
    if m == 'nan_label':
        if s['k'] != 'flat' or s['dt'] not in ('float64', 'datetime64[D]') or n == 0 or any(l in ('nan', 'nat') for l in s['labels']):
            return None
        s['labels'][rng.randrange(n)] = NA_OF[s['dt']]
        return s
    if m == 'shape':
        if n == 0:
            return None
        s['labels'] = s['labels'][:-1]
        return s
    return None


AXIS_MUTS = ['none', 'name', 'class', 'label', 'label_outer', 'swap', 'dtype', 'nan_label', 'shape',
             'route', 'label_inner_first', 'label_inner_middle', 'label_inner_last']

# ------------------------------------------------------------------ series specs
def rand_series(rng, max_n=4, he=False):
    n = rng.randint(0, max_n)
    dt = rng.choice(V_DTYPES)
    return {'values': [rv(rng, dt) for _ in range(n)], 'dt': dt, 'name': rng.choice(NAMES),
            'index': rand_axis(rng, n), 'cls': 'SeriesHE' if he else 'Series'}


def build_series(spec):
    import static_frame as sf
    arr = gen.col_array(spec['dt'], spec['values'])
    arr.flags.writeable = False
    return getattr(sf, spec['cls'])(arr, index=build_axis(spec['index']), name=untok(spec['name']), own_index=True)


def retype(vals, dt, nd):
    """tokens of a column converted to dtype nd with ==-equal values, or None"""
    try:
        if nd == 'float64':
            return [tok(float(untok(v))) for v in vals]
        if nd == 'int64':
            return [tok(int(untok(v))) for v in vals]
        if nd == 'object':
            return list(vals)
        if nd == 'datetime64[s]':
            return [v if v == 'nat' else tok(untok(v).astype('datetime64[s]')) for v in vals]
    except Exception:
        return None
    return None


DT_MUT = {'int64': ['float64', 'object'], 'bool': ['int64', 'object', 'float64'], 'str': ['object'], 'float64': ['object'],
          'datetime64[D]': ['datetime64[s]']}


def mut_values(rng, vals, dt, m):
    """(vals', dt') or None; m in cell / cell_na / eqval / dtype"""
    vals = list(vals)
    n = len(vals)
    if m == 'cell':
        if n == 0:
            return None
        i = rng.randrange(n)
        c = [v for v in POOL[dt] if v != vals[i]]
        if dt == 'object':
            c = [v for v in c if not same_class(v, vals[i])]
        vals[i] = rng.choice(c)
        return vals, dt
    if m == 'cell_na':
        if n == 0 or dt not in NA_OF:
            return None
        i = rng.randrange(n)
        na = NA_OF[dt] if dt != 'object' else rng.choice(['nan', 'N'])
        if vals[i] == na:
            return None
        vals[i] = na
        return vals, dt
    if m == 'eqval':
        # object cell replaced by an ==-equal value of another type (1 -> 1.0 -> True)
        if dt != 'object':
            return None
        for i in rng.sample(range(n), n):
            alt = {'i:1': ['f:1.0', 'b:1'], 'i:0': ['f:0.0', 'b:0'], 'b:1': ['i:1', 'f:1.0'], 'f:1.0': ['i:1', 'b:1'],
                   'i:2': ['f:2.0']}.get(vals[i])
            if alt:
                vals[i] = rng.choice(alt)
                return vals, dt
        return None
    if m == 'dtype':
        for nd in rng.sample(DT_MUT.get(dt, []), len(DT_MUT.get(dt, []))):
            if dt == 'bool' and nd in ('int64', 'float64'):
                r = [tok(int(untok(v))) if nd == 'int64' else tok(float(untok(v))) for v in vals]
            else:
                r = retype(vals, dt, nd)
            if r is not None:
                return r, nd
        return None
    return None


def same_class(a, b):
    try:
        return hash_class(untok(a)) == hash_class(untok(b))
    except Exception:
        return a == b


def mut_series(rng, spec, m):
    s = copy.deepcopy(spec)
    if m in ('none',):
        return s
    if m in ('cell', 'cell_na', 'eqval', 'dtype'):
        r = mut_values(rng, s['values'], s['dt'], m)
        if r is None:
            return None
        s['values'], s['dt'] = r
        return s
    if m == 'name':
        s['name'] = rng.choice([x for x in NAMES if x != s['name']])
        return s
    if m == 'class':
        s['cls'] = 'Series' if s['cls'] == 'SeriesHE' else 'SeriesHE'
        return s
    if m == 'shape':
        if not s['values']:
            return None
        s['values'] = s['values'][:-1]
        s['index'] = mut_axis(rng, s['index'], 'shape')
        return s if s['index'] is not None else None
    if m.startswith('ix_'):
        s['index'] = mut_axis(rng, s['index'], m[3:])
        return s if s['index'] is not None else None
    return None


SERIES_MUTS = ['none', 'cell', 'cell', 'cell_na', 'cell_na', 'eqval', 'dtype', 'name', 'class', 'shape',
               'ix_name', 'ix_label', 'ix_label_outer', 'ix_swap', 'ix_dtype', 'ix_nan_label',
               'ix_route', 'ix_label_inner_first', 'ix_label_inner_middle', 'ix_label_inner_last']

# ------------------------------------------------------------------ frame specs
def rand_frame(rng, max_rows=3, max_cols=4, he=False, min_rows=0, min_cols=0, name=None):
    n = rng.randint(min_rows, max_rows)
    m = rng.randint(min_cols, max_cols)
    dts = []
    for _ in range(m):
        dts.append(dts[-1] if dts and rng.random() < 0.5 else rng.choice(V_DTYPES))
    cols = [{'dt': dt, 'v': [rv(rng, dt) for _ in range(n)]} for dt in dts]
    return {'cols': cols, 'layout': gen.rand_layout(rng, dts), 'rows': n,
            'index': rand_axis(rng, n), 'columns': rand_axis(rng, m, kinds=('int', 'str', 'str', 'ih', 'float', 'date', 'object')),
            'name': name if name is not None else rng.choice(NAMES), 'cls': 'FrameHE' if he else rng.choice(['Frame', 'Frame', 'FrameGO'])}


def build_frame(spec):
    import static_frame as sf
    cls = getattr(sf, spec['cls'])
    n, m = spec['rows'], len(spec['cols'])
    if m == 0:
        tb = sf.TypeBlocks.from_zero_size_shape((n, 0))
    else:
        tb = sf.TypeBlocks.from_blocks(gen.build_blocks(spec, spec['layout']))
    go = issubclass(cls, sf.FrameGO)
    return cls(tb, index=build_axis(spec['index']), columns=build_axis(spec['columns'], go=go), own_data=True,
               own_index=True, own_columns=True, name=untok(spec['name']))


def mut_frame(rng, spec, m):
    s = copy.deepcopy(spec)
    ncol = len(s['cols'])
    if m == 'none':
        return s
    if m in ('cell', 'cell_na', 'eqval', 'dtype'):
        if ncol == 0:
            return None
        for j in rng.sample(range(ncol), ncol):
            r = mut_values(rng, s['cols'][j]['v'], s['cols'][j]['dt'], m)
            if r is not None:
                s['cols'][j]['v'], s['cols'][j]['dt'] = r
                if m == 'dtype':
                    s['layout'] = gen.rand_layout(rng, [c['dt'] for c in s['cols']])
                return s
        return None
    if m == 'layout':
        dts = [c['dt'] for c in s['cols']]
        alts = [l for l in gen.layouts_for(dts, limit=40) if l != s['layout']]
        if not alts:
            return None
        s['layout'] = rng.choice(alts)
        return s
    if m == 'name':
        s['name'] = rng.choice([x for x in NAMES if x != s['name']])
        return s
    if m == 'class':
        s['cls'] = rng.choice([c for c in ('Frame', 'FrameGO', 'FrameHE') if c != s['cls']])
        return s
    if m == 'shape_rows':
        if s['rows'] == 0:
            return None
        s['rows'] -= 1
        for c in s['cols']:
            c['v'] = c['v'][:-1]
        s['index'] = mut_axis(rng, s['index'], 'shape')
        return s if s['index'] is not None else None
    if m == 'shape_cols':
        if ncol == 0:
            return None
        s['cols'] = s['cols'][:-1]
        s['layout'] = gen.rand_layout(rng, [c['dt'] for c in s['cols']])
        s['columns'] = mut_axis(rng, s['columns'], 'shape')
        return s if s['columns'] is not None else None
    if m.startswith('ix_'):
        s['index'] = mut_axis(rng, s['index'], m[3:])
        return s if s['index'] is not None else None
    if m.startswith('cx_'):
        if m == 'cx_class':
            return None  # the columns class follows the frame class
        s['columns'] = mut_axis(rng, s['columns'], m[3:])
        return s if s['columns'] is not None else None
    return None


FRAME_MUTS = ['none', 'cell', 'cell', 'cell', 'cell_na', 'cell_na', 'eqval', 'dtype', 'dtype', 'layout', 'layout', 'layout',
              'name', 'class', 'shape_rows', 'shape_cols', 'ix_name', 'ix_label', 'ix_label_outer', 'ix_swap',
              'ix_dtype', 'ix_nan_label', 'cx_name', 'cx_label', 'cx_swap', 'cx_dtype', 'cx_label_outer', 'cx_nan_label',
              'ix_route', 'ix_label_inner_first', 'ix_label_inner_middle', 'ix_label_inner_last',
              'cx_route', 'cx_label_inner_first', 'cx_label_inner_middle', 'cx_label_inner_last']
# mutations that keep default-option equality: used to build triples that exercise transitivity
KEEP_MUTS = {'frame': ['none', 'ix_route', 'cx_route', 'layout', 'dtype', 'eqval', 'name', 'class', 'ix_name', 'ix_dtype', 'cx_name', 'cx_dtype'],
             'series': ['none', 'ix_route', 'dtype', 'eqval', 'name', 'class', 'ix_name', 'ix_dtype'],
             'index': ['none', 'name', 'class', 'dtype'], 'ih': ['none', 'route', 'route', 'name', 'class', 'dtype'],
             'bus': ['none', 'name', 'fr_layout', 'fr_dtype', 'fr_class', 'fr_ix_name']}

# ------------------------------------------------------------------ bus specs
def rand_bus(rng):
    k = rng.randint(0, 3)
    return {'frames': [rand_frame(rng, 2, 3, name=tok(f'f{i}')) for i in range(k)], 'name': rng.choice(NAMES)}


def build_bus(spec):
    import static_frame as sf
    return sf.Bus.from_frames([build_frame(f) for f in spec['frames']], name=untok(spec['name']))


def mut_bus(rng, spec, m):
    s = copy.deepcopy(spec)
    k = len(s['frames'])
    if m == 'none':
        return s
    if m == 'name':
        s['name'] = rng.choice([x for x in NAMES if x != s['name']])
        return s
    if m == 'label':
        if k == 0:
            return None
        s['frames'][rng.randrange(k)]['name'] = tok('other')
        return s
    if m == 'swap':
        if k < 2:
            return None
        s['frames'][0], s['frames'][1] = s['frames'][1], s['frames'][0]
        return s
    if m == 'shape':
        if k == 0:
            return None
        s['frames'] = s['frames'][:-1]
        return s
    if m.startswith('fr_'):
        if k == 0:
            return None
        i = rng.randrange(k)
        if m == 'fr_name':
            return None
        f = mut_frame(rng, s['frames'][i], m[3:])
        if f is None:
            return None
        s['frames'][i] = f
        return s
    return None


BUS_MUTS = ['none', 'name', 'label', 'swap', 'shape', 'fr_ix_route', 'fr_ix_label_inner_first', 'fr_cell', 'fr_cell', 'fr_cell_na', 'fr_layout', 'fr_dtype', 'fr_class',
            'fr_ix_label', 'fr_ix_name', 'fr_cx_label', 'fr_shape_rows', 'fr_eqval']

KINDS = {
    'index': (lambda rng, he=False: rand_axis(rng, rng.randint(0, 4), kinds=('int', 'str', 'float', 'object', 'date')), mut_axis, AXIS_MUTS, build_axis),
    'ih': (lambda rng, he=False: rand_axis(rng, rng.randint(0, 5), kinds=('ih',)), mut_axis, AXIS_MUTS, build_axis),
    'series': (rand_series, mut_series, SERIES_MUTS, build_series),
    'frame': (rand_frame, mut_frame, FRAME_MUTS, build_frame),
    'bus': (lambda rng, he=False: rand_bus(rng), mut_bus, BUS_MUTS, build_bus),
}


def rand_kind_spec(rng, kind, he=False):
    f = KINDS[kind][0]
    if kind in ('series', 'frame'):
        return f(rng, he=he)
    return f(rng)


def nontrivial(c):
    if c['k'] == 'exh':
        return True
    s = c['specs'][0]
    kind = c['kind']
    if kind in ('index', 'ih'):
        return len(s['labels']) > 0
    if kind == 'series':
        return len(s['values']) > 0
    if kind == 'frame':
        return s['rows'] > 0 and len(s['cols']) > 0
    return len(s['frames']) > 0


# ------------------------------------------------------------------ case generation
def gen_pair(rng, kind, he=False, both_na=False):
    _, mut, muts, _ = KINDS[kind]
    for _ in range(20):
        a = rand_kind_spec(rng, kind, he)
        if both_na:
            # NaN / None / NaT at the same place on both sides, then one more mutation on b
            m0 = {'series': 'cell_na', 'frame': 'cell_na', 'bus': 'fr_cell_na', 'index': 'nan_label', 'ih': 'none'}[kind]
            a2 = mut(rng, a, m0)
            if a2 is None:
                continue
            a = a2
        m = rng.choice(muts)
        if he and m == 'class':
            continue
        b = mut(rng, a, m)
        if b is None:
            continue
        mix_routes(rng, b)
        return {'k': 'pair', 'kind': kind, 'specs': [a, b], 'mut': [m], 'he': he, 'both_na': both_na}
    return None


def gen_triple(rng, kind, he=False):
    _, mut, muts, _ = KINDS[kind]
    for _ in range(20):
        a = rand_kind_spec(rng, kind, he)
        if rng.random() < 0.4:
            a2 = mut(rng, a, {'series': 'cell_na', 'frame': 'cell_na', 'bus': 'fr_cell_na', 'index': 'nan_label', 'ih': 'none'}[kind])
            a = a2 or a
        pool = KEEP_MUTS[kind] if rng.random() < 0.75 else muts
        m1, m2 = rng.choice(pool), rng.choice(pool)
        if he and 'class' in (m1, m2):
            continue
        b = mut(rng, a, m1)
        if b is None:
            continue
        c = mut(rng, b, m2)
        if c is None:
            continue
        mix_routes(rng, b)
        mix_routes(rng, c)
        return {'k': 'triple', 'kind': kind, 'specs': [a, b, c], 'mut': [m1, m2], 'he': he}
    return None


def cases(ctx):
    rng = ctx.rng('main')
    quick = ctx.tier == 'quick'
    kinds = ['frame'] * 5 + ['series'] * 3 + ['index'] * 2 + ['ih'] * 2 + ['bus'] * 2
    n_pairs, n_triples = (2800, 800) if quick else (30000, 6000)
    # every mutation of every kind at least a few times (structured coverage), then random
    for kind, (_, mut, muts, _) in KINDS.items():
        for m in sorted(set(muts)):
            for rep in range(3 if quick else 12):
                for _ in range(10):
                    a = rand_kind_spec(rng, kind, False)
                    b = mut(rng, a, m)
                    if b is not None:
                        yield {'k': 'pair', 'kind': kind, 'specs': [a, b], 'mut': [m], 'he': False, 'both_na': False}
                        break
    for i in range(n_pairs):
        kind = rng.choice(kinds)
        he = kind in ('series', 'frame') and rng.random() < 0.35
        c = gen_pair(rng, kind, he=he, both_na=rng.random() < 0.3)
        if c:
            yield c
    for i in range(n_triples):
        kind = rng.choice(kinds)
        he = kind in ('series', 'frame') and rng.random() < 0.3
        c = gen_triple(rng, kind, he=he)
        if c:
            yield c
    if not quick:
        for skipna in (1, 0):
            for dtype in (0, 1):
                yield {'k': 'exh', 'alphabet': ['i:0', 'i:1', 'nan', 'N'], 'opt': [0, dtype, 0, skipna]}


def search(ctx):
    rng = ctx.rng('search')
    kinds = ['frame'] * 5 + ['series'] * 3 + ['index'] * 2 + ['ih'] * 2 + ['bus'] * 2
    for i in range(40000):
        kind = rng.choice(kinds)
        he = kind in ('series', 'frame') and rng.random() < 0.3
        c = gen_pair(rng, kind, he=he, both_na=rng.random() < 0.3) if rng.random() < 0.7 else gen_triple(rng, kind, he=he)
        if c:
            yield c


# ------------------------------------------------------------------ content (reference side)
def is_na(v):
    if isinstance(v, (float, np.floating)):
        return math.isnan(float(v))
    if isinstance(v, (complex, np.complexfloating)):
        return v != v
    if isinstance(v, (np.datetime64, np.timedelta64)):
        return bool(np.isnat(v))
    return False


def cell_ok(x, y, skipna):
    nx, ny = is_na(x), is_na(y)
    if nx and ny:
        return bool(skipna)
    if nx or ny:
        return False
    if isinstance(x, tuple) and isinstance(y, tuple):
        return len(x) == len(y) and all(cell_ok(p, q, skipna) for p, q in zip(x, y))
    try:
        r = x == y
    except Exception:
        return False
    if isinstance(r, (bool, np.bool_)):
        return bool(r)
    return False


def arr_items(arr):
    arr = np.asarray(arr)
    if arr.dtype.kind in 'mM':
        return list(arr)
    return arr.tolist()


def axis_content(ix):
    import static_frame as sf
    if isinstance(ix, sf.IndexHierarchy):
        nodes = []

        def walk(lv):
            nodes.append((str(lv.index.values.dtype), type(lv.index).__name__, lv.index.name))
            if lv.targets is not None:
                for t in lv.targets:
                    walk(t)
        walk(ix._levels)
        return {'kind': 'ih', 'cls': (type(ix).__name__, type(ix._levels).__name__), 'name': ix.name,
                'labels': [tuple(t) for t in ix], 'shape': tuple(ix.shape), 'nodes': nodes}
    return {'kind': 'flat', 'cls': type(ix).__name__, 'name': ix.name, 'labels': arr_items(ix.values),
            'dtype': str(ix.values.dtype), 'shape': (len(ix),)}


def name_eq(a, b):
    try:
        return bool(a == b)
    except Exception:
        return False


def ref_axis(A, B, o):
    n, d, c, s = o
    if A['kind'] != B['kind']:
        return False
    if A['shape'] != B['shape'] or len(A['labels']) != len(B['labels']):
        return False
    if not all(cell_ok(x, y, s) for x, y in zip(A['labels'], B['labels'])):
        return False
    if n and not name_eq(A['name'], B['name']):
        return False
    if c and A['cls'] != B['cls']:
        return False
    if A['kind'] == 'flat':
        if d and A['dtype'] != B['dtype']:
            return False
        return True
    # hierarchy: equal labels => same tree (trusted structure); the options apply to every node index
    if len(A['nodes']) != len(B['nodes']):
        return False
    for (da, ca, na), (db, cb, nb) in zip(A['nodes'], B['nodes']):
        if d and da != db:
            return False
        if c and ca != cb:
            return False
        if n and not name_eq(na, nb):
            return False
    return True


def series_content(s):
    return {'cls': type(s).__name__, 'name': s.name, 'values': arr_items(s.values), 'dtype': str(s.values.dtype),
            'index': axis_content(s.index)}


def ref_series(A, B, o):
    n, d, c, s = o
    if len(A['values']) != len(B['values']):
        return False
    if not all(cell_ok(x, y, s) for x, y in zip(A['values'], B['values'])):
        return False
    if n and not name_eq(A['name'], B['name']):
        return False
    if d and A['dtype'] != B['dtype']:
        return False
    if c and A['cls'] != B['cls']:
        return False
    return ref_axis(A['index'], B['index'], o)


def frame_content(f):
    cols, dts = [], []
    for j in range(f.shape[1]):
        arr = f.iloc[:, j].values
        cols.append(arr_items(arr))
        dts.append(str(arr.dtype))
    return {'cls': type(f).__name__, 'name': f.name, 'shape': tuple(f.shape), 'cols': cols, 'dtypes': dts,
            'index': axis_content(f.index), 'columns': axis_content(f.columns)}


def ref_frame(A, B, o):
    n, d, c, s = o
    if A['shape'] != B['shape']:
        return False
    for ca, cb in zip(A['cols'], B['cols']):
        if not all(cell_ok(x, y, s) for x, y in zip(ca, cb)):
            return False
    if n and not name_eq(A['name'], B['name']):
        return False
    if d and A['dtypes'] != B['dtypes']:
        return False
    if c and A['cls'] != B['cls']:
        return False
    return ref_axis(A['index'], B['index'], o) and ref_axis(A['columns'], B['columns'], o)


def bus_content(b):
    return {'cls': type(b).__name__, 'name': b.name, 'index': axis_content(b.index),
            'frames': [frame_content(f) for _, f in b.items()]}


def ref_bus(A, B, o):
    n, d, c, s = o
    if len(A['frames']) != len(B['frames']):
        return False
    if n and not name_eq(A['name'], B['name']):
        return False
    if c and A['cls'] != B['cls']:
        return False
    if not ref_axis(A['index'], B['index'], o):
        return False
    return all(ref_frame(x, y, o) for x, y in zip(A['frames'], B['frames']))


CONTENT = {'index': axis_content, 'ih': axis_content, 'series': series_content, 'frame': frame_content, 'bus': bus_content}
REF = {'index': ref_axis, 'ih': ref_axis, 'series': ref_series, 'frame': ref_frame, 'bus': ref_bus}

# ------------------------------------------------------------------ model encoding
def eq_atom(v):
    """atom of the ==-class of a cell; `na` for NaN / NaT"""
    if is_na(v):
        return 'na'
    if isinstance(v, np.datetime64):
        return 'dt:' + str(v.astype('datetime64[ns]').astype(np.int64))
    if isinstance(v, tuple):
        return 't:[' + ','.join(eq_atom(x) for x in v) + ']'
    return hash_class(v)





def atom(s):
    """any string as ONE s-expression atom (quoted, JSON escapes)"""
    import json
    return json.dumps(str(s))


def w_cells(items):
    return '(' + ' '.join('na' if is_na(v) else atom(eq_atom(v)) for v in items) + ')'


def w_idx(ix):
    return f'(ix {atom(tok(ix.name))} {atom(ix.values.dtype)} {type(ix).__name__} {w_cells(arr_items(ix.values))})'


def w_level(lv):
    leaf = 1 if lv.targets is None else 0
    ts = '' if lv.targets is None else ' '.join(w_level(t) for t in lv.targets)
    dref = lv._depth if (len(lv.index) == 0 and lv._depth is not None) else 0
    return f'(lv {w_idx(lv.index)} {leaf} {dref} {type(lv).__name__} ({ts}))'


def w_axis(ix):
    import static_frame as sf
    if isinstance(ix, sf.IndexHierarchy):
        return f'(ih {w_level(ix._levels)} {atom(tok(ix.name))} {type(ix).__name__})'
    return w_idx(ix)


def w_series(s):
    return f'(se {atom(tok(s.name))} {atom(s.values.dtype)} {type(s).__name__} {w_axis(s.index)} {w_cells(arr_items(s.values))})'


def w_tb(tb):
    out = [f'(tb {tb.shape[0]}']
    for b in tb._blocks:
        cols = [b] if b.ndim == 1 else [b[:, j] for j in range(b.shape[1])]
        out.append(f'(blk {atom(b.dtype)} ' + ' '.join(w_cells(arr_items(c)) for c in cols) + ')')
    return ' '.join(out) + ')'


def w_frame(f):
    return f'(fr {atom(tok(f.name))} {type(f).__name__} {w_axis(f.index)} {w_axis(f.columns)} {w_tb(f._blocks)})'


def w_bus(b):
    return f'(bus {atom(tok(b.name))} {type(b).__name__} {w_axis(b.index)} ({" ".join(w_frame(f) for _, f in b.items())}))'


WIRE = {'index': ('axis', w_axis), 'ih': ('axis', w_axis), 'series': ('series', w_series), 'frame': ('frame', w_frame), 'bus': ('bus', w_bus)}


def build(kind, spec):
    return KINDS[kind][3](spec)


def exh_frames(alphabet):
    """all 2x2 frames over the alphabet (column-major cells), dtype float64 unless None occurs in the column"""
    out = []
    for cells in itertools.product(alphabet, repeat=4):
        cols = []
        for col in (cells[0:2], cells[2:4]):
            dt = 'object' if 'N' in col else 'float64'
            cols.append({'dt': dt, 'v': [tok(float(untok(v))) if (dt == 'float64' and v not in ('nan',)) else v for v in col]})
        dts = [c['dt'] for c in cols]
        # vary the layout deterministically with the content
        lays = gen.layouts_for(dts)
        lay = lays[sum(map(hash_str, cells)) % len(lays)]
        out.append({'cols': cols, 'layout': lay, 'rows': 2, 'index': {'k': 'flat', 'dt': 'int64', 'labels': ['i:0', 'i:1'], 'name': 'N', 'cls': 'Index'},
                    'columns': {'k': 'flat', 'dt': 'str', 'labels': ['s:"a"', 's:"b"'], 'name': 'N', 'cls': 'Index'}, 'name': 'N', 'cls': 'Frame'})
    return out


def hash_str(s):
    return sum(ord(ch) for ch in s)


def model_lines(c):
    if c['k'] == 'exh':
        frames = [build_frame(s) for s in exh_frames(c['alphabet'])]
        ws = [w_frame(f) for f in frames]
        o = c['opt']
        lines = []
        for i in range(0, len(ws), 4):
            for j in range(len(ws)):
                lines.append(f'equals.frame {ws[i]} {ws[j]} (o {o[0]} {o[1]} {o[2]} {o[3]})')
        return lines
    kind = c['kind']
    op, w = WIRE[kind]
    try:
        built = [build(kind, s) for s in c['specs']]
    except Exception:
        return []  # a spec that cannot be built: evaluate counts it (unbuildable_spec)
    objs = [w(x) for x in built]   # an encoding error must surface (check.py reports it), never silence the model
    pairs = [(0, 1)] if c['k'] == 'pair' else [(0, 1), (1, 2), (0, 2)]
    lines = [f'equals.{op}.all {objs[i]} {objs[j]}' for i, j in pairs]
    if c.get('he') and kind in ('series', 'frame'):
        lines.append(f'equals.he.{op} {objs[0]} {objs[1]}')
    return lines


MODEL_OFF = False   # set by check.py when the driver cannot be built


def parse_bits(ans):
    if not ans.startswith('ok ('):
        raise ValueError(f'driver answered {ans!r}')
    return [x == '1' for x in ans[4:-1].split()]


# ------------------------------------------------------------------ finding predicates
def values_path_info(fa, fb):
    """exact input predicate of finding C10-values-path-coercion on two real frames: None, or which of the two
    effects of the object coercion of `.values` can occur (NaT on both sides / datetime64 units differing)"""
    ta, tb = fa._blocks, fb._blocks
    if ta.shape != tb.shape or ta.shape[1] == 0:
        return None
    if ta.block_compatible(tb, axis=None) or ta.reblock_compatible(tb):
        return None
    if ta.values.dtype != object and tb.values.dtype != object:
        return None
    info = {'nat_both': False, 'unit_diff': False}
    for j in range(ta.shape[1]):
        x, y = ta._extract_array(column_key=j), tb._extract_array(column_key=j)
        if x.dtype.kind in 'mM' and y.dtype.kind in 'mM':
            if bool((np.isnat(x) & np.isnat(y)).any()):
                info['nat_both'] = True
            if x.dtype != y.dtype:
                info['unit_diff'] = True
    return info if (info['nat_both'] or info['unit_diff']) else None


def values_path_hint(infos, o, exp):
    """the finding applies to this option set / expected answer"""
    for info in infos:
        if info is None:
            continue
        if info['nat_both'] and o[3] == 0 and exp is False:
            return 'values-path-coercion'   # NaT became None: real True where NaT != NaT
        if info['unit_diff'] and exp is True:
            return 'values-path-coercion'   # date vs datetime objects: real False where the instants are equal
    return None


def has_nan_label(obj, kind):
    import static_frame as sf
    axes = [obj.index] + ([obj.columns] if kind == 'frame' else [])
    for ax in axes:
        if isinstance(ax, sf.IndexHierarchy):
            continue
        if any(is_na(v) for v in arr_items(ax.values)):
            return True
    return False


def has_hier(obj, kind):
    import static_frame as sf
    axes = [obj.index] + ([obj.columns] if kind == 'frame' else [])
    return any(isinstance(ax, sf.IndexHierarchy) for ax in axes)


# ------------------------------------------------------------------ evaluation
def frames_of(kind, obj):
    if kind == 'frame':
        return [obj]
    if kind == 'bus':
        return [f for _, f in obj.items()]
    return []


def eval_pair(ctx, c, kind, a, b, A, B, bits, label):
    """all option sets, both directions, vs reference and model. Returns (failures, results list)"""
    fails = []
    ref = REF[kind]
    infos = [values_path_info(x, y) for x, y in zip(frames_of(kind, a), frames_of(kind, b))] if kind in ('frame', 'bus') else []
    res = []
    bad = {}  # (category, finding hint) -> list of opts
    for k, (o, kw) in enumerate(zip(OPTS, OPT_KW)):
        exp = ref(A, B, o)
        try:
            r1 = a.equals(b, **kw)
            r2 = b.equals(a, **kw)
        except Exception as ex:
            res.append(None)
            bad.setdefault(('oracle', f'{label}: equals raises {type(ex).__name__}: {ex} (reference {exp})', None), []).append(o)
            continue
        res.append(r1)
        hint = values_path_hint(infos, o, exp)
        if type(r1) is not bool or type(r2) is not bool:
            bad.setdefault(('oracle', 'equals does not return a plain bool', None), []).append(o)
        if bool(r1) != exp:
            bad.setdefault(('oracle', f'{label}: a.equals(b) = {r1} but the reference predicate says {exp}', hint), []).append(o)
        if bool(r2) != exp:
            bad.setdefault(('oracle', f'{label}: b.equals(a) = {r2} but the reference predicate says {exp}', hint), []).append(o)
        if bool(r1) != bool(r2):
            bad.setdefault(('oracle', f'{label}: equals is not symmetric (a.equals(b)={r1}, b.equals(a)={r2})', None), []).append(o)
        if bits is not None and bits[k] != bool(r1):
            bad.setdefault(('corr', f'{label}: model {bits[k]} vs real {r1}', hint if bits[k] == exp else None), []).append(o)
    for (cat, what, hint), os_ in bad.items():
        fails.append(Failure(cat, f'{kind} {c["mut"]} {what} for options (name,dtype,class,skipna) in {os_[:4]}', c,
                             detail={'hint': hint, 'opts': os_}))
    return fails, res


def evaluate(ctx, c, outs):
    if c['k'] == 'exh':
        return eval_exh(ctx, c, outs)
    kind = c['kind']
    fails = []
    ctx.count(f'kind_{kind}')
    ctx.count(f'{c["k"]}s')
    if kind == 'frame' and any(len(sp['cols']) == 0 for sp in c['specs']):
        ctx.count('zero_column_frames')
    for m in c['mut']:
        ctx.count(f'mut_{kind}_{m}')
    for sp in c['specs']:
        for ih in ih_specs(sp):
            if ih['labels']:
                ctx.count(f'ih_route_{ih.get("route", "labels")}_depth{len(untok(ih["labels"][0]))}')
    routes = [tuple(x.get('route') for x in ih_specs(sp)) for sp in c['specs']]
    if any(r and r != routes[0] for r in routes[1:]):
        ctx.count('ih_routes_mixed_across_sides')
    try:
        objs = [build(kind, s) for s in c['specs']]
        copy0 = build(kind, c['specs'][0])
    except AssertionError:
        raise   # a construction route that does not deliver the requested labels: never hide it
    except Exception as ex:
        ctx.count('unbuildable_spec')
        ctx.count(f'unbuildable_{type(ex).__name__}')
        return []
    conts = [CONTENT[kind](o) for o in objs]
    pairs = [(0, 1)] if c['k'] == 'pair' else [(0, 1), (1, 2), (0, 2)]
    model = None
    if outs:
        model = [parse_bits(x) for x in outs[:len(pairs)]]
        ctx.count('model_compared')
    elif not MODEL_OFF:
        fails.append(Failure('corr', f'{kind}: no model answer for a buildable case (model_lines produced nothing)', c))
    results = {}
    for idx, (i, j) in enumerate(pairs):
        f, res = eval_pair(ctx, c, kind, objs[i], objs[j], conts[i], conts[j], model[idx] if model else None, f'pair({i},{j})')
        fails += f
        results[(i, j)] = res
    r01 = results[(0, 1)]
    ctx.count('default_equal' if r01[OPTS.index((0, 0, 0, 1))] else 'default_unequal')
    ctx.count('strict_equal' if r01[OPTS.index((1, 1, 1, 0))] else 'strict_unequal')
    if c.get('both_na'):
        ctx.count('na_on_both_sides')
    # reflexivity: the object itself (identity shortcut) and a separately built copy
    a = objs[0]
    for o, kw in zip(OPTS, OPT_KW):
        if a.equals(a, **kw) is not True:
            fails.append(Failure('oracle', f'{kind}: a.equals(a) is not True for {kw}', c))
            break
        exp = REF[kind](conts[0], conts[0], o)
        try:
            rc = a.equals(copy0, **kw)
        except Exception as ex:
            fails.append(Failure('oracle', f'{kind}: a.equals(copy of a) raises {type(ex).__name__}: {ex}', c))
            break
        if bool(rc) != exp:
            fails.append(Failure('oracle', f'{kind}: a.equals(copy of a) = {rc}, reference {exp} for {kw}', c))
            break
    # transitivity
    if c['k'] == 'triple':
        for k, o in enumerate(OPTS):
            if results[(0, 1)][k] and results[(1, 2)][k]:
                ctx.count('transitive_chains')
                if not results[(0, 2)][k]:
                    infos = [values_path_info(x, y) for p, q in pairs
                             for x, y in zip(frames_of(kind, objs[p]), frames_of(kind, objs[q]))] if kind in ('frame', 'bus') else []
                    exp02 = REF[kind](conts[0], conts[2], o)
                    hint = values_path_hint(infos, o, exp02) or values_path_hint(infos, o, not exp02)
                    fails.append(Failure('oracle', f'{kind} {c["mut"]}: equals is not transitive for options {o}', c,
                                         detail={'hint': hint}))
                    break
    # hashable variants
    if c.get('he') and kind in ('series', 'frame'):
        fails += eval_he(ctx, c, kind, objs[0], objs[1], conts[0], conts[1], outs[len(pairs)] if outs else None)
    return fails


def eval_he(ctx, c, kind, a, b, A, B, out):
    fails = []
    ctx.count('he_pairs')
    exp = REF[kind](A, B, OPTS[HE_OPT])
    try:
        eq, ne, eq_r = a == b, a != b, b == a
    except Exception as ex:
        return [Failure('oracle', f'{kind}HE: == raises {type(ex).__name__}: {ex}', c)]
    if type(eq) is not bool or type(ne) is not bool:
        fails.append(Failure('oracle', f'{kind}HE: == / != do not return plain bools ({type(eq).__name__}, {type(ne).__name__})', c))
        return fails
    infos = [values_path_info(a, b)] if kind == 'frame' else []
    vhint = values_path_hint(infos, OPTS[HE_OPT], exp)
    if eq != exp:
        fails.append(Failure('oracle', f'{kind}HE {c["mut"]}: a == b is {eq}, reference (labels, values, name) says {exp}', c,
                             detail={'hint': vhint}))
    if eq != a.equals(b, compare_name=True, compare_dtype=False, compare_class=False, skipna=True):
        fails.append(Failure('oracle', f'{kind}HE: == differs from equals(compare_name=True)', c))
    if ne != (not eq):
        fails.append(Failure('oracle', f'{kind}HE: a != b is {ne} while a == b is {eq}', c))
    if eq_r != eq:
        fails.append(Failure('oracle', f'{kind}HE: a == b is {eq} but b == a is {eq_r}', c))
    hs = []
    for x in (a, b):
        try:
            hs.append(('ok', hash(x)))
        except TypeError as ex:
            hs.append(('err', str(ex)))
    for (st, h), x, nm in zip(hs, (a, b), 'ab'):
        if st == 'err':
            ctx.count('he_hash_raises')
            fails.append(Failure('oracle', f'hash({kind}HE) raises TypeError: {h}', c))
    if hs[0][0] == 'ok' and hs[1][0] == 'ok':
        ctx.count('he_hash_ok')
        if has_hier(a, kind) or has_hier(b, kind):
            ctx.count('he_hash_ok_hierarchical_axis')
        nanlab = has_nan_label(a, kind) and has_nan_label(b, kind)
        if eq and hs[0][1] != hs[1][1]:
            fails.append(Failure('oracle', f'{kind}HE: a == b but hash(a) != hash(b)', c,
                                 detail={'hint': 'nan-label-hash' if nanlab else None}))
        if eq:
            ctx.count('he_equal_pairs')
        member = b in {a}
        lookup = {a: 1}.get(b)
        if member != eq or (lookup == 1) != eq:
            hint = 'nan-label-hash' if (nanlab and eq) else None
            fails.append(Failure('oracle', f'{kind}HE: a == b is {eq} but (b in {{a}}) is {member}, {{a: 1}}.get(b) is {lookup}', c,
                                 detail={'hint': hint}))
    if out is not None:
        if not out.startswith('ok ('):
            fails.append(Failure('corr', f'driver answered {out!r}', c))
        else:
            m_eq, m_ne, m_sa, m_sb, m_same = out[4:-1].split()
            if (m_eq == '1') != eq or (m_ne == '1') != ne:
                fails.append(Failure('corr', f'{kind}HE: model ==/!= {m_eq}/{m_ne} vs real {eq}/{ne}', c,
                                     detail={'hint': vhint if (m_eq == '1') == exp else None}))
            for ms, (st, _), x in ((m_sa, hs[0], a), (m_sb, hs[1], b)):
                if (ms == 'ok') != (st == 'ok'):
                    fails.append(Failure('corr', f'{kind}HE: model hash {ms} vs real {st}', c))
            # model: equal hashed label tuples => equal hashes (NaN / NaT labels hash by identity: known finding)
            if m_same == '1' and hs[0][0] == 'ok' and hs[1][0] == 'ok' and hs[0][1] != hs[1][1] \
                    and not (has_nan_label(a, kind) and has_nan_label(b, kind)):
                fails.append(Failure('corr', f'{kind}HE: the model hashes equal label tuples, the real hashes differ', c))
    return fails


def eval_exh(ctx, c, outs):
    """all pairs of 2x2 frames over the alphabet for one option set: reference, symmetry, transitivity (closure)"""
    fails = []
    specs = exh_frames(c['alphabet'])
    frames = [build_frame(s) for s in specs]
    copies = [build_frame(s) for s in specs]
    conts = [frame_content(f) for f in frames]
    o = tuple(c['opt'])
    kw = OPT_KW[OPTS.index(o)]
    n = len(frames)
    M = np.zeros((n, n), dtype=bool)
    for i in range(n):
        for j in range(n):
            other = frames[j] if i != j else copies[j]
            r = frames[i].equals(other, **kw)
            M[i, j] = r
            exp = ref_frame(conts[i], conts[j], o)
            if bool(r) != exp and len(fails) < 5:
                fails.append(Failure('oracle', f'2x2 frames #{i} vs #{j} options {o}: equals {r}, reference {exp}', c))
    ctx.count('exh_pairs', n * n)
    ctx.count('exh_equal_pairs', int(M.sum()))
    if not (M == M.T).all():
        i, j = np.argwhere(M != M.T)[0]
        fails.append(Failure('oracle', f'2x2 frames #{i} vs #{j} options {o}: equals is not symmetric', c))
    # transitivity: M o M <= M
    MM = (M.astype(np.int32) @ M.astype(np.int32)) > 0
    if (MM & ~M).any():
        i, j = np.argwhere(MM & ~M)[0]
        fails.append(Failure('oracle', f'2x2 frames #{i} ~ ? ~ #{j} options {o}: equals is not transitive', c))
    if outs:
        k = 0
        for i in range(0, n, 4):
            for j in range(n):
                if (outs[k] == 'ok 1') != bool(M[i, j]) and len(fails) < 8:
                    fails.append(Failure('corr', f'2x2 frames #{i} vs #{j} options {o}: model {outs[k]} vs real {M[i, j]}', c))
                k += 1
    return fails


def classify(f):
    d = f.detail if isinstance(f.detail, dict) else {}
    hint = d.get('hint')
    if hint == 'nan-label-hash':
        return 'C10-nan-label-hash'
    if hint == 'values-path-coercion':
        return 'C10-values-path-coercion'
    return None
