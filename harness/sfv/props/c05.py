"""C05 - Hierarchical index: tree and table views agree; per-level selection is exact."""
from __future__ import annotations

import itertools

import numpy as np

from check import Failure
from sfv.canon import tok, untok, err_cat
from sfv.props import ixcommon as ic
from sfv.props.ixcommon import H, HT, Interner, parse_answer
from sfv import locmap_hook            # regenerates Gen/LocMap.lean with the other translators (see the module)
from sfv.props import locmap_grid as lmg

TARGETS = ['SFModel.Props.C05'] + locmap_hook.TARGETS
THEOREMS = [
    'SF.C05.views_agree', 'SF.C05.containsPinned_overlong_counterexample', 'SF.C05.cache_coherent', 'SF.C05.ofLevel_coherent',
    'SF.C05.leaf_open_slice_bounded',
    'SF.C05.hloc_fuel', 'SF.C05.hloc_exact_partial', 'SF.C05.hloc_full_tuple',
    'SF.C05.hloc_exact_slices', 'SF.C05.hloc_slices_answer', 'SF.C05.clean_of_no_endpoints',
    'SF.C05.hloc_exact_stepped', 'SF.C05.hloc_exact_mask', 'SF.C05.hloc_stepped_answer', 'SF.C05.stepped_node_order',
    'SF.C05.stepped_node_selects', 'SF.C05.mask_matches_by_position', 'SF.C05.stepped_empty_leaf_counterexample',
    # + the offset handling of LocMap (map_slice_args, the `if offset_apply:` block of loc_to_iloc) TRANSLATED from the current
    # source = Index.locMap, which Level.locToIloc calls at every node (BRIDGE_THEOREMS); leaf_open_slice_bounded restated for it
] + locmap_hook.BRIDGE_THEOREMS + ['SF.C02LocMap.gen_leaf_open_slice_bounded', 'SF.C02LocMap.gen_list_positions']
PARTIAL = ['SF.C05.hloc_exact_partial: label / all / list selectors; extended by hloc_exact_slices (label slices, step None / 1), hloc_exact_stepped '
           '(label slices with ANY non-zero step, positive or negative, at any depth: a slice matches by position in the label order of its node, '
           'a descending slice delivers the matches of its node in descending order, the result is a permutation of the matching positions and is in '
           'index order when no list selector and no negative step is present; a visited node lacking an endpoint is an error, never data) and '
           'hloc_exact_mask (a Boolean mask at the innermost depth filters the outer selection by global position). Restrictions that remain: '
           'step 0 (ValueError, by example), a negative step needs every leaf non-empty (stepped_empty_leaf_counterexample shows why: an empty '
           'leaf at offset 0 makes the open descending bound -1 read from the end - such a tree cannot be built from labels), a mask at an outer '
           'depth (outside the claim of the property), list selectors without repeated labels']
CORR_ONLY = [
    'aliasing of tree nodes (IndexHierarchyGO.from_product builds ONE ArrayGO of targets shared by all sibling nodes of a depth; '
    'IndexHierarchy.__init__ un-shares it by copying the levels): the Lean Level is a value tree without object identity, so sharing is '
    'covered by the oracle only - histories start from every construction / conversion route at depth 3-4 and every view, the static '
    'source and copies taken before the growth are compared with the list-of-tuples reference after every step',
    'Boolean masks at outer depths of HLoc (outside the claim, compared model vs code only); step 0 in a label slice (ValueError)',
    'IndexHierarchy.loc / iloc / Frame.loc[HLoc] / Series[HLoc] (rows extracted by TypeBlocks: C03/C04) against the list-of-tuples reference',
    '_extract_iloc rebuild through _from_type_blocks (builder proved in C02; the rebuilt index is checked by the bijection oracle)',
]
RULE = ('ragged trees of depth 2..4 (repeated inner labels under different parents, per-depth pools str/int/float/date/mixed, built by every '
        'construction route, static and GO) x views before/after materialising the cached blocks x per-depth selector combinations '
        '(label, list in both orders, label slice, all, Boolean mask innermost or whole key, absent labels) x append/extend/read histories; '
        'thorough: all tree shapes with <= 6 leaves and depth <= 3 over 3 labels per level with all selector combinations (depth 2) / '
        'a seeded sample of combinations (depth 3); non-trivial = tree with >= 2 tuples and >= 2 outer labels or a history with a mutation '
        'after a read; distinct = canonical case JSON')
TRUSTED = ['ixcommon.H as the reading of label identity (np.datetime64 / datetime.date normalised)', locmap_hook.TRUSTED]
ASSUMPTIONS = ['selectors matching nothing and Boolean masks at outer depths are outside the claim (property text)',
               'repeated labels inside one list selector are not generated']
BUDGET = {'quick': 70, 'thorough': 780}

ROUTES = ['from_labels', 'from_labels_gen', 'type_blocks', 'from_tree', 'from_index_items', 'from_product', 'from_labels_ctor', 'copy_ctor']


def nontrivial(c):
    if c['k'] == lmg.K:
        return lmg.nontrivial(c)
    if c['k'] == 'hist':
        return any(o[0] in ('ap', 'ex') for o in c['ops'])
    ts = c['toks']
    return len(ts) >= 2 and len({untok(t)[0] if not isinstance(untok(t)[0], np.datetime64) else str(untok(t)[0]) for t in ts}) >= 2


# ----------------------------------------------------------------------------- selectors
def rand_sel(rng, labs_at_depth, n, innermost, absent, allow_neg=True):
    """one per-depth selector over the labels seen at that depth (tokens)"""
    r = rng.random()
    labs = list(labs_at_depth)
    if r < 0.25:
        return ['all']
    if r < 0.50:
        return ['lab', rng.choice(labs + ([absent] if absent is not None and rng.random() < 0.2 else []))]
    if r < 0.75:
        k = rng.randint(1, min(3, len(labs)))
        l = rng.sample(labs, k)
        if absent is not None and rng.random() < 0.2:
            l.insert(rng.randrange(len(l) + 1), absent)
        return ['list', l]
    if r < 0.93 or not innermost:
        a, b = rng.choice(labs + [None]), rng.choice(labs + [None])
        if allow_neg and rng.random() < 0.2:
            return ['sl', a, b, -1]       # descending label slice: start and stop label included, reverse order
        return ['sl', a, b]
    return ['mask', [rng.random() < 0.5 for _ in range(n)]]


def labels_at_depth(toks, d):
    out = []
    seen = set()
    for t in toks:
        v = untok(t)[d]
        h = H(v)
        if h not in seen:
            seen.add(h)
            out.append(tok(v))
    return out


def rand_sels(rng, toks, kinds):
    depth = len(kinds)
    n = len(toks)
    ln = rng.choice([depth, depth, depth, depth - 1, 1])
    sels = []
    for d in range(ln):
        a = ABSENT.get(kinds[d])
        # (no descending slices on datetime levels: the datetime branch of map_slice_args still excludes the stop, finding F48 of C02)
        sels.append(rand_sel(rng, labels_at_depth(toks, d), n, d == depth - 1, None if a is None else tok(a), allow_neg=kinds[d] != 'D'))
    return sels


ABSENT = {'s': 'zz', 'i': 99, 'f': 9.5, 'D': np.datetime64('1990-01-01'), 'm': 'zz', 'b': None}


def sel_wire(sel, intern):
    k = sel[0]
    if k == 'all':
        return '(all)'
    if k == 'lab':
        return f'(lab {intern.lab(untok(sel[1]))})'
    if k == 'list':
        return '(list ' + ' '.join(intern.lab(untok(t)) for t in sel[1]) + ')'
    if k == 'sl':
        a = 'N' if sel[1] is None else intern.lab(untok(sel[1]))
        b = 'N' if sel[2] is None else intern.lab(untok(sel[2]))
        st = 'N' if len(sel) < 4 or sel[3] is None else str(sel[3])
        return f'(sl {a} {b} {st})'
    if k == 'mask':
        return '(mask ' + ' '.join('1' if b else '0' for b in sel[1]) + ')'
    raise ValueError(sel)


def sel_py(sel):
    k = sel[0]
    if k == 'all':
        return slice(None)
    if k == 'lab':
        return untok(sel[1])
    if k == 'list':
        return [untok(t) for t in sel[1]]
    if k == 'sl':
        return slice(None if sel[1] is None else untok(sel[1]), None if sel[2] is None else untok(sel[2]),
                     sel[3] if len(sel) > 3 else None)
    if k == 'mask':
        return np.array(sel[1], dtype=bool)
    raise ValueError(sel)


def hloc_key(sels):
    import static_frame as sf
    return sf.HLoc[tuple(sel_py(s) for s in sels)]


class RefErr(Exception):
    pass


def ref_hloc(hts, sels):
    """Lean-independent reference on the list of tuples: positions whose tuple matches every selector, in index
    order except that a list selector orders the matches within its node by the list.
    -> ('ok', positions) | ('err',) when a label slice names a label absent from a visited node."""
    depth = len(hts[0])

    def hsel(s):
        k = s[0]
        if k == 'lab':
            return ('lab', H(untok(s[1])))
        if k == 'list':
            return ('list', [H(untok(t)) for t in s[1]])
        if k == 'sl':
            return ('sl', None if s[1] is None else H(untok(s[1])), None if s[2] is None else H(untok(s[2])),
                    s[3] if len(s) > 3 else None)
        return tuple(s)
    hs = [hsel(s) for s in sels]

    def rec(pos_list, d):
        labs, groups = [], {}
        for p in pos_list:
            l = hts[p][d]
            if l not in groups:
                groups[l] = []
                labs.append(l)
            groups[l].append(p)
        sel = hs[d] if d < len(hs) else ('all',)
        k = sel[0]
        if k == 'mask':
            return [p for p in pos_list if p < len(sel[1]) and sel[1][p]]
        if k == 'all':
            chosen = labs
        elif k == 'lab':
            chosen = [sel[1]] if sel[1] in groups else []
        elif k == 'list':
            chosen = [l for l in sel[1] if l in groups]
        elif k == 'sl':
            a, b = sel[1], sel[2]
            if (a is not None and a not in groups) or (b is not None and b not in groups):
                raise RefErr()
            if sel[3] is not None and sel[3] < 0:
                i = len(labs) - 1 if a is None else labs.index(a)
                j = 0 if b is None else labs.index(b)
                chosen = labs[j:i + 1][::-1]
            else:
                i = 0 if a is None else labs.index(a)
                j = len(labs) - 1 if b is None else labs.index(b)
                chosen = labs[i:j + 1]
        else:
            raise ValueError(sel)
        if d == depth - 1:
            return [groups[l][0] for l in chosen]
        out = []
        for l in chosen:
            out += rec(groups[l], d + 1)
        return out
    try:
        return ('ok', rec(list(range(len(hts))), 0))
    except RefErr:
        return ('err',)


def in_claim(sels, depth):
    """Boolean masks are claimed at the innermost depth only"""
    for d, s in enumerate(sels):
        if s[0] == 'mask' and d != depth - 1:
            return False
    return True


# ----------------------------------------------------------------------------- generation
def gen_tree(rng, quick=True):
    if rng.random() < 0.12:
        # leaves that are automatic integer indices (labels are positions, no map) of different sizes
        return ic.auto_leaf_tuples(rng)
    depth = rng.choice([2, 2, 3, 3, 4])
    toks, kinds = ic.rand_tree_tuples(rng, depth, max_fan=3, max_leaves=rng.choice([1, 2, 4, 6, 9, 12]))
    return toks, kinds


def pick_route(rng, toks, kinds):
    tups = [untok(t) for t in toks]
    hts = [HT(t) for t in tups]
    cands = ['from_labels', 'from_labels_gen', 'type_blocks', 'from_tree', 'copy_ctor', 'from_labels_ctor']
    if len(kinds) == 2:
        cands.append('from_index_items')
    if ic.is_product(hts):
        cands += ['from_product', 'from_product']
    if ic.is_auto_leaf(tups):
        cands = ['from_index_items_auto', 'concat_items_auto', 'concat_items_auto', rng.choice(cands)]
    return rng.choice(cands)


def gen_hloc(rng):
    toks, kinds = gen_tree(rng)
    sels = [rand_sels(rng, toks, kinds) for _ in range(8)]
    # always include a full-tuple selector and a whole-key Boolean mask
    t = untok(rng.choice(toks))
    sels.append([['lab', tok(v)] for v in t])
    return {'k': 'hloc', 'toks': toks, 'kinds': kinds, 'route': pick_route(rng, toks, kinds), 'go': rng.random() < 0.3,
            'materialise': rng.random() < 0.5, 'sels': sels, 'mask': [rng.random() < 0.5 for _ in toks]}


def gen_views(rng):
    toks, kinds = gen_tree(rng)
    return {'k': 'views', 'toks': toks, 'kinds': kinds, 'route': pick_route(rng, toks, kinds), 'go': rng.random() < 0.4,
            'order': rng.sample(['list', 'values', 'vad', 'len', 'depth', 'in', 'loc', 'iloc', 'rev', 'widths'], 10)}


def gen_hist(rng):
    depth = rng.choice([2, 2, 3])
    kinds = [rng.choice('sifD') if d else rng.choice('si') for d in range(depth)]
    toks, kinds = ic.rand_tree_tuples(rng, depth, kinds=kinds, max_fan=2, max_leaves=rng.choice([0, 1, 2, 4]) or 1)
    pools = [ic.LEVEL_POOLS[k] for k in kinds]
    cur = [untok(t) for t in toks]
    ops = []
    reads = ['list', 'values', 'vad', 'len', 'in', 'loc', 'hloc', 'rev', 'depth']
    for _ in range(rng.randint(2, 9)):
        r = rng.random()
        if r < 0.35:
            # a key continuing the right-most path (valid), sometimes an arbitrary one
            last = cur[-1] if cur else None
            if last is not None and rng.random() < 0.85:
                j = rng.randrange(depth)
                key = tuple(last[:j]) + tuple(rng.choice(pools[d]) for d in range(j, depth))
            else:
                key = tuple(rng.choice(pools[d]) for d in range(depth))
            ops.append(['ap', tok(key)])
            if HT(key) not in [HT(t) for t in cur]:
                cur.append(key)
        elif r < 0.45:
            o, _ = ic.rand_tree_tuples(rng, depth, kinds=kinds, max_fan=2, max_leaves=3)
            ops.append(['ex', o])
            if not ({H(untok(t)[0]) for t in o} & {H(t[0]) for t in cur}):
                cur += [untok(t) for t in o]
        else:
            rd = rng.choice(reads)
            if rd == 'vad':
                ops.append(['vad', rng.randrange(depth)])
            elif rd == 'hloc':
                ops.append(['hloc', [['lab', tok(cur[-1][0])]] if cur else [['all']]])
            else:
                ops.append([rd])
    return quiet_variant(rng, {'k': 'hist', 'toks': toks, 'kinds': kinds, 'ops': ops})


def quiet_variant(rng, c):
    """Half of the histories are QUIET: nothing is read from the growing index between its growth calls (the harness only
    looks after the last call and at the explicit read operations of the history; half of the quiet ones have none), so that
    state a growth call leaves pending is still pending when the next growth call arrives."""
    if rng.random() < 0.5:
        c['quiet'] = True
        if rng.random() < 0.5:
            c['ops'] = [op for op in c['ops'] if op[0] in ('ap', 'ex')] or c['ops']
    return c


def product_tuples(rng, depth, kinds, max_leaves=18):
    while True:
        levels = [rng.sample(ic.GROW_POOLS[k][:4], rng.randint(1, 3)) for k in kinds]
        n = 1
        for l in levels:
            n *= len(l)
        if n <= max_leaves:
            return [tuple(t) for t in itertools.product(*levels)]


def gen_hist_routes(rng, depth=None, route=None):
    """grow-only histories that START from every construction / conversion route at depth 3 and 4 (from_product shares
    one ArrayGO of targets between sibling nodes until IndexHierarchy.__init__ copies the levels), with appends whose
    first new label sits at every depth; every view is compared with the reference after every step"""
    depth = depth or rng.choice([3, 3, 4])
    kinds = [rng.choice('sif') for _ in range(depth)]
    route = route or rng.choice(ic.GO_START_ROUTES)
    if route in ('from_product', 'static_product_to_go') or (route in ('copy', 'go_of_go') and rng.random() < 0.6) or rng.random() < 0.25:
        tups = product_tuples(rng, depth, kinds)
    else:
        toks, kinds = ic.rand_tree_tuples(rng, depth, kinds=kinds, max_fan=3, max_leaves=rng.choice([2, 5, 9]))
        tups = [untok(t) for t in toks]
    ops = ic.rand_grow_history(rng, tups, kinds, rng.randint(2, 6))
    return quiet_variant(rng, {'k': 'hist', 'toks': [tok(t) for t in tups], 'kinds': kinds, 'start': route, 'ops': ops})


def fixed_route_histories():
    """deterministic: for every start route, depth 3 and 4, a 2x2x2(x2) product and ONE append whose first new label
    sits at depth j (j = 0 .. depth-1) under the right-most path, and one under the first (closed) parent"""
    for depth in (3, 4):
        kinds = ['s', 's', 'i', 'i'][:depth] if depth == 3 else ['s', 's', 'i', 's']
        levels = [['a', 'b'], ['x', 'y'], [1, 2], ['p', 'q']][:depth]
        tups = [tuple(t) for t in itertools.product(*levels)]
        new = ['c', 'z', 3, 'r']
        for route in ic.GO_START_ROUTES:
            for j in range(depth):
                last = tups[-1]
                key = tuple(last[:j]) + (new[j],) + tuple(levels[d][0] for d in range(j + 1, depth))
                yield {'k': 'hist', 'toks': [tok(t) for t in tups], 'kinds': kinds, 'start': route, 'ops': [['ap', tok(key)], ['values']]}
                if j:
                    first = tups[0]
                    key2 = tuple(first[:j]) + (new[j],) + tuple(levels[d][0] for d in range(j + 1, depth))
                    yield {'k': 'hist', 'toks': [tok(t) for t in tups], 'kinds': kinds, 'start': route,
                           'ops': [['ap', tok(key2)], ['ap', tok(key)], ['list']]}


LEVEL_VALUES = [['a', 'b', 'c'], [1, 2, 3], ['x', 'y', 'z']]


def shape_to_toks(shape):
    return [tok(tuple(LEVEL_VALUES[d][i] for d, i in enumerate(t))) for t in shape]


def all_level_selectors(labs):
    """{each label, each 2-list in both orders, each label slice, all}"""
    out = [['all']]
    for l in labs:
        out.append(['lab', l])
    for a, b in itertools.permutations(labs, 2):
        out.append(['list', [a, b]])
    for i in range(len(labs)):
        for j in range(i, len(labs)):
            out.append(['sl', labs[i], labs[j]])
    return out


def cases(ctx):
    rng = ctx.rng('main')
    quick = ctx.tier == 'quick'
    # the translated LocMap functions under an offset (a node of a hierarchy) against the real ones: all label slices
    yield from lmg.cases(ctx, offsets=(0, 3), sizes=(0, 1, 3), pools=('str',))
    # fixed boundary shapes
    yield {'k': 'hist', 'toks': [], 'kinds': ['s', 'i'], 'ops': [['len'], ['ap', tok(('a', 1))], ['list'], ['values'], ['ap', tok(('a', 2))], ['values'], ['vad', 1]]}
    yield {'k': 'hist', 'toks': [tok(('a', 1)), tok(('b', 1))], 'kinds': ['s', 'i'],
           'ops': [['values'], ['ap', tok(('b', 2))], ['len'], ['values'], ['vad', 0], ['ex', [tok(('c', 1)), tok(('c', 2))]], ['list'], ['values'], ['in']]}
    yield from fixed_route_histories()
    yield {'k': 'hist', 'toks': [], 'kinds': ['s', 'i'], 'ops': [['ex', [tok(('a', 1)), tok(('b', 1))]], ['len']]}
    yield {'k': 'hist', 'toks': [tok(('a', 1)), tok(('b', 1))], 'kinds': ['s', 'i'], 'ops': [['values'], ['ap', tok(('a', 2))], ['list']]}
    if not quick:
        for depth in (2, 3):
            kinds = ['s', 'i', 's'][:depth]
            shapes = list(ic.all_tree_shapes(6, depth, 3))
            ctx.count(f'exhaustive_shapes_depth{depth}', len(shapes))
            for shape in shapes:
                toks = shape_to_toks(shape)
                per_level = [all_level_selectors(labels_at_depth(toks, d)) for d in range(depth)]
                combos = list(itertools.product(*per_level))
                if depth == 3:
                    combos = rng.sample(combos, min(len(combos), 48))
                for i in range(0, len(combos), 16):
                    yield {'k': 'hloc', 'toks': toks, 'kinds': kinds, 'route': 'from_labels', 'go': False, 'materialise': bool(i % 32),
                           'sels': [list(cmb) for cmb in combos[i:i + 16]], 'mask': [(j % 2 == 0) for j in range(len(toks))]}
    for i in range(2200 if quick else 9000):
        yield gen_hloc(rng)
        if i % 2 == 0:
            yield gen_views(rng)
        if i % 2 == 1:
            yield gen_hist(rng)
        if i % 4 == 0:
            yield gen_hist_routes(rng)


def search(ctx):
    rng = ctx.rng('search')
    for i in range(100000):
        yield gen_hloc(rng)
        yield gen_views(rng)
        yield gen_hist(rng)
        yield gen_hist_routes(rng)


# ----------------------------------------------------------------------------- real objects
def build_case_ih(c):
    import static_frame as sf
    tups = [untok(t) for t in c['toks']]
    go = c.get('go', False)
    if not tups:
        return (sf.IndexHierarchyGO if go else sf.IndexHierarchy).from_labels((), depth_reference=len(c['kinds']))
    route = c.get('route', 'from_labels')
    return ic.build_ih(tups, route, go=go, kinds=c['kinds'])


def model_lines(c):
    import static_frame as sf
    k = c['k']
    if k == lmg.K:
        return lmg.model_lines(c)
    intern = Interner()
    depth = len(c['kinds'])
    if k == 'views':
        ih = build_case_ih(c)
        return [f'level.views {ic.level_wire(ih._levels, intern)} {depth}']
    if k == 'hloc':
        ih = build_case_ih(c)
        tree = ic.level_wire(ih._levels, intern)
        return [f'level.loc {tree} ({" ".join(sel_wire(s, intern) for s in sels)})' for sels in c['sels']]
    if k == 'hist':
        line, _ = hist_model_line(c)
        return [line]
    return []


def hist_model_line(c):
    import static_frame as sf
    intern = Interner()
    depth = len(c['kinds'])
    tups = [untok(t) for t in c['toks']]
    ih, _ = ic.build_go_start(tups, c.get('start', 'from_labels'), depth)
    tree0 = ic.level_wire(ih._levels, intern)
    ops = []
    for op in c['ops']:
        if op[0] == 'ap':
            ops.append('(ap ' + intern.labs(untok(op[1])) + ')')
        elif op[0] == 'ex':
            other = sf.IndexHierarchy.from_labels([untok(t) for t in op[1]])
            ops.append('(ex ' + ic.level_wire(other._levels, intern) + ')')
        elif op[0] == 'list':
            ops.append('(iter)')
        elif op[0] == 'values':
            ops.append('(values)')
        elif op[0] == 'vad':
            ops.append(f'(vad {op[1]})')
        elif op[0] == 'len':
            ops.append('(len)')
        else:
            ops.append('(len)')      # reads the state machine does not distinguish (in / loc / rev / depth / hloc): no state change
    return f'hstate.run {tree0} {depth} ({" ".join(ops)})', intern


# ----------------------------------------------------------------------------- evaluation
def evaluate(ctx, c, outs):
    ctx.count('kind_' + c['k'])
    if c['k'] == lmg.K:
        return lmg.evaluate(ctx, c, outs)
    if c['k'] == 'views':
        return eval_views(ctx, c, outs)
    if c['k'] == 'hloc':
        return eval_hloc(ctx, c, outs)
    if c['k'] == 'hist':
        return eval_hist(ctx, c, outs)
    raise ValueError(c['k'])


def observe_views(ih, hts, depth, order, what, c, probes=()):
    """every view of the hierarchy against the list of tuples; returns Failures"""
    fails = []

    def bad(msg, **d):
        fails.append(Failure('oracle', f'{what}: {msg}', c, detail=d or None))
    n = len(hts)
    for ob in order:
        try:
            if ob == 'list':
                got = [HT(t) for t in ih]
                if got != hts:
                    bad(f'list(ih) {got} != tuples {hts}')
            elif ob == 'values':
                v = ih.values
                got = [HT(tuple(r)) for r in v]
                if got != hts or v.shape != (n, depth):
                    bad(f'values rows {got} shape {v.shape} != tuples {hts}')
            elif ob == 'vad':
                for d in range(depth):
                    col = [H(x) for x in ih.values_at_depth(d)]
                    if col != [t[d] for t in hts]:
                        bad(f'values_at_depth({d}) {col} != column {[t[d] for t in hts]}')
            elif ob == 'len':
                if len(ih) != n or ih.shape != (n, depth):
                    bad(f'len {len(ih)} shape {ih.shape} != ({n}, {depth})')
            elif ob == 'depth':
                if ih.depth != depth:
                    bad(f'depth {ih.depth} != {depth}')
            elif ob == 'in':
                labs = list(ih)
                for t in labs:
                    if not (t in ih):
                        bad(f'held tuple {t!r} reported as not in index')
                for p in probes:
                    if len(p) == depth and HT(p) not in hts and (p in ih):
                        bad(f'absent tuple {p!r} reported as in index')
                for t in labs[:2]:
                    for wrong in (tuple(t) + (t[-1],), tuple(t)[:-1]):
                        if wrong in ih:
                            bad(f'key {wrong!r} of length {len(wrong)} (depth {depth}) reported as in index')
            elif ob == 'loc':
                labs = list(ih)
                for i, t in enumerate(labs):
                    p = ih.loc_to_iloc(t)
                    if not isinstance(p, (int, np.integer)) or int(p) != i:
                        bad(f'loc_to_iloc({t!r}) = {p!r}, tuple is at position {i}')
            elif ob == 'iloc':
                for i in range(n):
                    t = ih.iloc[i]
                    if HT(t) != hts[i]:
                        bad(f'iloc[{i}] = {t!r} != {hts[i]}')
            elif ob == 'rev':
                got = [HT(t) for t in reversed(ih)]
                if got != hts[::-1]:
                    bad(f'reversed {got}')
            elif ob == 'widths':
                for d in range(depth):
                    ws = list(ih.label_widths_at_depth(d))
                    exp = [(k, len(list(g))) for k, g in itertools.groupby([t[:d + 1] for t in hts])]
                    got = [(H(l), int(w)) for l, w in ws]
                    if got != [(k[-1], w) for k, w in exp]:
                        bad(f'label_widths_at_depth({d}) {got} != {exp}')
        except Exception as ex:
            bad(f'{ob} raised {type(ex).__name__}: {ex}', exc=type(ex).__name__)
    return fails


def eval_views(ctx, c, outs):
    tups = [untok(t) for t in c['toks']]
    hts = [HT(t) for t in tups]
    depth = len(c['kinds'])
    ih = build_case_ih(c)
    ctx.count('route_' + c['route'])
    ctx.count(f'depth_{depth}')
    a_last = ABSENT.get(c['kinds'][-1])
    probes = [tups[0][:-1] + (a_last,)] if a_last is not None and tups else []
    fails = observe_views(ih, hts, depth, c['order'], f'IH.{c["route"]}{"GO" if c["go"] else ""}', c, probes)
    # a second pass after everything was materialised
    fails += observe_views(ih, hts, depth, ['values', 'list', 'vad', 'len', 'loc'], 'second pass', c)
    if outs:
        m = parse_answer(outs[0])
        if m[0] != 'ok':
            fails.append(Failure('corr', f'model views answered {outs[0]}', c))
        else:
            intern = Interner()
            ic.level_wire(ih._levels, intern)
            inv = ic.inv_map(intern)

            def back(a):
                return 'n:' + a[2:] if a.startswith('i:') else inv.get(a, a)
            mt, mi, mcols, mlen, mdepth = m[1]
            mt = [tuple(back(a) for a in t) for t in mt]
            mi = [tuple(back(a) for a in t) for t in mi]
            mcols = [[back(a) for a in col] for col in mcols]
            if mt != hts or mi != hts:
                fails.append(Failure('corr', f'model tuples/iter {mt} / {mi} vs {hts}', c))
            if mcols != [[t[d] for t in hts] for d in range(depth)] and hts:
                fails.append(Failure('corr', f'model columns {mcols} vs tuples {hts}', c))
            if int(mlen) != len(hts) or (hts and int(mdepth) != depth):
                fails.append(Failure('corr', f'model len/depth {mlen}/{mdepth} vs {len(hts)}/{depth}', c))
    return fails


def eval_hloc(ctx, c, outs):
    import static_frame as sf
    fails = []
    tups = [untok(t) for t in c['toks']]
    hts = [HT(t) for t in tups]
    depth = len(c['kinds'])
    n = len(hts)
    ih = build_case_ih(c)
    ctx.count(f'depth_{depth}')
    if c['materialise']:
        ih.values
    frame = sf.Frame.from_records([[i, i * 10] for i in range(n)], index=ih, columns=('p', 'q'))
    series = sf.Series(list(range(n)), index=ih)
    for si, sels in enumerate(c['sels']):
        key = hloc_key(sels)
        for s in sels:
            ctx.count('sel_' + s[0])
        try:
            r = ('ok', ih.loc_to_iloc(key))
        except Exception as ex:
            r = ('err', err_cat(ex), ex)
        ref = ref_hloc(hts, sels)
        claimed = in_claim(sels, depth)
        full = len(sels) == depth and all(s[0] == 'lab' for s in sels)
        if claimed:
            if ref[0] == 'err':
                ctx.count('ref_slice_endpoint_absent')
                if r[0] == 'ok':
                    fails.append(Failure('oracle', f'HLoc{sels}: a slice endpoint is absent from a visited node but loc_to_iloc returned {r[1]!r}', c, detail={'sel': si}))
            elif not ref[1]:
                ctx.count('ref_matches_nothing')       # outside the claim
            else:
                ctx.count('ref_positions_checked')
                if r[0] != 'ok':
                    fails.append(Failure('oracle', f'HLoc{sels} raised {type(r[2]).__name__}: {r[2]}; matching positions {ref[1]}', c, detail={'sel': si}))
                else:
                    got = ic.ikey_positions(r[1], n)
                    if got != ref[1]:
                        fails.append(Failure('oracle', f'HLoc{sels} selects {got}, expected {ref[1]} (tuples {hts})', c, detail={'sel': si}))
                    elif full and not isinstance(r[1], (int, np.integer)):
                        fails.append(Failure('oracle', f'full tuple HLoc{sels} returned {r[1]!r}, expected the single position', c, detail={'sel': si}))
                    else:
                        # containers indexed hierarchically return exactly those rows
                        try:
                            exp = ref[1]
                            if full:
                                row = frame.loc[key]
                                if int(row['p']) != exp[0] or int(series[key]) != exp[0]:
                                    fails.append(Failure('oracle', f'frame/series [HLoc{sels}] returned row {row.values.tolist()}, expected position {exp[0]}', c, detail={'sel': si}))
                                t = ih.loc[key]
                                if HT(t) != hts[exp[0]]:
                                    fails.append(Failure('oracle', f'ih.loc[HLoc{sels}] = {t!r}', c, detail={'sel': si}))
                            else:
                                tree_ok = ic.tree_ordered([hts[p] for p in exp])
                                if tree_ok:
                                    fr = frame.loc[key]
                                    se = series[key]
                                    gp = [int(x) for x in fr['p'].values]
                                    gs = [int(x) for x in se.values]
                                    if gp != exp or gs != exp:
                                        fails.append(Failure('oracle', f'frame.loc / series[HLoc{sels}] rows {gp} / {gs}, expected {exp}', c, detail={'sel': si}))
                                    gl = [HT(t) for t in fr.index]
                                    if gl != [hts[p] for p in exp]:
                                        fails.append(Failure('oracle', f'frame.loc[HLoc{sels}] index {gl}', c, detail={'sel': si}))
                                    sub = ih.loc[key]
                                    if [HT(t) for t in sub] != [hts[p] for p in exp]:
                                        fails.append(Failure('oracle', f'ih.loc[HLoc{sels}] tuples {[HT(t) for t in sub]}', c, detail={'sel': si}))
                                    for v in ic.check_bijection(sub, expect=[hts[p] for p in exp], what=f'ih.loc[HLoc{sels}]'):
                                        fails.append(Failure('oracle', v, c, detail={'sel': si}))
                        except Exception as ex:
                            fails.append(Failure('oracle', f'extraction with HLoc{sels} raised {type(ex).__name__}: {ex}', c,
                                                 detail={'sel': si, 'exc': type(ex).__name__}))
        else:
            ctx.count('outside_claim_mask_outer')
        if outs and len(outs) == len(c['sels']):
            msg = compare_hloc(outs[si], r, n)
            if msg:
                fails.append(Failure('corr', f'HLoc{sels}: {msg}', c, detail={'sel': si}))
    # the whole key as a Boolean mask
    mask = np.array(c['mask'], dtype=bool)
    try:
        got = ic.ikey_positions(ih.loc_to_iloc(mask), n)
        if got != [i for i, b in enumerate(c['mask']) if b]:
            fails.append(Failure('oracle', f'Boolean whole-key selects {got}', c))
    except Exception as ex:
        fails.append(Failure('oracle', f'Boolean whole-key raised {type(ex).__name__}: {ex}', c))
    return fails


def compare_hloc(model_ans, real, n):
    m = parse_answer(model_ans)
    if m[0] == 'bad':
        return f'model answered {model_ans}'
    if real[0] == 'err':
        if m[0] != 'err' or m[1] != real[1]:
            return f'model {model_ans} vs real {type(real[2]).__name__} ({real[1]})'
        return None
    if m[0] == 'err':
        return f'model {model_ans} vs real {real[1]!r}'
    rk = ic.ikey_kind(real[1])
    mk = {'int': 'int', 'list': 'list', 'sl': 'sl', 'arr': 'list'}[m[1][0]]
    rk = {'arr': 'list'}.get(rk, rk)
    if rk != mk:
        return f'model kind {m[1][0]} vs real {real[1]!r}'
    if ic.ikey_wire_positions(m[1], n) != ic.ikey_positions(real[1], n):
        return f'model positions {ic.ikey_wire_positions(m[1], n)} vs real {real[1]!r}'
    return None


def eval_hist(ctx, c, outs):
    import static_frame as sf
    fails = []
    depth = len(c['kinds'])
    tups = [untok(t) for t in c['toks']]
    start = c.get('start', 'from_labels')
    ih, keep = ic.build_go_start(tups, start, depth)
    ctx.count('hist_start_' + start)
    ctx.count(f'hist_depth_{depth}')
    cur = [HT(t) for t in tups]
    hts0 = list(cur)
    curv = list(tups)
    raised = []
    mutated_after_read = False
    read_seen = False
    for oi, op in enumerate(c['ops']):
        k = op[0]
        if k == 'ap':
            key = untok(op[1])
            hk = HT(key)
            valid = len(key) == depth and hk not in cur and ic.tree_ordered(cur + [hk])
            try:
                ih.append(key)
                r = None
            except Exception as ex:
                r = ex
            raised.append(None if r is None else err_cat(r))
            ctx.count('hist_append_' + ('accepted' if r is None else 'rejected'))
            if r is None:
                f11 = f11_shape(cur, hk)
                if cur and len(key) == depth:
                    first_new = next((j for j in range(depth) if not any(t[:j + 1] == hk[:j + 1] for t in cur)), depth)
                    ctx.count(f'hist_append_first_new_label_at_depth_{first_new}')
                cur.append(hk)
                curv.append(tuple(key))
                mutated_after_read = mutated_after_read or read_seen
                if hk in cur[:-1] or len(key) != depth:
                    fails.append(Failure('oracle', f'append({key!r}) of a held / wrong-depth key was accepted', c, detail={'op': oi, 'f11': f11}))
                elif not valid:
                    fails.append(Failure('oracle', f'append({key!r}) names a closed sub-tree (not a tree in the given order) but was accepted', c,
                                         detail={'op': oi, 'f11': f11}))
            elif valid:
                fails.append(Failure('oracle', f'append({key!r}) (new, in tree order) raised {type(r).__name__}: {r}', c, detail={'op': oi}))
        elif k == 'ex':
            otups = [untok(t) for t in op[1]]
            other = sf.IndexHierarchy.from_labels(otups)
            ho = [HT(t) for t in otups]
            overlap = {t[0] for t in ho} & {t[0] for t in cur}
            was_empty = not cur
            try:
                ih.extend(other)
                r = None
            except Exception as ex:
                r = ex
            raised.append(None if r is None else err_cat(r))
            ctx.count('hist_extend_' + ('accepted' if r is None else 'rejected'))
            if r is None:
                cur += ho
                curv += [tuple(t) for t in otups]
                mutated_after_read = mutated_after_read or read_seen
                if overlap:
                    fails.append(Failure('oracle', 'extend with an outer label already held was accepted', c, detail={'op': oi}))
            elif not overlap and not was_empty:
                fails.append(Failure('oracle', f'extend by {ho} (new outer labels) raised {type(r).__name__}: {r}', c,
                                     detail={'op': oi, 'empty_extend': was_empty}))
        else:
            read_seen = True
            raised.append(None)
        # after every call every view must describe the current tuples (cached arrays included)
        if k in ('ap', 'ex') and c.get('quiet') and oi != len(c['ops']) - 1:
            ctx.count('hist_growth_call_without_read_after')
            continue
        if k in ('ap', 'ex'):
            # after every growth step (accepted or refused) EVERY view is compared with the reference
            order = ['list', 'len', 'values', 'vad', 'widths', 'in', 'loc']
            for msg in ic.check_unchanged(keep, hts0, f'after op {oi} {op[0]}'):
                fails.append(Failure('oracle', msg, c, detail={'op': oi}))
            if cur:
                sel_sets = [[['lab', tok(curv[0][0])]], [['lab', tok(curv[-1][0])]], [['all'], ['lab', tok(curv[-1][1])]],
                            [['lab', tok(v)] for v in curv[-1]], [['lab', tok(v)] for v in curv[0]],
                            [['list', [tok(curv[-1][0]), tok(curv[0][0])] if H(curv[-1][0]) != H(curv[0][0]) else [tok(curv[0][0])]]]]
                for sels in sel_sets:
                    ref = ref_hloc(cur, sels)
                    try:
                        got = ic.ikey_positions(ih.loc_to_iloc(hloc_key(sels)), len(cur))
                        if ref[0] == 'ok' and ref[1] and got != ref[1]:
                            fails.append(Failure('oracle', f'after op {oi}: HLoc{sels} selects {got}, expected {ref[1]} (tuples {cur})', c, detail={'op': oi}))
                    except Exception as ex:
                        if ref[0] == 'ok' and ref[1]:
                            fails.append(Failure('oracle', f'after op {oi}: HLoc{sels} raised {type(ex).__name__}: {ex}', c, detail={'op': oi}))
        elif k == 'hloc':
            order = []
            if cur:
                ref = ref_hloc(cur, op[1])
                try:
                    got = ic.ikey_positions(ih.loc_to_iloc(hloc_key(op[1])), len(cur))
                    if ref[0] == 'ok' and ref[1] and got != ref[1]:
                        fails.append(Failure('oracle', f'after op {oi}: HLoc{op[1]} selects {got}, expected {ref[1]}', c, detail={'op': oi}))
                except Exception as ex:
                    if ref[0] == 'ok' and ref[1]:
                        fails.append(Failure('oracle', f'after op {oi}: HLoc{op[1]} raised {type(ex).__name__}', c, detail={'op': oi}))
        elif k == 'vad':
            order = ['vad']
        else:
            order = [k]
        last_f11 = (k == 'ap' and raised[-1] is None and f11_shape(cur[:-1], cur[-1]))
        vf = observe_views(ih, cur, depth, order, f'after op {oi} {op[0]}', c)
        for f in vf:
            f.detail = dict(f.detail or {}, op=oi, f11=last_f11, empty_extend=(k == 'ex' and not cur and raised[-1] is not None))
        fails += vf
        if vf:
            break
    if not fails:
        # final sweep: all views, twice (before / after materialisation is arbitrary at this point)
        fails += observe_views(ih, cur, depth, ['values', 'list', 'vad', 'len', 'depth', 'in', 'loc', 'iloc', 'rev', 'widths'], 'final', c)
        for msg in ic.check_unchanged(keep, hts0, 'final'):
            fails.append(Failure('oracle', msg, c))
    if mutated_after_read:
        ctx.count('hist_mutation_after_read')
    if outs and not fails:
        intern = hist_model_line(c)[1]
        m = parse_answer(outs[0])
        if m[0] != 'ok':
            fails.append(Failure('corr', f'model history answered {outs[0]}', c))
        else:
            inv = ic.inv_map(intern)
            st = ic.struct_from_sexp(m[1][0], inv)
            rs = ic.level_struct(ih._levels)
            if st != rs:
                fails.append(Failure('corr', f'model tree after history {st} vs real {rs}', c))
            # every read of the model shows the tuples current at that time: replay the reference
            def back(a):
                return 'n:' + a[2:] if a.startswith('i:') else inv.get(a, a)
            ref_cur = [HT(untok(t)) for t in c['toks']]
            for (op, ob, rz) in zip(c['ops'], m[1][1], raised):
                if op[0] in ('ap', 'ex'):
                    if (ob == 'N') != (rz is None):
                        fails.append(Failure('corr', f'model raised {ob} vs real {rz} on {op[0]}', c))
                        break
                    if rz is None:
                        if op[0] == 'ap':
                            ref_cur = None      # what was stored is read back from the final tree
                        else:
                            ref_cur = None
                elif op[0] == 'list' and ob != 'N' and ob[0] == 'tuples' and ref_cur is not None:
                    if [tuple(back(a) for a in t) for t in ob[1]] != ref_cur:
                        fails.append(Failure('corr', f'model iter {ob[1]} vs {ref_cur}', c))
            if [tuple(x) for x in ic.struct_tuples(st)] != cur:
                fails.append(Failure('corr', f'model final tuples {ic.struct_tuples(st)} vs reference {cur}', c))
    return fails


def f11_shape(cur, hk):
    if hk is None or not cur:
        return False
    last = cur[-1]
    if len(hk) != len(last):
        return False
    for d in range(1, len(hk)):
        p = hk[:d]
        if any(t[:d] == p for t in cur) and last[:d] != p:
            return True
        if last[:d] != p:
            return False
    return False


def classify(f):
    return None
