"""C14 - missing-value operations act per cell exactly as specified.

Every case is a Series or a Frame given by (rows, per-column dtype, block layout, missing pattern) plus the
list of operations to run on it.  Cells are identified by integers (0 = missing, 1 + i*m + j = the cell that
was at row i / column j, 9000 = the scalar fill value, 5000 + i*m + j = the cell of the label-aligned fill
container): the Lean model and the pure-Python oracle both answer with a grid of identifiers, and the
real result is compared cell by cell with the value each identifier stands for.
"""
from __future__ import annotations

import datetime
import itertools

import numpy as np

from check import Failure
from sfv import gen
from sfv.props import c14_targets_gen as tgen       # util.slices_from_targets translated from the source (py2lean_targets)

TARGETS = ['SFModel.Props.C14'] + tgen.TARGETS
THEOREMS = [
    'SF.C14.directional_refines', 'SF.C14.directional_backward_refines', 'SF.C14.directional_axis0_refines',
    'SF.C14.series_directional_refines', 'SF.C14.sided_refines', 'SF.C14.sided_axis0_refines',
    'SF.C14.series_sided_refines', 'SF.C14.never_touches_nonmissing', 'SF.C14.spec_never_touches_nonmissing',
    'SF.C14.sided_never_touches_nonmissing', 'SF.C14.at_most_limit', 'SF.C14.at_most_limit_backward',
    'SF.C14.isna_exact', 'SF.C14.dropna_exact', 'SF.C14.dropna_rows_exact', 'SF.C14.dropna_columns_exact',
    'SF.C14.fillna_exact', 'SF.C14.count_exact',
    # pinned-tree behaviour (historical definitions): the three repaired deviations as proved counterexamples
    'SF.C14.pinned_directional_backward_counterexample', 'SF.C14.pinned_dropna_columns_oneD_counterexample',
    'SF.C14.pinned_sided_axis0_zero_rows_counterexample',
] + tgen.THEOREMS
PARTIAL = []
CORR_ONLY = ['dtype resolution of filled blocks (resolve_dtype / astype): compared with == on the real result',
             'label alignment of Series.fillna(Series) / Frame.fillna(Frame) (reindex, isin): the model takes the aligned '
             'container with its coverage mask; the harness builds shuffled partial containers and the oracle aligns by dict',
             'isna_array per dtype kind (NaN / None / NaT): the pattern of missing cells is the input of the model']
RULE = ('Frames: shape <= 3x4 (quick: seeded samples; thorough: EVERY missing pattern of every shape <= 3x4 with float columns x '
        'EVERY block layout x limit 0..4 x both axes x both directions, plus every pattern of shapes <= 2x3 over mixed '
        'float/object/datetime columns with never-missing int/bool/str columns x every layout), each run through isna, notna, '
        'dropna(all/any, both axes), fillna(element / partial shuffled Frame), fillna_by_values, fillna_forward/backward, '
        'fillna_leading/trailing (both axes), count(both axes); Series of length <= 7: every pattern x limit 0..n+1 (quick: <= 4 plus samples). '
        'non-trivial = at least one missing and one non-missing cell; distinct = distinct case JSON')
TRUSTED = ['the integer-identifier encoding of cells (harness/sfv/props/c14.py: ids_of / value_of)',
           'NumPy isnan / isnat / == on single cells when comparing the real result with the expected source cell'] + tgen.TRUSTED
ASSUMPTIONS = ['limit = 0 means unlimited (series.py docstring; checked against the real code by the oracle)',
               'zero-column frames are outside the claim (TypeBlocks.from_blocks of no block raises for every operation)']
BUDGET = {'quick': 70, 'thorough': 780}
SEARCH_BUDGET = {'quick': 30, 'thorough': 120}

NULLABLE = ['float64', 'object', 'datetime64[D]']
NEVER = ['int64', 'bool', 'str']
FILL_ID = 9000
GRID_ID = 5000
MAXLIMIT = 4


# ------------------------------------------------------------------ values
def cell_value(dt, i, j):
    k = 10 * i + j + 1
    if dt == 'float64':
        return float(k) + 0.5
    if dt == 'int64':
        return 100 + k
    if dt == 'bool':
        return bool((i + j) % 2)
    if dt == 'str':
        return f's{k}'
    if dt == 'datetime64[D]':
        return np.datetime64('2020-01-01') + np.timedelta64(k, 'D')
    if dt == 'object':
        return [f'o{k}', k, float(k) + 0.25, (i + j) % 2 == 0][(i + 2 * j) % 4]
    raise ValueError(dt)


def missing_value(dt, i, j):
    if dt == 'float64':
        return np.nan
    if dt == 'datetime64[D]':
        return np.datetime64('NaT')
    if dt == 'object':
        return None if (i + j) % 2 == 0 else np.nan
    raise ValueError(dt)


FILLS = {'float': -7.5, 'int': -7, 'str': 'Z', 'dt': np.datetime64('1999-09-09'), 'bool': True}


def grid_value(kind, k):
    """value of the label-aligned fill container at flat position k"""
    if kind == 'int':
        return 1000 + k
    if kind == 'str':
        return f'g{k}'
    return 1000.5 + k


def is_missing(v):
    if v is None:
        return True
    if isinstance(v, (float, np.floating)):
        return bool(np.isnan(v))
    if isinstance(v, (np.datetime64, np.timedelta64)):
        return bool(np.isnat(v))
    if isinstance(v, (complex, np.complexfloating)):
        return bool(np.isnan(v))
    return False


def as_day(v):
    if isinstance(v, np.datetime64):
        return v.astype('datetime64[D]') if v.astype('datetime64[D]') == v else v
    if isinstance(v, datetime.datetime):
        return np.datetime64(v)
    if isinstance(v, datetime.date):
        return np.datetime64(v, 'D')
    return None


def veq(real, exp, strict=False):
    """Is the real cell the expected source value?  == semantics (dtype widening is legitimate for filled
    blocks); strict additionally requires the same Python/NumPy value class family (no 1 vs 1.0 vs True)."""
    mr, me = is_missing(real), is_missing(exp)
    if mr or me:
        return mr and me
    dr, de = as_day(real), as_day(exp)
    if dr is not None or de is not None:
        return dr is not None and de is not None and bool(dr == de)
    if isinstance(real, (str, np.str_)) or isinstance(exp, (str, np.str_)):
        return isinstance(real, (str, np.str_)) and isinstance(exp, (str, np.str_)) and str(real) == str(exp)
    try:
        same = bool(real == exp)
    except Exception:
        return False
    if same and strict:
        fam = lambda v: 'b' if isinstance(v, (bool, np.bool_)) else 'i' if isinstance(v, (int, np.integer)) else 'f' if isinstance(v, (float, np.floating)) else 'o'
        return fam(real) == fam(exp)
    return same


# ------------------------------------------------------------------ pure-Python oracle on identifier lines
def o_ffill(line, limit):
    out, last, run = [], 0, 0
    for x in line:
        if x == 0:
            run += 1
            out.append(last if last != 0 and (limit == 0 or run <= limit) else 0)
        else:
            last, run = x, 0
            out.append(x)
    return out


def o_bfill(line, limit):
    return o_ffill(line[::-1], limit)[::-1]


def o_leading(line, v):
    out = list(line)
    for k, x in enumerate(line):
        if x != 0:
            break
        out[k] = v
    return out


def o_trailing(line, v):
    return o_leading(line[::-1], v)[::-1]


def by_axis(ids, axis, fn):
    """apply fn to every column (axis 0) or row (axis 1) of the grid"""
    n = len(ids)
    m = len(ids[0]) if n else 0
    if axis == 1:
        return [fn(list(r)) for r in ids]
    cols = [fn([ids[i][j] for i in range(n)]) for j in range(m)]
    return [[cols[j][i] for j in range(m)] for i in range(n)]


# ------------------------------------------------------------------ containers
def ids_of(pattern):
    n = len(pattern)
    m = len(pattern[0]) if n else 0
    return [[0 if pattern[i][j] else 1 + i * m + j for j in range(m)] for i in range(n)]


class Built:
    pass


_INDEX_CACHE = {}


def label_of(kind, i):
    """the label of logical row / column i: NOT in sorted order (alignment is by label, never by sorted rank)"""
    return f'{kind}{(i * 37 + 11) % 64:02d}'


def labels(kind, n):
    import static_frame as sf
    key = (kind, n)
    if key not in _INDEX_CACHE:
        _INDEX_CACHE[key] = sf.Index(tuple(label_of(kind, i) for i in range(n)))
    return _INDEX_CACHE[key]


def build_frame(c):
    """-> Built with .frame, .value(id) lookup, .ids"""
    import static_frame as sf
    n, dts, pattern = c['rows'], c['dts'], c['pat']
    m = len(dts)
    b = Built()
    vals = {}
    arrays = []
    for j, dt in enumerate(dts):
        col = []
        for i in range(n):
            if pattern[i][j]:
                col.append(missing_value(dt, i, j))
            else:
                v = cell_value(dt, i, j)
                vals[1 + i * m + j] = v
                col.append(v)
        arrays.append(make_array(dt, col))
    blocks = []
    j = 0
    for w, is2d in c['layout']:
        part = arrays[j:j + w]
        j += w
        if w == 1 and not is2d:
            blocks.append(part[0])
        else:
            dtp = part[0].dtype if all(p.dtype == part[0].dtype for p in part) else np.result_type(*[p.dtype for p in part])
            blk = np.empty((n, w), dtype=dtp)
            for k, p in enumerate(part):
                blk[:, k] = p
            blocks.append(blk)
    tb = sf.TypeBlocks.from_blocks(blocks)
    b.frame = sf.Frame(tb, index=labels('r', n), columns=labels('c', m), own_data=True, own_index=True, own_columns=True)
    b.vals = vals
    b.ids = ids_of(pattern)
    b.n, b.m = n, m
    b.in_dtypes = [a.dtype for a in arrays]
    return b


def make_array(dt, col):
    if dt == 'object':
        a = np.empty(len(col), dtype=object)
        for i, v in enumerate(col):
            a[i] = v
        return a
    if dt == 'str':
        return np.array(col, dtype=str) if col else np.array([], dtype='<U1')
    return np.array(col, dtype=dt)


def column_arrays(frame):
    return [frame._blocks._extract_array(column_key=j) for j in range(frame.shape[1])]


def cells_of(arr):
    """python-level cells of a 1-D array (datetime64 kept as datetime64)"""
    if arr.dtype.kind in 'mM':
        return list(arr)
    return arr.tolist() if arr.dtype.kind != 'O' else list(arr)


def lay_wire(layout):
    return '(' + ' '.join(f'({w} {int(bool(d))})' for w, d in layout) + ')'


def rows_wire(rows):
    return '(' + ' '.join('(' + ' '.join('N' if x is None else str(x) for x in r) + ')' for r in rows) + ')'


def parse_sexp(s):
    """minimal s-expression reader for driver answers: nested lists of ints"""
    s = s.replace('(', ' ( ').replace(')', ' ) ').split()
    pos = 0

    def rd():
        nonlocal pos
        t = s[pos]
        pos += 1
        if t == '(':
            out = []
            while s[pos] != ')':
                out.append(rd())
            pos += 1
            return out
        return int(t)
    return rd()


def parse_answer(ans):
    if ans.startswith('ok '):
        return ('ok', parse_sexp(ans[3:]))
    if ans.startswith('err '):
        return ('err', ans[4:].strip())
    raise ValueError(f'driver answered {ans!r}')


# ------------------------------------------------------------------ operations of a frame case
def frame_ops(c):
    """the list of operations (JSON-able descriptors) of a frame case, in the order of model_lines"""
    if 'ops' in c:
        return c['ops']
    ops = [['isna'], ['count', 0], ['count', 1]]
    for axis in (0, 1):
        for cond in ('all', 'any'):
            ops.append(['dropna', axis, cond])
    ops.append(['fillna'])
    ops.append(['fillvals'])
    if c.get('other'):
        ops.append(['fillframe'])
    for axis in (0, 1):
        for leading in (1, 0):
            ops.append(['sided', axis, leading])
    ops.append(['dirall'])
    return ops


def other_grid(c):
    """the label-aligned fill container as a grid of ids / None aligned to the frame (None = not covered)"""
    o = c['other']
    n, m = c['rows'], len(c['dts'])
    rset, cset = set(o['rows']), set(o['cols'])
    return [[GRID_ID + i * m + j if (i in rset and j in cset) else None for j in range(m)] for i in range(n)]


def model_lines(c):
    if c['k'] == 'tgrid':
        return tgen.model_lines(c)
    if c['k'] == 'series':
        ids = [0 if p else 1 + i for i, p in enumerate(c['pat'])]
        w = '(' + ' '.join(map(str, ids)) + ')'
        lines = [f'na.s.isna {w}', f'na.s.dropna {w}', f'na.s.count {w}', f'na.s.fillna {FILL_ID} {w}']
        o = '(' + ' '.join(str(GRID_ID + i) if i in set(c['other']) else 'N' for i in range(len(ids))) + ')'
        lines.append(f'na.s.fillnas {o} {w}')
        for lead in (1, 0):
            lines.append(f'na.s.sided {lead} {FILL_ID} {w}')
        for fwd in (1, 0):
            for limit in range(len(ids) + 2):
                lines.append(f'na.s.dir {fwd} {limit} {w}')
        return lines
    lay, rows = lay_wire(c['layout']), rows_wire(ids_of(c['pat']))
    lines = []
    for op in frame_ops(c):
        k = op[0]
        if k == 'isna':
            lines.append(f'na.f.isna {lay} {rows}')
        elif k == 'count':
            ids = ids_of(c['pat'])
            lines.append('na.f.count ' + rows_wire(ids if op[1] == 1 else transpose(ids, len(c['dts']))))
        elif k == 'dropna':
            lines.append(f'na.f.dropna {op[1]} {int(op[2] == "all")} {lay} {rows}')
        elif k == 'fillna':
            lines.append(f'na.f.fillna {FILL_ID} {lay} {rows}')
        elif k == 'fillvals':
            n, m = c['rows'], len(c['dts'])
            lines.append(f'na.f.fillvals {lay} {rows} {rows_wire([[GRID_ID + i * m + j for j in range(m)] for i in range(n)])}')
        elif k == 'fillframe':
            lines.append(f'na.f.fillnag {lay} {rows} {rows_wire(other_grid(c))}')
        elif k == 'sided':
            lines.append(f'na.f.sided {op[1]} {op[2]} {FILL_ID} {lay} {rows}')
        elif k == 'dirall':
            lines.append(f'na.f.dirall {MAXLIMIT} {lay} {rows}')
        elif k == 'dir':
            lines.append(f'na.f.dir {op[1]} {op[2]} {op[3]} {lay} {rows}')
        else:
            raise ValueError(op)
    return lines


def transpose(ids, m):
    return [[r[j] for r in ids] for j in range(m)]


# ------------------------------------------------------------------ comparison of a real Frame with an id grid
def compare_grid(b, res, exp_ids, value_of, what):
    """-> (None | message, differing rows).  Non-missing cells that keep their identifier are compared strictly
    when their column kept its dtype; filled cells with == ."""
    import static_frame as sf
    if not isinstance(res, sf.Frame):
        return f'{what}: returned {type(res).__name__}', set()
    if res.shape != (b.n, b.m):
        return f'{what}: shape {res.shape} != {(b.n, b.m)}', set()
    if list(res.index) != list(b.frame.index) or list(res.columns) != list(b.frame.columns):
        return f'{what}: labels changed', set()
    bad = []
    cols = column_arrays(res)
    for j, arr in enumerate(cols):
        cells = cells_of(arr)
        same_dtype = arr.dtype == b.in_dtypes[j]
        for i in range(b.n):
            e = exp_ids[i][j]
            exp_v = value_of(e)
            own = e == b.ids[i][j]
            if not veq(cells[i], exp_v, strict=own and same_dtype):
                bad.append((i, j, repr(cells[i]), repr(exp_v)))
    if bad:
        i, j, r, e = bad[0]
        return f'{what}: cell ({i},{j}) is {r}, expected {e} ({len(bad)} cell(s) differ)', {x[0] for x in bad}
    return None, set()


def fast_float(c):
    return all(dt == 'float64' for dt in c['dts'])


def lookup_table(b, c):
    """id -> float value table for the all-float fast path"""
    n, m = b.n, b.m
    size = GRID_ID + n * m + 1
    t = np.full(max(FILL_ID + 1, size), np.nan)
    for k, v in b.vals.items():
        t[k] = v
    t[FILL_ID] = FILLS['float']
    for i in range(n):
        for j in range(m):
            t[GRID_ID + i * m + j] = 1000.5 + i * m + j
    return t


def value_lookup(b, c):
    fill = FILLS[c.get('fill', 'float')]
    n, m = b.n, b.m

    def value_of(e, kind='float'):
        if e == 0:
            return None
        if e == FILL_ID:
            return fill
        if e >= GRID_ID:
            return grid_value(kind, e - GRID_ID)
        return b.vals[e]
    return value_of


# ------------------------------------------------------------------ evaluate
def evaluate(ctx, c, outs):
    if c['k'] == 'tgrid':
        return tgen.evaluate(ctx, c, outs)
    if c['k'] == 'series':
        return eval_series(ctx, c, outs)
    return eval_frame(ctx, c, outs)


def run(fn):
    try:
        return ('ok', fn())
    except Exception as ex:  # the class is part of the observation
        return ('err', ex)


def eval_frame(ctx, c, outs):
    import static_frame as sf
    fails = []
    b = build_frame(c)
    f = b.frame
    n, m = b.n, b.m
    ids = b.ids
    ops = frame_ops(c)
    model = [parse_answer(o) for o in outs] if outs else [None] * len(ops)
    value_of = value_of_ = value_lookup(b, c)
    fill = FILLS[c.get('fill', 'float')]
    fast = fast_ = fast_float(c)
    table = lookup_table(b, c) if fast else None
    ctx.count(f'frame_shape_{n}x{m}')
    ctx.count(f'blocks_{min(len(c["layout"]), 4)}')
    if fast:
        ctx.count('fast_float_frames')
    else:
        ctx.count('mixed_dtype_frames')

    def check(what, real, exp_ids, mod_ids, op, vof=None):
        """real: ('ok', Frame) | ('err', ex); exp_ids: oracle grid; mod_ids: model grid or None"""
        fast = fast_ and vof is None and (op[0] in ('dir', 'fillvals') or c.get('fill', 'float') == 'float')
        value_of = vof or value_of_
        if real[0] == 'err':
            ex = real[1]
            fails.append(Failure('oracle', f'{what} raised {type(ex).__name__}: {ex}', c,
                                 detail={'op': op, 'exc': type(ex).__name__, 'model': mod_ids if not isinstance(mod_ids, list) else 'grid'}))
            if isinstance(mod_ids, list):
                fails.append(Failure('corr', f'{what}: real code raised {type(ex).__name__}, model answered a grid', c, detail={'op': op}))
            return
        res = real[1]
        if fast and isinstance(res, sf.Frame) and res.shape == (n, m):
            arr = res.values
            exp = table[np.array(exp_ids, dtype=np.int64).reshape(n, m)]
            ok = arr.dtype == np.float64 and np.array_equal(arr, exp, equal_nan=True)
            msg, rows_bad = (None, set())
            if not ok:
                msg, rows_bad = compare_grid(b, res, exp_ids, value_of, what)
                if msg is None:
                    msg = f'{what}: dtype {arr.dtype} / values differ'
        else:
            msg, rows_bad = compare_grid(b, res, exp_ids, value_of, what)
        agrees = None
        if mod_ids is not None:
            if not isinstance(mod_ids, list):
                fails.append(Failure('corr', f'{what}: model answered {mod_ids}, real code returned a frame', c, detail={'op': op}))
            elif mod_ids != exp_ids:
                m2, _ = compare_grid(b, res, mod_ids, value_of, what)
                agrees = m2 is None
                if not agrees:
                    fails.append(Failure('corr', f'model differs from the real code: {m2}', c, detail={'op': op}))
            elif msg is not None:
                agrees = False
                fails.append(Failure('corr', f'model (= oracle) differs from the real code: {msg}', c, detail={'op': op}))
        if msg is not None:
            fails.append(Failure('oracle', msg, c, detail={'op': op, 'rows': sorted(rows_bad), 'model_agrees': agrees}))

    for op, mod in zip(ops, model):
        k = op[0]
        if k == 'isna':
            ctx.count('op_isna')
            for name, flip, idx in (('isna', False, 0), ('notna', True, 1)):
                real = run(lambda: getattr(f, name)())
                exp = [[(ids[i][j] == 0) != flip for j in range(m)] for i in range(n)]
                if real[0] == 'err':
                    fails.append(Failure('oracle', f'{name} raised {type(real[1]).__name__}: {real[1]}', c, detail={'op': op}))
                    continue
                got = [[bool(x) for x in col.tolist()] for col in column_arrays(real[1])]
                got = [[got[j][i] for j in range(m)] for i in range(n)]
                dts = {str(col.dtype) for col in column_arrays(real[1])}
                if got != exp or dts - {'bool'}:
                    fails.append(Failure('oracle', f'{name}: {got} != {exp} (dtypes {sorted(dts)})', c, detail={'op': op}))
                if mod is not None and (mod[0] != 'ok' or [[bool(x) for x in r] for r in mod[1][idx]] != got):
                    fails.append(Failure('corr', f'{name}: model {mod} vs real {got}', c, detail={'op': op}))
        elif k == 'count':
            ctx.count('op_count')
            axis = op[1]
            real = run(lambda: f.count(axis=axis))
            lines_ = transpose(ids, m) if axis == 0 else ids
            exp = [sum(1 for x in l if x != 0) for l in lines_]
            if real[0] == 'err':
                fails.append(Failure('oracle', f'count(axis={axis}) raised {type(real[1]).__name__}: {real[1]}', c, detail={'op': op}))
                continue
            got = [int(x) for x in real[1].values.tolist()]
            lab = list(real[1].index)
            if got != exp or lab != list(f.columns if axis == 0 else f.index):
                fails.append(Failure('oracle', f'count(axis={axis}) = {got}, expected {exp}', c, detail={'op': op}))
            if mod is not None and (mod[0] != 'ok' or mod[1] != got):
                fails.append(Failure('corr', f'count(axis={axis}): model {mod} vs real {got}', c, detail={'op': op}))
        elif k == 'dropna':
            ctx.count('op_dropna')
            axis, cond = op[1], op[2]
            fn = np.all if cond == 'all' else np.any
            pyf = all if cond == 'all' else any
            real = run(lambda: f.dropna(axis=axis, condition=fn))
            if axis == 0:
                keep_r = [i for i in range(n) if not pyf(x == 0 for x in ids[i])]
                keep_c = list(range(m))
            else:
                keep_r = list(range(n))
                keep_c = [j for j in range(m) if not pyf(ids[i][j] == 0 for i in range(n))]
            if real[0] == 'err':
                ex = real[1]
                fails.append(Failure('oracle', f'dropna(axis={axis}, condition=np.{cond}) raised {type(ex).__name__}: {ex}; '
                                     f'expected rows {keep_r} cols {keep_c}', c, detail={'op': op, 'exc': type(ex).__name__}))
                if mod is not None and mod[0] != 'err':
                    fails.append(Failure('corr', f'dropna: real raised {type(ex).__name__}, model {mod}', c, detail={'op': op}))
                else:
                    ctx.count('dropna_error_mirrored_by_model')
                continue
            res = real[1]
            what = None
            if list(res.index) != [f.index[i] for i in keep_r] or list(res.columns) != [f.columns[j] for j in keep_c]:
                what = f'kept rows {list(res.index)} cols {list(res.columns)}, expected rows {keep_r} cols {keep_c}'
            else:
                cols = column_arrays(res)
                for jj, j in enumerate(keep_c):
                    cells = cells_of(cols[jj])
                    for ii, i in enumerate(keep_r):
                        if not veq(cells[ii], value_of(ids[i][j]), strict=cols[jj].dtype == b.in_dtypes[j]):
                            what = f'cell ({i},{j}) changed to {cells[ii]!r}'
            if what:
                fails.append(Failure('oracle', f'dropna(axis={axis}, condition=np.{cond}): {what}', c, detail={'op': op}))
            if mod is not None and (mod[0] != 'ok' or mod[1] != [keep_r, keep_c]):
                fails.append(Failure('corr', f'dropna(axis={axis}, {cond}): model {mod} vs oracle {[keep_r, keep_c]}', c, detail={'op': op}))
        elif k == 'fillna':
            ctx.count('op_fillna_element')
            exp = [[FILL_ID if x == 0 else x for x in r] for r in ids]
            check(f'fillna({fill!r})', run(lambda: f.fillna(fill)), exp, None if mod is None else mod[1] if mod[0] == 'ok' else mod, op)
        elif k == 'fillvals':
            ctx.count('op_fillna_by_values')
            vals = [np.array([1000.5 + i * m + j for i in range(n)]) for j in range(m)]
            real = run(lambda: sf.Frame(f._blocks.fillna_by_values(vals), index=f.index, columns=f.columns, own_data=True))
            exp = [[GRID_ID + i * m + j if ids[i][j] == 0 else ids[i][j] for j in range(m)] for i in range(n)]
            check('TypeBlocks.fillna_by_values', real, exp, None if mod is None else mod[1] if mod[0] == 'ok' else mod, op)
        elif k == 'fillframe':
            ctx.count('op_fillna_frame')
            o = c['other']
            ro, co = o['rows_order'], o['cols_order']  # may contain labels the frame does not have (>= n / m)
            kind = o.get('kind', 'float')
            ctx.count(f'fillframe_{kind}')
            data = np.array([[grid_value(kind, i * m + j) for j in co] for i in ro],
                            dtype={'float': float, 'int': np.int64, 'str': str}[kind]).reshape(len(ro), len(co))
            other = sf.Frame(data, index=[label_of('r', i) for i in ro], columns=[label_of('c', j) for j in co])
            g = other_grid(c)
            exp = [[(g[i][j] if (ids[i][j] == 0 and g[i][j] is not None) else ids[i][j]) for j in range(m)] for i in range(n)]
            check(f'fillna(Frame[{kind}])', run(lambda: f.fillna(other)), exp, None if mod is None else mod[1] if mod[0] == 'ok' else mod, op,
                  vof=lambda e: value_of(e, kind))
        elif k == 'sided':
            axis, leading = op[1], op[2]
            ctx.count(f'op_sided_axis{axis}')
            meth = f.fillna_leading if leading else f.fillna_trailing
            ofn = o_leading if leading else o_trailing
            exp = by_axis(ids, axis, lambda l: ofn(l, FILL_ID))
            check(f'fillna_{"leading" if leading else "trailing"}({fill!r}, axis={axis})', run(lambda: meth(fill, axis=axis)), exp,
                  None if mod is None else mod[1] if mod[0] == 'ok' else mod, op)
        elif k in ('dirall', 'dir'):
            if k == 'dirall':
                combos = [(axis, fwd, limit) for axis in (0, 1) for fwd in (1, 0) for limit in range(MAXLIMIT + 1)]
                mods = [None] * len(combos) if mod is None else (mod[1] if mod[0] == 'ok' else [mod] * len(combos))
            else:
                combos = [(op[1], op[2], op[3])]
                mods = [None] if mod is None else [mod[1] if mod[0] == 'ok' else mod]
            for (axis, fwd, limit), mo in zip(combos, mods):
                ctx.count(f'op_dir_axis{axis}')
                meth = f.fillna_forward if fwd else f.fillna_backward
                ofn = o_ffill if fwd else o_bfill
                exp = by_axis(ids, axis, lambda l: ofn(l, limit))
                if exp != ids:
                    ctx.count('dir_fills_something')
                check(f'fillna_{"forward" if fwd else "backward"}({limit}, axis={axis})', run(lambda: meth(limit, axis=axis)), exp, mo,
                      ['dir', axis, fwd, limit])
        else:
            raise ValueError(op)
    return fails


def eval_series(ctx, c, outs):
    import static_frame as sf
    fails = []
    dt, pat = c['dt'], c['pat']
    n = len(pat)
    ids = [0 if p else 1 + i for i, p in enumerate(pat)]
    vals = {1 + i: cell_value(dt, i, 0) for i in range(n) if not pat[i]}
    col = [missing_value(dt, i, 0) if pat[i] else vals[1 + i] for i in range(n)]
    arr = make_array(dt, col)
    # the labels of the target are not in sorted order (every alignment below is by label, never by rank)
    tperm = c.get('tperm') or list(range(n))
    s = sf.Series(arr, index=sf.Index([label_of('r', p) for p in tperm]), name='nm', own_index=True)
    fill = FILLS[c.get('fill', 'float')]
    model = [parse_answer(o) for o in outs] if outs else None
    pos = 0
    ctx.count(f'series_len_{n}')
    ctx.count(f'series_{dt}')

    def nxt():
        nonlocal pos
        if model is None:
            return None
        pos += 1
        return model[pos - 1]

    okind = c.get('other_kind', 'float')

    def value_of(e):
        if e == 0:
            return None
        if e == FILL_ID:
            return fill
        if e >= GRID_ID:
            return grid_value(okind, e - GRID_ID)
        return vals[e]

    def check(what, real, exp, mod, op):
        if real[0] == 'err':
            fails.append(Failure('oracle', f'Series.{what} raised {type(real[1]).__name__}: {real[1]}', c, detail={'op': op}))
            return
        res = real[1]
        msg = None
        if not isinstance(res, sf.Series) or len(res) != n or list(res.index) != list(s.index):
            msg = f'Series.{what}: wrong container / labels'
        else:
            cells = cells_of(res.values)
            same = res.values.dtype == arr.dtype
            for i in range(n):
                if not veq(cells[i], value_of(exp[i]), strict=same and exp[i] == ids[i]):
                    msg = f'Series.{what}: cell {i} is {cells[i]!r}, expected {value_of(exp[i])!r}'
                    break
        if msg:
            fails.append(Failure('oracle', msg, c, detail={'op': op}))
        if mod is not None and (mod[0] != 'ok' or mod[1] != exp):
            fails.append(Failure('corr', f'Series.{what}: model {mod} vs oracle {exp}', c, detail={'op': op}))

    # isna / notna
    mod = nxt()
    for name, flip, idx in (('isna', False, 0), ('notna', True, 1)):
        real = run(lambda: getattr(s, name)())
        exp = [(x == 0) != flip for x in ids]
        if real[0] == 'err' or [bool(x) for x in real[1].values.tolist()] != exp or real[1].values.dtype != bool:
            fails.append(Failure('oracle', f'Series.{name} != {exp}', c, detail={'op': [name]}))
        if mod is not None and (mod[0] != 'ok' or [bool(x) for x in mod[1][idx]] != exp):
            fails.append(Failure('corr', f'Series.{name}: model {mod}', c, detail={'op': [name]}))
    # dropna
    mod = nxt()
    real = run(lambda: s.dropna())
    keep = [i for i in range(n) if ids[i] != 0]
    if real[0] == 'err':
        fails.append(Failure('oracle', f'Series.dropna raised {type(real[1]).__name__}: {real[1]}', c, detail={'op': ['dropna']}))
    else:
        res = real[1]
        cells = cells_of(res.values)
        if list(res.index) != [s.index[i] for i in keep] or len(cells) != len(keep) or \
                not all(veq(cells[k], vals[ids[i]], strict=res.values.dtype == arr.dtype) for k, i in enumerate(keep)):
            fails.append(Failure('oracle', f'Series.dropna kept {list(res.index)} {cells}, expected positions {keep}', c, detail={'op': ['dropna']}))
    if mod is not None and (mod[0] != 'ok' or mod[1] != keep):
        fails.append(Failure('corr', f'Series.dropna: model {mod} vs {keep}', c, detail={'op': ['dropna']}))
    # count
    mod = nxt()
    real = run(lambda: s.count())
    if real[0] == 'err' or int(real[1]) != len(keep):
        fails.append(Failure('oracle', f'Series.count = {real[1]!r}, expected {len(keep)}', c, detail={'op': ['count']}))
    if mod is not None and (mod[0] != 'ok' or mod[1] != [len(keep)]):
        fails.append(Failure('corr', f'Series.count: model {mod}', c, detail={'op': ['count']}))
    # fillna element
    check(f'fillna({fill!r})', run(lambda: s.fillna(fill)), [FILL_ID if x == 0 else x for x in ids], nxt(), ['fillna'])
    # fillna Series (partial, shuffled, with foreign labels)
    order = c['other_order']
    other = sf.Series([grid_value(okind, i) for i in order], index=[label_of('r', i) for i in order]) if order else sf.Series((), index=())
    cov = set(c['other'])
    exp = [GRID_ID + tperm[i] if (ids[i] == 0 and tperm[i] in cov) else ids[i] for i in range(n)]
    check('fillna(Series)', run(lambda: s.fillna(other)), exp, nxt() if tperm == list(range(n)) else (nxt(), None)[1], ['fillseries'])
    for lead in (1, 0):
        meth = s.fillna_leading if lead else s.fillna_trailing
        exp = (o_leading if lead else o_trailing)(ids, FILL_ID)
        check(f'fillna_{"leading" if lead else "trailing"}', run(lambda: meth(fill)), exp, nxt(), ['sided', lead])
    for fwd in (1, 0):
        meth = s.fillna_forward if fwd else s.fillna_backward
        for limit in range(n + 2):
            exp = (o_ffill if fwd else o_bfill)(ids, limit)
            check(f'fillna_{"forward" if fwd else "backward"}({limit})', run(lambda: meth(limit)), exp, nxt(), ['dir', fwd, limit])
    return fails


# ------------------------------------------------------------------ classification
def classify(f):
    """no known finding: the three deviations this check found on the pinned tree (dropna(axis=1) on one 1-D
    block, the bridging count of fillna_backward(axis=1), sided fills of a zero-row frame along axis 0) are
    repaired in /repo; those inputs are under the strict oracle"""
    return None


# ------------------------------------------------------------------ generators
def nontrivial(c):
    if c['k'] == 'tgrid':
        return tgen.nontrivial(c)
    if c['k'] == 'series':
        return 0 < sum(c['pat']) < len(c['pat'])
    flat = [x for r in c['pat'] for x in r]
    return 0 < sum(flat) < len(flat)


def patterns(n, nullable_cols, m):
    """every n x m 0/1 grid with ones only in the nullable columns"""
    cells = [(i, j) for i in range(n) for j in nullable_cols]
    for bits in itertools.product((0, 1), repeat=len(cells)):
        g = [[0] * m for _ in range(n)]
        for (i, j), bt in zip(cells, bits):
            g[i][j] = bt
        yield g


def rand_other(rng, n, m):
    rows = [i for i in range(n) if rng.random() < 0.6]
    cols = [j for j in range(m) if rng.random() < 0.6]
    ro = rows + [n + k for k in range(rng.randint(0, 2))]
    co = cols + [m + k for k in range(rng.randint(0, 1))]
    rng.shuffle(ro)
    rng.shuffle(co)
    if not ro or not co:
        return None
    return {'rows': rows, 'cols': cols, 'rows_order': ro, 'cols_order': co, 'kind': rng.choice(['float', 'int', 'str'])}


def series_case(rng, dt, pat):
    n = len(pat)
    cov = [i for i in range(n) if rng.random() < 0.6]
    order = cov + [n + k for k in range(rng.randint(0, 2))]
    rng.shuffle(order)
    tperm = list(range(n))
    if rng.random() < 0.6:
        rng.shuffle(tperm)
    return {'k': 'series', 'dt': dt, 'pat': list(pat), 'tperm': tperm, 'other': cov, 'other_order': order,
            'other_kind': rng.choice(['float', 'int', 'str']), 'fill': rng.choice(fills_for([dt]))}


def fills_for(dts):
    if all(dt == 'float64' for dt in dts):
        return ['float', 'float', 'int']
    return ['float', 'int', 'str', 'dt', 'bool']


def rand_dts(rng, m, mixed=True):
    if not mixed:
        return ['float64'] * m
    out = []
    for j in range(m):
        if out and rng.random() < 0.45:
            out.append(out[-1])
        else:
            out.append(rng.choice(NULLABLE + NULLABLE + NEVER))
    if not any(d in NULLABLE for d in out):
        out[rng.randrange(m)] = rng.choice(NULLABLE)
    return out


def rand_pattern(rng, n, dts, p=None):
    p = rng.choice([0.2, 0.4, 0.6, 0.8]) if p is None else p
    return [[1 if (dts[j] in NULLABLE and rng.random() < p) else 0 for j in range(len(dts))] for i in range(n)]


def frame_case(rng, n, dts, layout, pat, ops=None, other=True):
    c = {'k': 'frame', 'rows': n, 'dts': list(dts), 'layout': [list(x) for x in layout], 'pat': pat,
         'fill': rng.choice(fills_for(dts))}
    if other:
        o = rand_other(rng, n, len(dts))
        if o:
            c['other'] = o
    if ops is not None:
        c['ops'] = ops
    return c


SWEEP_OPS = [['sided', 0, 1], ['sided', 0, 0], ['sided', 1, 1], ['sided', 1, 0], ['dirall']]


def sweep_case(n, m, pat, lay):
    return {'k': 'frame', 'rows': n, 'dts': ['float64'] * m, 'layout': [list(x) for x in lay], 'pat': pat,
            'fill': 'float', 'ops': SWEEP_OPS}


class _Ctx:
    """picklable stand-in for check.Ctx inside pool workers"""
    def __init__(self):
        self.counters = {}

    def count(self, key, n=1):
        self.counters[key] = self.counters.get(key, 0) + n


def _sweep_worker(task):
    import hashlib
    import json
    n, m, lo, hi = task
    ctx = _Ctx()
    lays = gen.layouts_for(['float64'] * m)
    fails, digests, cnt = [], [], 0
    for pi, pat in enumerate(itertools.islice(patterns(n, list(range(m)), m), lo, hi)):
        for lay in lays:
            c = sweep_case(n, m, pat, lay)
            cnt += 1
            for f in eval_frame(ctx, c, []):
                if len(fails) < 50:
                    fails.append((f.kind, f.what, c, f.detail, classify(f)))
                else:
                    fails.append((f.kind, '', None, None, classify(f)))
            if nontrivial(c):
                digests.append(hashlib.sha1(json.dumps(c, sort_keys=True).encode()).digest()[:8])
    return cnt, ctx.counters, fails, digests


def zero_column_frames(ctx):
    """frames with rows but NO column (oracle only): no cell is missing, so isna / notna / fills return the frame as it is, and
    dropna removes a row exactly when the condition holds of its (empty) set of cells - `all` holds vacuously, `any` does not;
    there is no column to remove"""
    import static_frame as sf
    out = []
    for n in (0, 1, 3):
        f = sf.Frame(index=tuple(f'r{i}' for i in range(n)))
        c = {'k': 'zerocol', 'rows': n}
        for axis in (0, 1):
            for cond, fn in (('all', np.all), ('any', np.any)):
                ctx.evaluations += 1
                ctx.count('zero_column_dropna')
                exp_rows = 0 if (axis == 0 and cond == 'all') else n
                try:
                    r = f.dropna(axis=axis, condition=fn)
                    if r.shape != (exp_rows, 0) or list(r.index) != list(f.index)[:exp_rows]:
                        out.append(Failure('oracle', f'dropna(axis={axis}, condition=np.{cond}) of a frame with {n} rows and no column: shape {r.shape}, expected ({exp_rows}, 0)', c))
                except Exception as ex:
                    out.append(Failure('oracle', f'dropna(axis={axis}, condition=np.{cond}) of a frame with {n} rows and no column raised {type(ex).__name__}: {ex}', c))
        for name in ('isna', 'notna'):
            try:
                r = getattr(f, name)()
                if r.shape != (n, 0):
                    out.append(Failure('oracle', f'{name} of a frame with {n} rows and no column: shape {r.shape}', c))
            except Exception as ex:
                out.append(Failure('oracle', f'{name} of a frame with {n} rows and no column raised {type(ex).__name__}: {ex}', c))
    return out


def extra(ctx):
    """thorough tier: EVERY missing pattern of the 3x4 float frame x every layout x limit 0..4 x both axes x both
    directions (+ sided fills) on the real code against the oracle, spread over worker processes."""
    out0 = zero_column_frames(ctx)
    if ctx.tier != 'thorough':
        return out0
    import multiprocessing as mp
    import os
    n, m = 3, 4
    total = 2 ** (n * m)
    step = 32
    tasks = [(n, m, lo, min(lo + step, total)) for lo in range(0, total, step)]
    workers = int(os.environ.get('VERIF_WORKERS', '0') or 0) or max(1, min(8, (os.cpu_count() or 2) // 2))
    out = []
    with mp.get_context('fork').Pool(workers) as pool:
        for cnt, counters, fails, digests in pool.imap_unordered(_sweep_worker, tasks):
            ctx.evaluations += cnt
            ctx.count('sweep_3x4_cases_oracle_only', cnt)
            for k, v in counters.items():
                ctx.count(k, v)
            ctx.distinct.update(digests)
            for kind, what, case, detail, finding in fails:
                if case is not None:
                    out.append(Failure(kind, what, case, finding=finding, detail=detail))
    return out0 + out


def cases(ctx):
    yield from tgen.cases(ctx)      # translated slices_from_targets vs the real generator (grid)
    rng = ctx.rng('main')
    quick = ctx.tier == 'quick'
    # zero-row frames (columns but no rows), every layout of up to three columns: all fills return the empty frame
    # (sided fills along axis 0 raised IndexError on the pinned tree, repaired in /repo c25795d)
    for dts in (['float64'], ['float64', 'float64'], ['object', 'float64'], ['float64', 'float64', 'int64'], ['datetime64[D]', 'str']):
        for lay in gen.layouts_for(dts):
            yield {'k': 'frame', 'rows': 0, 'dts': dts, 'layout': [list(x) for x in lay], 'pat': [], 'fill': 'float',
                   'ops': [['isna'], ['count', 0], ['fillna'], ['sided', 1, 1], ['sided', 1, 0], ['sided', 0, 1], ['sided', 0, 0],
                           ['dir', 0, 1, 0], ['dir', 0, 0, 1], ['dir', 1, 1, 1], ['dir', 1, 0, 1]]}
    # one column stored as ONE 1-D block vs the same column as a 2-D block: dropna along both axes, every pattern
    # (axis=1 raised IndexError / used the row mask on the pinned tree, repaired in /repo 53925e1)
    for dt in NULLABLE:
        for n in (1, 2, 3, 4):
            for pat in itertools.product((0, 1), repeat=n):
                for is2d in (False, True):
                    yield {'k': 'frame', 'rows': n, 'dts': [dt], 'layout': [[1, is2d]], 'pat': [[p] for p in pat], 'fill': 'float',
                           'ops': [['dropna', 0, 'all'], ['dropna', 0, 'any'], ['dropna', 1, 'all'], ['dropna', 1, 'any'], ['isna'], ['count', 0]]}
    # backward / forward limits over EVERY layout of rows with several closed runs of different lengths (the bridging
    # count of fillna_backward(axis=1) came from the wrong run on the pinned tree, repaired in /repo 5a58a46)
    rows6 = [[1, 1, 0, 1, 1, 0], [1, 0, 1, 1, 0, 1], [1, 1, 1, 0, 1, 0], [0, 1, 1, 0, 1, 1], [1, 1, 0, 1, 0, 0]]
    lays6 = gen.layouts_for(['float64'] * 6)
    for row in (rows6[:2] if quick else rows6):
        for lay in lays6:
            yield frame_case(rng, 1, ['float64'] * 6, lay, [row], ops=[['sided', 1, 1], ['sided', 1, 0], ['dirall']], other=False)
    if not quick:
        for lay in lays6:
            yield frame_case(rng, 2, ['float64'] * 6, lay, [rows6[0], rows6[3]], ops=SWEEP_OPS, other=False)
    # ---- Series
    if quick:
        for dt in NULLABLE:
            for n in (0, 1, 2, 3, 4):
                for pat in itertools.product((0, 1), repeat=n):
                    yield series_case(rng, dt, pat)
        for _ in range(60):
            n = rng.randint(4, 7)
            yield series_case(rng, rng.choice(NULLABLE), [int(rng.random() < 0.5) for _ in range(n)])
    else:
        for dt in NULLABLE:
            for n in range(0, 8):
                for pat in itertools.product((0, 1), repeat=n):
                    yield series_case(rng, dt, pat)
    # ---- Frames
    if quick:
        ROW_OPS = [['sided', 1, 1], ['sided', 1, 0], ['dirall']]
        # one-row frames (state threading across blocks): every pattern x every layout for width <= 5, samples above
        for m in (1, 2, 3, 4, 5):
            dts = ['float64'] * m
            for pat in itertools.product((0, 1), repeat=m):
                for lay in gen.layouts_for(dts):
                    yield frame_case(rng, 1, dts, lay, [list(pat)], ops=ROW_OPS, other=False)
        for m, cnt in ((6, 600), (7, 200)):
            dts = ['float64'] * m
            lays = gen.layouts_for(dts)
            for _ in range(cnt):
                yield frame_case(rng, 1, dts, rng.choice(lays), [[int(rng.random() < 0.55) for _ in range(m)]], ops=ROW_OPS, other=False)
        # two-row frames: every pattern x every layout up to 2x3 (block-level shortcuts depend on the other row)
        for m in (1, 2, 3):
            dts = ['float64'] * m
            for pat in patterns(2, list(range(m)), m):
                for lay in gen.layouts_for(dts):
                    yield frame_case(rng, 2, dts, lay, pat, ops=SWEEP_OPS, other=False)
        for _ in range(800):
            n, m = rng.choice([(2, 4), (3, 3), (3, 4), (3, 2), (4, 3)])
            dts = ['float64'] * m
            yield frame_case(rng, n, dts, rng.choice(gen.layouts_for(dts)), rand_pattern(rng, n, dts), ops=SWEEP_OPS, other=False)
        # every operation, mixed dtypes
        for _ in range(1000):
            n, m = rng.randint(1, 3), rng.randint(1, 4)
            dts = rand_dts(rng, m, mixed=rng.random() < 0.7)
            yield frame_case(rng, n, dts, gen.rand_layout(rng, dts), rand_pattern(rng, n, dts))
        for _ in range(60):
            n, m = rng.randint(1, 4), rng.randint(4, 7)
            dts = rand_dts(rng, m, mixed=rng.random() < 0.5)
            yield frame_case(rng, n, dts, gen.rand_layout(rng, dts), rand_pattern(rng, n, dts))
        return
    # thorough: exhaustive float grids (the 3x4 grids run against the oracle in extra(), in parallel; here a
    # deterministic third of them also runs against the Lean model)
    shapes = [(n, m) for n in (1, 2, 3) for m in (1, 2, 3, 4)]
    shapes.sort(key=lambda s: s[0] * s[1])
    for n, m in shapes:
        dts = ['float64'] * m
        lays = gen.layouts_for(dts)
        for pi, pat in enumerate(patterns(n, list(range(m)), m)):
            for li, lay in enumerate(lays):
                if n * m <= 6:
                    yield frame_case(rng, n, dts, lay, pat)
                elif n * m <= 9:
                    yield frame_case(rng, n, dts, lay, pat, ops=SWEEP_OPS + [['dropna', 1, 'any'], ['dropna', 0, 'all'], ['fillvals']], other=False)
                elif (pi + li) % 3 == 0:
                    yield sweep_case(n, m, pat, lay)
    # thorough: mixed dtypes, every pattern of the nullable cells, every layout, shapes <= 2x3 (+ 3x2)
    for n, m in [(1, 2), (2, 2), (1, 3), (2, 3), (3, 2)]:
        for dts in itertools.product(['float64', 'object', 'datetime64[D]', 'int64', 'str', 'bool'], repeat=m):
            nul = [j for j, d in enumerate(dts) if d in NULLABLE]
            if not nul or all(d == 'float64' for d in dts):
                continue
            if m == 3 and rng.random() < 0.6:
                continue
            lays = gen.layouts_for(list(dts))
            for pat in patterns(n, nul, m):
                if n * len(nul) > 4 and rng.random() < 0.7:
                    continue
                for lay in lays:
                    yield frame_case(rng, n, list(dts), lay, pat)
    # thorough: larger random frames
    for _ in range(3000):
        n, m = rng.randint(1, 5), rng.randint(3, 7)
        dts = rand_dts(rng, m, mixed=rng.random() < 0.6)
        yield frame_case(rng, n, dts, gen.rand_layout(rng, dts), rand_pattern(rng, n, dts))


def search(ctx):
    rng = ctx.rng('search')
    for _ in range(200000):
        n, m = rng.randint(1, 3), rng.randint(2, 7)
        dts = rand_dts(rng, m, mixed=rng.random() < 0.5)
        yield frame_case(rng, n, dts, gen.rand_layout(rng, dts), rand_pattern(rng, n, dts))
