"""C06 - index set algebra and label alignment of binary operators.

Case kinds
  set1d    util.union1d / intersect1d / setdiff1d on two arrays (assume_unique or not)
  index    Index.union / intersection / difference (flat, date, mixed object, tuple labels; other as
           Index, array or list)
  ih       IndexHierarchy set operations
  ic       IndexCorrespondence.from_correspondence
  sre      Series.reindex
  fre      Frame.reindex on one or both axes
  sop      Series <op> Series / scalar / unlabelled array (+ permuted operands)
  fop      Frame <op> Frame / Series (axis 0, 1) / scalar / arrays (+ permuted operands, layouts)
  arrleft  ndarray <op> Series/Frame written with the Python operator (reflected form)

Labels are sent to the model as integer ranks (position in Python's order inside a comparability
class); values are integers / Booleans, `N` = missing.
"""
from __future__ import annotations

import itertools
import math
import operator as opmod

import numpy as np

from check import Failure
from sfv import gen
from sfv.canon import tok, untok, err_cat, hash_class

TARGETS = ['SFModel.Props.C06']
THEOREMS = [
    'SF.C06.set_membership', 'SF.C06.set_membership_2d', 'SF.C06.index_set_membership',
    'SF.C06.index_set_membership_array', 'SF.C06.general_path_sorted', 'SF.C06.identical_keeps_order', 'SF.C06.index_identical_keeps_order',
    'SF.C06.reindex_exact', 'SF.C06.binop_aligns_by_label', 'SF.C06.binop_missing_marker',
    'SF.C06.binop_perm_invariant', 'SF.C06.equal_index_keeps_order', 'SF.C06.frame_reindex_exact',
    'SF.C06.frame_binop_zero_columns_counterexample',
    'SF.C06.frame_binop_aligns_by_label', 'SF.C06.frame_binop_perm_invariant', 'SF.C06.frame_series_binop_aligns',
]
PARTIAL = []
CORR_ONLY = [
    'np.union1d / intersect1d / setdiff1d are parameters of the model ("sorted set of ..."), compared on every run',
    'block layouts of the operands (block-compatible / reblock / .values paths of TypeBlocks._ufunc_binary_operator): the model is layout-free, every layout is compared with it',
    'Frame x Series along axis 1, scalars, unlabelled 1-D / 2-D arrays, reflected operator forms (model ops, no theorem)',
    'result dtype of an operator (NumPy); the order of an object-dtype union whose members Python cannot sort',
]
RULE = ('seeded random label lists over small pools (int, str, mixed object, date, tuple, hierarchical; overlapping, disjoint, permuted, '
        'identical, empty) x operation / operator x operand kind x block layout; thorough adds all ordered pairs of duplicate-free label '
        'lists of length <= 4 over 4 labels; non-trivial = at least one operand non-empty; distinct = distinct canonical case JSON')
TRUSTED = ['NumPy set functions and element-wise operators on single arrays are parameters of the model (compared, not proved)',
           'the harness maps labels to integer ranks (Python order inside a comparability class) before calling the model']
ASSUMPTIONS = ['labels are not NaN / NaT; cell values are small integers or Booleans so that results are exact in float64',
               'iterating a frozenset yields each member once (PyOrd.Lawful)']
BUDGET = {'quick': 60, 'thorough': 700}

ARITH = ['add', 'sub', 'mul', 'floordiv']
COMPARE = ['eq', 'ne', 'lt', 'le', 'gt', 'ge']
LOGICAL = ['and', 'or', 'xor']
REFLECTED = ['radd', 'rsub', 'rmul', 'rfloordiv']  # the library defines no __rand__ / __ror__ / __rxor__
DUNDER = {'add': '__add__', 'sub': '__sub__', 'mul': '__mul__', 'floordiv': '__floordiv__', 'eq': '__eq__', 'ne': '__ne__',
          'lt': '__lt__', 'le': '__le__', 'gt': '__gt__', 'ge': '__ge__', 'and': '__and__', 'or': '__or__', 'xor': '__xor__',
          'radd': '__radd__', 'rsub': '__rsub__', 'rmul': '__rmul__', 'rfloordiv': '__rfloordiv__', 'rand': '__rand__',
          'ror': '__ror__', 'rxor': '__rxor__'}
MODEL_OP = {'radd': 'add', 'rmul': 'mul', 'rand': 'and', 'ror': 'or', 'rxor': 'xor'}

MISSING = None


# ------------------------------------------------------------------ reference semantics of one cell
def ref_cell(op, x, y):
    """x, y: python numbers / bools or MISSING. Result: number / bool or MISSING; raises TypeError
    where NumPy cannot combine (logical operator with a missing value)."""
    base = MODEL_OP.get(op, op)
    if base in ('rsub', 'rfloordiv'):
        x, y = y, x
        base = base[1:]
    if base in ARITH:
        if x is MISSING or y is MISSING:
            return MISSING
        if base == 'add':
            return x + y
        if base == 'sub':
            return x - y
        if base == 'mul':
            return x * y
        return x // y
    if base in COMPARE:
        if x is MISSING or y is MISSING:
            return base == 'ne'
        return {'eq': opmod.eq, 'ne': opmod.ne, 'lt': opmod.lt, 'le': opmod.le, 'gt': opmod.gt, 'ge': opmod.ge}[base](x, y)
    if base in LOGICAL:
        if x is MISSING or y is MISSING:
            raise TypeError('logical operator with a missing value')
        return {'and': opmod.and_, 'or': opmod.or_, 'xor': opmod.xor}[base](bool(x), bool(y))
    raise ValueError(op)


def canon_cell(v):
    """cell of a real result -> int or None (missing)"""
    if v is None:
        return None
    if isinstance(v, (float, np.floating)) and math.isnan(float(v)):
        return None
    if isinstance(v, (bool, np.bool_)):
        return int(bool(v))
    if isinstance(v, (int, np.integer)):
        return int(v)
    if isinstance(v, (float, np.floating)):
        fv = float(v)
        if fv != int(fv):
            raise ValueError(f'non-integer cell {v!r}')
        return int(fv)
    raise ValueError(f'unexpected cell {v!r} of type {type(v).__name__}')


def canon_ref(v):
    return None if v is MISSING else int(v)


# ------------------------------------------------------------------ labels -> ranks
def lab_class(v):
    if isinstance(v, (bool, np.bool_, int, np.integer, float, np.floating)):
        return 'n'
    if isinstance(v, (str, np.str_)):
        return 's'
    if v is None:
        return 'N'
    if isinstance(v, np.datetime64):
        return 'd'
    if isinstance(v, tuple):
        return 't(' + ','.join(lab_class(x) for x in v) + ')'
    return 'o:' + type(v).__name__


class Universe:
    """Integer ranks of the labels of one case: inside a comparability class ranks follow Python order."""

    def __init__(self, toks):
        by_key = {}
        for t in toks:
            v = untok(t)
            by_key.setdefault(hash_class(v), v)
        groups = {}
        for k, v in by_key.items():
            groups.setdefault(lab_class(v), []).append((k, v))
        self.rank = {}
        self.classes = []
        self.values = []
        for ci, cname in enumerate(sorted(groups)):
            items = groups[cname]
            try:
                items = sorted(items, key=lambda kv: kv[1])
            except TypeError:
                items = sorted(items, key=lambda kv: kv[0])
            for k, v in items:
                self.rank[k] = len(self.classes)
                self.classes.append(ci)
                self.values.append(v)

    def r(self, v):
        return self.rank[hash_class(v)]

    def rt(self, t):
        return self.rank[hash_class(untok(t))]

    def wire_classes(self):
        return '(' + ' '.join(str(c) for c in self.classes) + ')'

    def multi_class(self, ranks):
        return len({self.classes[r] for r in ranks}) > 1


def wl(xs):
    return '(' + ' '.join(str(x) for x in xs) + ')'


def wv(vs):
    return '(' + ' '.join('N' if v is None else str(int(v)) for v in vs) + ')'


def kind_of_dtype(dt):
    k = np.dtype(dt).kind
    return {'i': 'int', 'u': 'int', 'f': 'float', 'b': 'bool', 'U': 'str', 'S': 'str', 'M': 'dt', 'm': 'dt', 'O': 'obj'}.get(k, 'obj')


def parse_sexp(s):
    """tiny s-expression reader for driver answers: returns nested lists of atoms"""
    toks = s.replace('(', ' ( ').replace(')', ' ) ').split()
    pos = 0

    def rd():
        nonlocal pos
        t = toks[pos]
        pos += 1
        if t == '(':
            out = []
            while toks[pos] != ')':
                out.append(rd())
            pos += 1
            return out
        return t
    out = []
    while pos < len(toks):
        out.append(rd())
    return out


def parse_answer(ans):
    if ans.startswith('ok '):
        return ('ok', parse_sexp(ans[3:])[0])
    if ans.startswith('err '):
        return ('err', ans[4:].strip())
    raise ValueError(f'driver answered {ans!r}')


def ival(a):
    return None if a == 'N' else int(a)


# ------------------------------------------------------------------ building real objects
def arr_from_toks(toks, dtype):
    vals = [untok(t) for t in toks]
    if dtype == 'object':
        a = np.empty(len(vals), dtype=object)
        for i, v in enumerate(vals):
            a[i] = v
        return a
    if dtype == 'str':
        return np.array(vals, dtype=str) if vals else np.array([], dtype='<U1')
    if dtype.startswith('datetime64'):
        return np.array(vals, dtype=dtype)
    return np.array(vals, dtype=dtype)


def build_idx(spec):
    import static_frame as sf
    k = spec['kind']
    labels = [untok(t) for t in spec['labels']]
    if k == 'flat':
        if spec.get('dtype'):
            return sf.Index(arr_from_toks(spec['labels'], spec['dtype']))
        return sf.Index(labels)
    if k == 'date':
        return sf.IndexDate(labels)
    if k == 'ih':
        # labels that form a full product in product order are built by from_product (ONE inner Index object shared by all
        # outer labels): the object identity of nodes must not leak into equality, set operations or alignment
        if labels and all(isinstance(l, tuple) and len(l) == 2 for l in labels):
            outer = list(dict.fromkeys(l[0] for l in labels))
            inner = list(dict.fromkeys(l[1] for l in labels))
            if len(outer) > 1 and labels == [(o, i) for o in outer for i in inner]:
                ih = sf.IndexHierarchy.from_product(outer, inner)
                if list(ih) == labels:
                    return ih
        return sf.IndexHierarchy.from_labels(labels, depth_reference=spec.get('depth', 2))
    raise ValueError(k)


def arr_list(arr):
    arr = np.asarray(arr)
    return list(arr) if arr.dtype.kind in 'mM' else arr.tolist()


def idx_kind(ix):
    v = ix.values
    return kind_of_dtype(v.dtype)


def idx_labels(ix):
    return [x if not isinstance(x, np.ndarray) else tuple(x.tolist()) for x in ix]


def val_array(vals, dtype):
    if dtype == 'bool':
        return np.array([bool(v) for v in vals], dtype=bool)
    if dtype == 'float64':
        return np.array([float(v) for v in vals], dtype=float)
    if dtype == 'object':
        a = np.empty(len(vals), dtype=object)
        for i, v in enumerate(vals):
            a[i] = v
        return a
    return np.array(vals, dtype=dtype)


def build_series(spec):
    import static_frame as sf
    return sf.Series(val_array(spec['values'], spec['dtype']), index=build_idx(spec['index']))


def series_map(s):
    return {hash_class(l): canon_cell(v) for l, v in zip(idx_labels(s.index), s.values.tolist())}


def frame_from_spec(spec, layout=None):
    import static_frame as sf
    n, m = spec['rows'], len(spec['cols'])
    if m == 0:
        tb = sf.TypeBlocks.from_zero_size_shape((n, 0))
    else:
        tb = sf.TypeBlocks.from_blocks(gen.build_blocks(spec, layout))
    return sf.Frame(tb, index=build_idx(spec['index']), columns=build_idx(spec['columns']), own_data=True)


def frame_map(f):
    out = {}
    rl = [hash_class(x) for x in idx_labels(f.index)]
    cl = [hash_class(x) for x in idx_labels(f.columns)]
    for j, c in enumerate(cl):
        arr = f._blocks._extract_array(column_key=j)
        for r, v in zip(rl, arr.tolist()):
            out[(r, c)] = canon_cell(v)
    return out, rl, cl


def spec_cells(spec):
    """(row token, col token) -> python value of a frame spec"""
    rl = [hash_class(untok(t)) for t in spec['index']['labels']]
    cl = [hash_class(untok(t)) for t in spec['columns']['labels']]
    out = {}
    for c, col in zip(cl, spec['cols']):
        for r, t in zip(rl, col['v']):
            out[(r, c)] = untok(t)
    return out, rl, cl


# ------------------------------------------------------------------ label pools
POOLS = {
    'int': ['i:0', 'i:1', 'i:2', 'i:3', 'i:5', 'i:-4', 'i:10', 'i:7'],
    'str': ['s:"a"', 's:"b"', 's:"c"', 's:"d"', 's:"zz"', 's:"ab"', 's:"B"', 's:""'],
    'mixed': ['s:"a"', 's:"b"', 'i:1', 'i:2', 'f:2.5', 'N', 's:"zz"', 'i:-1'],
    'date': ['d:2021-01-01[D]', 'd:2021-01-02[D]', 'd:2021-03-05[D]', 'd:2020-12-31[D]', 'd:2021-02-01[D]', 'd:2022-01-01[D]'],
    'float': ['f:0.5', 'f:1.0', 'f:2.0', 'f:-1.5', 'f:3.0', 'f:10.0'],
    'tuple': ['t:(s:"a" i:1)', 't:(s:"a" i:2)', 't:(s:"b" i:1)', 's:"a"', 's:"c"', 't:(s:"c" i:0)'],
    'ih': ['t:(s:"a" i:1)', 't:(s:"a" i:2)', 't:(s:"b" i:1)', 't:(s:"b" i:3)', 't:(s:"c" i:2)', 't:(s:"c" i:1)', 't:(s:"b" i:2)', 't:(s:"a" i:3)'],
    'ihs': ['t:(s:"a" s:"x")', 't:(s:"a" s:"y")', 't:(s:"b" s:"x")', 't:(s:"b" s:"z")', 't:(s:"c" s:"y")'],
    'ihi': ['t:(i:1 i:1)', 't:(i:1 i:2)', 't:(i:2 i:1)', 't:(i:0 i:3)', 't:(i:2 i:2)'],
    'ihm': ['t:(s:"a" i:1)', 't:(i:1 s:"a")', 't:(s:"b" i:1)', 't:(i:2 i:2)', 't:(s:"c" s:"a")'],
}


def index_spec(pool, labels):
    if pool == 'date':
        return {'kind': 'date', 'labels': labels}
    if pool in ('ih', 'ihs', 'ihi', 'ihm'):
        return {'kind': 'ih', 'labels': labels, 'depth': 2}
    return {'kind': 'flat', 'labels': labels}


IH_POOLS = ('ih', 'ihs', 'ihi', 'ihm')


def tree_order(labels):
    """IndexHierarchy wants tree form: labels with the same outer label contiguous (first-appearance order)."""
    groups = {}
    for t in labels:
        groups.setdefault(tok(untok(t)[0]), []).append(t)
    return [t for g in groups.values() for t in g]


def rand_pair_labels(rng, pool, maxlen=5):
    a, b, rel = rand_pair_labels0(rng, pool, maxlen)
    if pool in IH_POOLS:
        a, b = tree_order(a), tree_order(b)
    return a, b, rel


def rand_pair_labels_cols(rng, pool, maxlen=5):
    """column labels of Frame operands: never empty (zero-column Frames that still have rows are a systemic
    limitation of the library: .values, isna, operators, fillna, astype raise on them)"""
    while True:
        a, b, rel = rand_pair_labels(rng, pool, maxlen)
        if a and b:
            return a, b, rel


def rand_perm_for(rng, pool, labels):
    """positions permutation; hierarchical labels keep tree form"""
    n = len(labels)
    if pool not in IH_POOLS:
        return rand_perm(rng, n)
    groups = {}
    for i, t in enumerate(labels):
        groups.setdefault(tok(untok(t)[0]), []).append(i)
    gs = list(groups.values())
    rng.shuffle(gs)
    out = []
    for g in gs:
        rng.shuffle(g)
        out.extend(g)
    return out


def rand_pair_labels0(rng, pool, maxlen=5):
    """two label lists with a chosen relation"""
    p = POOLS[pool]
    rel = rng.choice(['overlap', 'overlap', 'disjoint', 'perm', 'same', 'empty_a', 'empty_b', 'subset', 'both_empty'])
    n = rng.randint(1, min(maxlen, len(p)))
    a = rng.sample(p, n)
    if rel == 'overlap':
        b = rng.sample(p, rng.randint(1, min(maxlen, len(p))))
    elif rel == 'disjoint':
        rest = [x for x in p if x not in a]
        b = rng.sample(rest, rng.randint(0, min(len(rest), maxlen)))
    elif rel == 'perm':
        b = list(a)
        rng.shuffle(b)
    elif rel == 'same':
        b = list(a)
    elif rel == 'empty_a':
        a, b = [], a
    elif rel == 'empty_b':
        b = []
    elif rel == 'subset':
        b = rng.sample(a, rng.randint(0, len(a)))
    else:
        a, b = [], []
    return a, b, rel


# ------------------------------------------------------------------ case generation
def nontrivial(c):
    return c.get('n', 1) > 0


def rand_values(rng, n, dtype, nonzero=False):
    if dtype == 'bool':
        return [rng.randint(0, 1) for _ in range(n)]
    lo = 1 if nonzero else -3
    vals = [rng.randint(lo, 9) for _ in range(n)]
    if nonzero:
        vals = [v if rng.random() < 0.8 else -v for v in vals]
    return vals


def rand_series_spec(rng, pool, labels, op, right=False):
    if op in LOGICAL or MODEL_OP.get(op) in LOGICAL:
        dt = 'bool'
    elif op in COMPARE:
        dt = rng.choice(['int64', 'float64', 'bool', 'int64'])
    else:
        dt = rng.choice(['int64', 'int64', 'float64'])
    nz = op in ('floordiv', 'rfloordiv')
    return {'index': index_spec(pool, labels), 'values': rand_values(rng, len(labels), dt, nonzero=nz), 'dtype': dt}


def rand_frame_spec(rng, rpool, cpool, rl, cl, op):
    n, m = len(rl), len(cl)
    nz = op in ('floordiv', 'rfloordiv')
    dts = []
    for j in range(m):
        if dts and rng.random() < 0.5:
            dts.append(dts[-1])
        elif op in LOGICAL or MODEL_OP.get(op) in LOGICAL:
            dts.append('bool')
        elif op in COMPARE:
            dts.append(rng.choice(['int64', 'float64', 'bool']))
        else:
            dts.append(rng.choice(['int64', 'float64']))
    cols = []
    for dt in dts:
        vals = rand_values(rng, n, dt, nonzero=nz)
        if dt == 'bool':
            toks = [f'b:{v}' for v in vals]
        elif dt == 'float64':
            toks = [tok(float(v)) for v in vals]
        else:
            toks = [f'i:{v}' for v in vals]
        cols.append({'dt': dt, 'v': toks})
    return {'index': index_spec(rpool, rl), 'columns': index_spec(cpool, cl), 'cols': cols,
            'layout': gen.rand_layout(rng, dts), 'rows': n}


def all_nodup_lists(labels, maxlen):
    for k in range(0, maxlen + 1):
        for p in itertools.permutations(labels, k):
            yield list(p)


def cases(ctx):
    rng = ctx.rng('main')
    quick = ctx.tier == 'quick'
    # ---- known oddities, replayed on every run
    yield {'k': 'dtunits', 'n': 1}
    yield {'k': 'index', 'pool': 'tuple', 'a': ['i:2'], 'b': ['t:(i:1 i:2)'], 'adt': None, 'bdt': None, 'other': 'index', 'n': 1}
    yield {'k': 'index', 'pool': 'tuple', 'a': ['f:2.5'], 'b': ['t:()'], 'adt': None, 'bdt': None, 'other': 'index', 'n': 1}
    yield {'k': 'fre', 'spec': {'index': index_spec('int', ['i:0', 'i:1']), 'columns': index_spec('int', ['i:0', 'i:1']),
                                'cols': [{'dt': 'int64', 'v': ['i:1', 'i:3']}, {'dt': 'int64', 'v': ['i:2', 'i:4']}],
                                'layout': [[1, False], [1, False]], 'rows': 2},
           'ni': index_spec('int', ['i:0', 'i:2']), 'nc': index_spec('int', ['i:5', 'i:6']), 'fill': -1, 'n': 4}
    yield {'k': 'fre', 'spec': {'index': index_spec('int', ['i:0', 'i:1']), 'columns': index_spec('int', ['i:0', 'i:1']),
                                'cols': [{'dt': 'int64', 'v': ['i:1', 'i:3']}, {'dt': 'int64', 'v': ['i:2', 'i:4']}],
                                'layout': [[1, False], [1, False]], 'rows': 2},
           'ni': index_spec('int', ['i:2', 'i:3']), 'nc': index_spec('int', ['i:0', 'i:5']), 'fill': -1, 'n': 4}
    yield {'k': 'arrleft', 'a': {'index': index_spec('int', ['i:10', 'i:20', 'i:30']), 'values': [1, 2, 3], 'dtype': 'int64'},
           'arr': [100, 200, 300], 'op': 'sub', 'n': 3}
    yield {'k': 'rlogical', 'a': {'index': index_spec('str', ['s:"a"', 's:"b"']), 'values': [1, 0], 'dtype': 'bool'}, 'v': True, 'n': 2}

    n_set = 900 if quick else 8000
    for _ in range(n_set):
        pool = rng.choice(['int', 'str', 'mixed', 'date', 'float', 'tuple', 'int', 'str'])
        a, b, rel = rand_pair_labels(rng, pool)
        kind = rng.choice(['set1d', 'index', 'index', 'ic'])
        if kind == 'set1d':
            au = rng.random() < 0.6
            if not au and rng.random() < 0.6:
                # repeats allowed when uniqueness is not assumed
                a = a + rng.sample(a, rng.randint(0, len(a))) if a else a
                b = b + rng.sample(b, rng.randint(0, len(b))) if b else b
                rng.shuffle(a)
                rng.shuffle(b)
            yield {'k': 'set1d', 'pool': pool, 'a': a, 'b': b, 'au': au, 'rel': rel, 'n': len(a) + len(b),
                   'adt': array_dtype(rng, pool, a), 'bdt': array_dtype(rng, pool, b)}
        elif kind == 'index':
            yield {'k': 'index', 'pool': pool, 'a': a, 'b': b, 'rel': rel, 'n': len(a) + len(b),
                   'adt': array_dtype(rng, pool, a) if pool != 'date' else None,
                   'bdt': array_dtype(rng, pool, b) if pool != 'date' else None,
                   'other': rng.choice(['index', 'index', 'array', 'list'])}
        else:
            yield {'k': 'ic', 'pool': pool, 'a': a, 'b': b, 'rel': rel, 'n': len(a) + len(b),
                   'adt': array_dtype(rng, pool, a) if pool != 'date' else None,
                   'bdt': array_dtype(rng, pool, b) if pool != 'date' else None}
    for _ in range(200 if quick else 2000):
        pool = rng.choice(['ih', 'ihs', 'ihi', 'ihm'])
        a, b, rel = rand_pair_labels(rng, pool)
        yield {'k': 'ih', 'pool': pool, 'a': a, 'b': b, 'rel': rel, 'n': len(a) + len(b)}
    # product-shaped hierarchies (built by from_product: shared inner Index objects) against a tree that differs in ONE label
    prng = ctx.rng('product')
    for _ in range(120 if quick else 1200):
        outers = ['a', 'b', 'c'][: prng.randint(2, 3)]
        inners = [1, 2, 3][: prng.randint(2, 3)]
        a = [tok((o, i)) for o in outers for i in inners]
        b = list(a)
        pos = prng.randrange(len(b))
        o_, i_ = untok(b[pos])
        if prng.random() < 0.8:
            b[pos] = tok((o_, 9))
        if prng.random() < 0.3:
            a, b = b, a
        yield {'k': 'ih', 'pool': 'ih', 'a': a, 'b': b, 'rel': 'product-one-label', 'n': len(a) + len(b)}

    for _ in range(400 if quick else 4000):
        pool = rng.choice(['int', 'str', 'mixed', 'date', 'ih'])
        a, b, rel = rand_pair_labels(rng, pool)
        s = rand_series_spec(rng, pool, a, 'add')
        yield {'k': 'sre', 'pool': pool, 's': s, 'ni': index_spec(pool, b), 'fill': rng.choice([None, -1, 0]),
               'ce': rng.random() < 0.5, 'rel': rel, 'n': len(a) + len(b)}

    for _ in range(400 if quick else 4000):
        rpool = rng.choice(['int', 'str', 'mixed', 'date'])
        cpool = rng.choice(['int', 'str', 'mixed'])
        ra, rb, rrel = rand_pair_labels(rng, rpool, 4)
        ca, cb, crel = rand_pair_labels_cols(rng, cpool, 4)
        spec = rand_frame_spec(rng, rpool, cpool, ra, ca, 'add')
        mode = rng.choice(['both', 'both', 'index', 'columns'])
        yield {'k': 'fre', 'spec': spec, 'ni': index_spec(rpool, rb) if mode != 'columns' else None,
               'nc': index_spec(cpool, cb) if mode != 'index' else None, 'fill': rng.choice([None, -1]),
               'n': len(ra) * len(ca) + len(rb) * len(cb)}

    ops_all = ARITH + COMPARE + LOGICAL
    for _ in range(1000 if quick else 12000):
        pool = rng.choice(['int', 'str', 'mixed', 'date', 'ih', 'int', 'str'])
        a, b, rel = rand_pair_labels(rng, pool)
        other = rng.choice(['series', 'series', 'series', 'series', 'scalar', 'array'])
        op = rng.choice(ops_all + (REFLECTED if other != 'series' else []))
        if (op in LOGICAL or MODEL_OP.get(op) in LOGICAL) and other == 'series' and rng.random() < 0.7 and a:
            b = shuffled(rng, pool, a)
            rel = 'perm'
        sa = rand_series_spec(rng, pool, a, op)
        c = {'k': 'sop', 'pool': pool, 'op': op, 'a': sa, 'other': other, 'rel': rel, 'n': len(a) + len(b) + 1,
             'pa': rand_perm_for(rng, pool, a)}
        if other == 'series':
            c['b'] = rand_series_spec(rng, pool, b, op, right=True)
            c['pb'] = rand_perm_for(rng, pool, b)
        elif other == 'scalar':
            c['v'] = scalar_for(rng, op)
        else:
            ln = len(a) if rng.random() < 0.85 else len(a) + (2 if len(a) == 0 else 1)
            c['arr'] = rand_values(rng, ln, 'bool' if (op in LOGICAL or MODEL_OP.get(op) in LOGICAL) else 'int64',
                                   nonzero=op in ('floordiv', 'rfloordiv'))
        yield c

    for _ in range(1000 if quick else 12000):
        rpool = rng.choice(['int', 'str', 'mixed', 'date', 'ih'])
        cpool = rng.choice(['int', 'str', 'mixed', 'ih'])
        ra, rb, rrel = rand_pair_labels(rng, rpool, 4)
        ca, cb, crel = rand_pair_labels_cols(rng, cpool, 4)
        other = rng.choice(['frame', 'frame', 'frame', 'frame', 'series0', 'series0', 'series1', 'scalar', 'a1_0', 'a1_1', 'a2'])
        op = rng.choice(ops_all + (REFLECTED if other in ('scalar', 'a1_0', 'a2') else []))
        logical = op in LOGICAL or MODEL_OP.get(op) in LOGICAL
        if logical and rng.random() < 0.7:
            if ra:
                rb = shuffled(rng, rpool, ra)
            if ca:
                cb = shuffled(rng, cpool, ca)
        fa = rand_frame_spec(rng, rpool, cpool, ra, ca, op)
        c = {'k': 'fop', 'op': op, 'a': fa, 'other': other, 'n': len(ra) * len(ca) + 1,
             'pra': rand_perm_for(rng, rpool, ra), 'pca': rand_perm_for(rng, cpool, ca), 'rpool': rpool, 'cpool': cpool}
        if other == 'frame':
            c['b'] = rand_frame_spec(rng, rpool, cpool, rb, cb, op)
            c['prb'] = rand_perm_for(rng, rpool, rb)
            c['pcb'] = rand_perm_for(rng, cpool, cb)
        elif other == 'series0':
            if logical and ca:
                cb = shuffled(rng, cpool, ca)
            c['b'] = rand_series_spec(rng, cpool, cb, op)
            c['pb'] = rand_perm_for(rng, cpool, cb)
        elif other == 'series1':
            if logical and ra:
                rb = shuffled(rng, rpool, ra)
            c['b'] = rand_series_spec(rng, rpool, rb, op)
            c['pb'] = rand_perm_for(rng, rpool, rb)
        elif other == 'scalar':
            c['v'] = scalar_for(rng, op)
        elif other in ('a1_0', 'a1_1'):
            ln = len(ca) if other == 'a1_0' else len(ra)
            if rng.random() < 0.1:
                ln += 2 if ln == 0 else 1
            c['arr'] = rand_values(rng, ln, 'bool' if logical else 'int64', nonzero=op in ('floordiv', 'rfloordiv'))
        else:
            c['arr2'] = [rand_values(rng, len(ra), 'bool' if logical else 'int64', nonzero=op in ('floordiv', 'rfloordiv'))
                         for _ in ca]
        yield c

    if not quick:
        # exhaustive small scope: all ordered pairs of duplicate-free lists of length <= 4 over 4 labels
        for pool, labs in (('int', ['i:1', 'i:2', 'i:3', 'i:4']), ('mixed', ['s:"a"', 'i:1', 's:"b"', 'N'])):
            lists = list(all_nodup_lists(labs, 4))
            for a in lists:
                for b in lists:
                    if ctx.out_of_time():
                        return
                    n = len(a) + len(b)
                    yield {'k': 'index', 'pool': pool, 'a': a, 'b': b, 'rel': 'all', 'n': n, 'adt': None, 'bdt': None, 'other': 'index'}
                    if pool == 'int':
                        sa = {'index': index_spec(pool, a), 'values': [10 + int(t[2:]) for t in a], 'dtype': 'int64'}
                        sb = {'index': index_spec(pool, b), 'values': [100 * int(t[2:]) for t in b], 'dtype': 'int64'}
                        yield {'k': 'sop', 'pool': pool, 'op': 'add', 'a': sa, 'b': sb, 'other': 'series', 'rel': 'all', 'n': n + 1,
                               'pa': list(reversed(range(len(a)))), 'pb': list(reversed(range(len(b))))}
                        yield {'k': 'sre', 'pool': pool, 's': sa, 'ni': index_spec(pool, b), 'fill': -1, 'ce': True, 'rel': 'all', 'n': n}
                        yield {'k': 'ic', 'pool': pool, 'a': a, 'b': b, 'rel': 'all', 'n': n, 'adt': None, 'bdt': None}


def shuffled(rng, pool, labels):
    return [labels[i] for i in rand_perm_for(rng, pool, labels)]


def rand_perm(rng, n):
    p = list(range(n))
    rng.shuffle(p)
    return p


def scalar_for(rng, op):
    if op in LOGICAL or MODEL_OP.get(op) in LOGICAL:
        return bool(rng.randint(0, 1))
    if op in ('floordiv', 'rfloordiv'):
        return rng.choice([1, 2, 3, -2, 7])
    return rng.randint(-3, 9)


def array_dtype(rng, pool, labels):
    """dtype of the array holding these labels"""
    vals = [untok(t) for t in labels]
    if pool == 'int':
        return rng.choice(['int64', 'int64', 'float64', 'object'])
    if pool == 'float':
        return rng.choice(['float64', 'object'])
    if pool == 'str':
        return rng.choice(['str', 'str', 'object'])
    if pool == 'date':
        return 'datetime64[D]'
    return 'object'


# ------------------------------------------------------------------ model lines
def case_universe(c):
    if c['k'] == 'ih':   # hierarchical labels: the atoms of the tuples are ranked
        return case_universe_ih(c)
    toks = []

    def add_idx(sp):
        if sp:
            toks.extend(sp['labels'])
    k = c['k']
    if k in ('set1d', 'index', 'ic', 'ih'):
        toks.extend(c['a'])
        toks.extend(c['b'])
    elif k == 'sre':
        add_idx(c['s']['index'])
        add_idx(c['ni'])
    elif k == 'fre':
        add_idx(c['spec']['index'])
        add_idx(c['spec']['columns'])
        add_idx(c['ni'])
        add_idx(c['nc'])
    elif k == 'sop':
        add_idx(c['a']['index'])
        if c['other'] == 'series':
            add_idx(c['b']['index'])
    elif k == 'fop':
        add_idx(c['a']['index'])
        add_idx(c['a']['columns'])
        if c['other'] == 'frame':
            add_idx(c['b']['index'])
            add_idx(c['b']['columns'])
        elif c['other'] in ('series0', 'series1'):
            add_idx(c['b']['index'])
    return Universe(toks)


def real_kind_idx(spec):
    return idx_kind(build_idx(spec)) if spec['kind'] != 'ih' else ih_kind(spec)


def ih_kind(spec):
    if not spec['labels']:
        return 'obj'
    ix = build_idx(spec)
    return kind_of_dtype(ix.values.dtype)


def w_series(u, spec):
    k = real_kind_idx(spec['index'])
    return f"(sr {k} {wl(u.rt(t) for t in spec['index']['labels'])} {wv(spec['values'])})"


def w_frame(u, spec):
    ik = real_kind_idx(spec['index'])
    ck = real_kind_idx(spec['columns'])
    cols = '(' + ' '.join(wv([untok(t) for t in col['v']]) for col in spec['cols']) + ')'
    return (f"(fr {ik} {wl(u.rt(t) for t in spec['index']['labels'])} {ck} "
            f"{wl(u.rt(t) for t in spec['columns']['labels'])} {cols})")


def set_arrays(c):
    a = arr_from_toks(c['a'], c['adt'])
    b = arr_from_toks(c['b'], c['bdt'])
    return a, b


def model_lines(c):
    k = c['k']
    if k in ('arrleft', 'rlogical', 'dtunits'):
        return []
    u = case_universe(c)
    cl = u.wire_classes()
    if k == 'set1d':
        a, b = set_arrays(c)
        ka, kb = kind_of_dtype(a.dtype), kind_of_dtype(b.dtype)
        return [f"set.1d {op} {ka} {kb} {wl(u.rt(t) for t in c['a'])} {wl(u.rt(t) for t in c['b'])} {int(c['au'])} {cl}"
                for op in ('union', 'inter', 'diff')]
    if k in ('index', 'ic'):
        ia, ib = flat_pair(c)
        ka, kb = idx_kind(ia), idx_kind(ib)
        ra, rb = wl(u.rt(t) for t in c['a']), wl(u.rt(t) for t in c['b'])
        if k == 'ic':
            return [f'set.ic {ka} {ra} {kb} {rb} {cl}']
        if c['other'] == 'list':
            arr, uniq = list_operand_array(c)
            kb = kind_of_dtype(arr.dtype)
            return [f'set.index_iter {op} {ka} {ra} {kb} {rb} {int(bool(uniq))} {cl}' for op in ('union', 'inter', 'diff')]
        name = 'set.index' if c['other'] == 'index' else 'set.index_array'
        return [f'{name} {op} {ka} {ra} {kb} {rb} {cl}' for op in ('union', 'inter', 'diff')]
    if k == 'ih':
        ia, ib = build_idx(index_spec(c['pool'], c['a'])), build_idx(index_spec(c['pool'], c['b']))
        ka = kind_of_dtype(ia.values.dtype)
        kb = kind_of_dtype(ib.values.dtype)
        rows = lambda ls: '(' + ' '.join(wl(u.r(x) for x in untok(t)) for t in ls) + ')'
        lines = []
        for op in ('union', 'inter', 'diff'):
            srt = ih_sortable(c, op)
            lines.append(f"set.2d {op} {ka} {kb} {rows(c['a'])} {rows(c['b'])} 1 {int(srt)}")
        return lines
    if k == 'sre':
        kn = real_kind_idx(c['ni'])
        fill = 'N' if c['fill'] is None else str(c['fill'])
        return [f"set.reindex {w_series(u, c['s'])} {kn} {wl(u.rt(t) for t in c['ni']['labels'])} {fill} {int(c['ce'])} {cl}"]
    if k == 'fre':
        def oi(sp):
            return 'N' if sp is None else f"({real_kind_idx(sp)} {wl(u.rt(t) for t in sp['labels'])})"
        fill = 'N' if c['fill'] is None else str(c['fill'])
        return [f"set.freindex {w_frame(u, c['spec'])} {oi(c['ni'])} {oi(c['nc'])} {fill} {cl}"]
    if k == 'sop':
        op = MODEL_OP.get(c['op'], c['op'])
        if c['other'] == 'series':
            other = w_series(u, c['b'])
        elif c['other'] == 'scalar':
            other = f"(sc {int(c['v'])})"
        else:
            other = f"(a1 {wv(c['arr'])})"
        return [f"set.sbinop {op} {w_series(u, c['a'])} {other} {cl}"]
    if k == 'fop':
        op = MODEL_OP.get(c['op'], c['op'])
        o = c['other']
        if o == 'frame':
            other = w_frame(u, c['b'])
        elif o in ('series0', 'series1'):
            other = f"(ser {w_series(u, c['b'])} {o[-1]})"
        elif o == 'scalar':
            other = f"(sc {int(c['v'])})"
        elif o in ('a1_0', 'a1_1'):
            other = f"(a1 {wv(c['arr'])} {o[-1]})"
        else:
            other = '(a2 (' + ' '.join(wv(col) for col in c['arr2']) + '))'
        return [f"set.fbinop {op} {w_frame(u, c['a'])} {other} {cl}"]
    return []


def flat_pair(c):
    import static_frame as sf
    if c['pool'] == 'date':
        return sf.IndexDate([untok(t) for t in c['a']]), sf.IndexDate([untok(t) for t in c['b']])
    if c.get('adt'):
        ia = sf.Index(arr_from_toks(c['a'], c['adt']))
    else:
        ia = sf.Index([untok(t) for t in c['a']])
    if c.get('bdt'):
        ib = sf.Index(arr_from_toks(c['b'], c['bdt']))
    else:
        ib = sf.Index([untok(t) for t in c['b']])
    return ia, ib


def list_operand_array(c):
    from static_frame.core.util import iterable_to_array_1d
    return iterable_to_array_1d([untok(t) for t in c['b']])


def py_set_op(op, a, b):
    """reference on hash classes, keeping one representative value"""
    ka = {hash_class(v): v for v in a}
    kb = {hash_class(v): v for v in b}
    if op == 'union':
        keys = set(ka) | set(kb)
    elif op == 'inter':
        keys = set(ka) & set(kb)
    else:
        keys = set(ka) - set(kb)
    return keys, {**kb, **ka}


def ih_sortable(c, op):
    a = [untok(t) for t in c['a']]
    b = [untok(t) for t in c['b']]
    keys, rep = py_set_op(op, a, b)
    try:
        sorted(rep[k] for k in keys)
        return True
    except TypeError:
        return False


# ------------------------------------------------------------------ evaluation
OPN = {'union': 'union', 'inter': 'intersection', 'diff': 'difference'}


def f21_predicate(a_arr, b_arr, keys, rep):
    """F21: the frozenset fallback sorts a result holding a NumPy numeric scalar (taken from a non-object
    numeric / Boolean operand) together with a tuple label whose comparison with that scalar broadcasts
    to an array that is not a single Boolean."""
    num_from_typed = set()
    for arr in (a_arr, b_arr):
        if arr.dtype.kind in 'iufb':
            num_from_typed |= {hash_class(x) for x in arr_list(arr)}
    has_num = any(k in num_from_typed for k in keys)
    has_bad_tuple = False
    for k in keys:
        v = rep[k]
        if isinstance(v, tuple) and len(v) != 1:
            try:
                r = np.int64(1) < v
                if isinstance(r, np.ndarray) and r.size != 1:
                    has_bad_tuple = True
            except Exception:
                pass
    return has_num and has_bad_tuple


def eval_setlike(ctx, c, outs, a_vals, b_vals, runs, u, a_arr, b_arr, ordered_hint):
    """runs: dict op -> callable returning the real result labels (list of python values)."""
    fails = []
    for i, op in enumerate(('union', 'inter', 'diff')):
        keys, rep = py_set_op(op, a_vals, b_vals)
        try:
            real = list(runs[op]())
            err = None
        except Exception as ex:
            real, err = None, ex
        if err is not None:
            d = {'exc': type(err).__name__, 'msg': str(err)[:80], 'f21': f21_predicate(a_arr, b_arr, keys, rep), 'op': op}
            fails.append(Failure('oracle', f"{c['k']} {op} a={c['a']} b={c['b']} raised {type(err).__name__}: {str(err)[:80]}", c, detail=d))
            continue
        rk = [hash_class(x) for x in real]
        ctx.count(f'setop_{op}')
        # ---- oracle: set algebra on Python sets, no repeats, identical operands keep order
        if set(rk) != keys:
            fails.append(Failure('oracle', f"{c['k']} {op} a={c['a']} b={c['b']}: members {sorted(rk)} != set algebra {sorted(keys)}", c))
            continue
        if len(rk) != len(keys):
            fails.append(Failure('oracle', f"{c['k']} {op} a={c['a']} b={c['b']}: result holds a label twice: {rk}", c))
            continue
        ah, bh = [hash_class(v) for v in a_vals], [hash_class(v) for v in b_vals]
        if ordered_hint and ah == bh and op != 'diff' and rk != ah:
            fails.append(Failure('oracle', f"{c['k']} {op} of identical operands {c['a']} changed the order: {rk}", c))
            continue
        # ---- correspondence with the model
        if outs:
            st, body = parse_answer(outs[i])
            if st != 'ok':
                fails.append(Failure('corr', f"{c['k']} {op}: model {outs[i]} but real code returned {rk}", c))
                continue
            if c['k'] == 'ih':
                model = [tuple(int(x) for x in row) for row in body]
                realr = [tuple(u.r(x) for x in v) for v in real]
                multi = not ih_sortable(c, op)
            else:
                model = [int(x) for x in body]
                realr = [u.r(x) for x in real]
                multi = u.multi_class(realr)
            if model != realr:
                if multi and sorted(model) == sorted(realr):
                    ctx.count('unordered_object_result')
                else:
                    fails.append(Failure('corr', f"{c['k']} {op} a={c['a']} b={c['b']}: model {model} vs real {realr}", c))
    return fails


def evaluate(ctx, c, outs):
    with np.errstate(all='ignore'):
        return evaluate0(ctx, c, outs)


def eval_dtunits(ctx, c):
    """labels of two datetime units that denote the same instants must be paired by label (finding F78)"""
    import static_frame as sf
    a = sf.Series([30, 10], index=sf.IndexDate(['2020-01-03', '2020-01-01']))
    b = sf.Series([1, 3, 5], index=sf.IndexSecond(['2020-01-01T00:00:00', '2020-01-03T00:00:00', '2020-01-05T00:00:00']))
    r = b + a
    got = {str(k): (None if v != v else float(v)) for k, v in r.items()}
    exp = {'2020-01-01T00:00:00': 11.0, '2020-01-03T00:00:00': 33.0, '2020-01-05T00:00:00': None}
    if got != exp:
        return [Failure('oracle', f'Series + Series over IndexSecond / IndexDate labels: {got}, expected by label {exp}', c, detail={'dtunits': True})]
    return []


def evaluate0(ctx, c, outs):
    k = c['k']
    ctx.count(f'kind_{k}')
    if k == 'dtunits':
        return eval_dtunits(ctx, c)
    if 'rel' in c:
        ctx.count(f"rel_{c['rel']}")
    if k == 'set1d':
        from static_frame.core import util
        u = case_universe(c)
        a, b = set_arrays(c)
        au = c['au']
        runs = {'union': lambda: arr_list(util.union1d(a, b, assume_unique=au)),
                'inter': lambda: arr_list(util.intersect1d(a, b, assume_unique=au)),
                'diff': lambda: arr_list(util.setdiff1d(a, b, assume_unique=au))}
        ctx.count(f"set1d_au_{int(au)}_{kind_of_dtype(a.dtype)}_{kind_of_dtype(b.dtype)}")
        return eval_setlike(ctx, c, outs, [untok(t) for t in c['a']], [untok(t) for t in c['b']], runs, u, a, b, au)
    if k == 'index':
        u = case_universe(c)
        ia, ib = flat_pair(c)
        if c['other'] == 'index':
            other = ib
        elif c['other'] == 'array':
            other = ib.values
        else:
            other = [untok(t) for t in c['b']]
        runs = {op: (lambda op=op: idx_labels(getattr(ia, OPN[op])(other))) for op in ('union', 'inter', 'diff')}
        ctx.count(f"index_other_{c['other']}_{idx_kind(ia)}_{idx_kind(ib)}")
        return eval_setlike(ctx, c, outs, [untok(t) for t in c['a']], [untok(t) for t in c['b']], runs, u, ia.values, ib.values,
                            c['other'] == 'index')
    if k == 'ih':
        u = case_universe_ih(c)
        ia, ib = build_idx(index_spec(c['pool'], c['a'])), build_idx(index_spec(c['pool'], c['b']))
        runs = {op: (lambda op=op: idx_labels(getattr(ia, OPN[op])(ib))) for op in ('union', 'inter', 'diff')}
        return eval_setlike(ctx, c, outs, [untok(t) for t in c['a']], [untok(t) for t in c['b']], runs, u,
                            np.empty(0, dtype=object), np.empty(0, dtype=object), True)
    if k == 'ic':
        return eval_ic(ctx, c, outs)
    if k == 'sre':
        return eval_sre(ctx, c, outs)
    if k == 'fre':
        return eval_fre(ctx, c, outs)
    if k == 'sop':
        return eval_sop(ctx, c, outs)
    if k == 'fop':
        return eval_fop(ctx, c, outs)
    if k == 'arrleft':
        return eval_arrleft(ctx, c)
    if k == 'rlogical':
        return eval_rlogical(ctx, c)
    raise ValueError(k)


def case_universe_ih(c):
    toks = []
    for t in c['a'] + c['b']:
        toks.extend(tok(x) for x in untok(t))
    return Universe(toks)


def eval_ic(ctx, c, outs):
    from static_frame.core.index_correspondence import IndexCorrespondence
    fails = []
    u = case_universe(c)
    ia, ib = flat_pair(c)
    a_vals, b_vals = [untok(t) for t in c['a']], [untok(t) for t in c['b']]
    keys, rep = py_set_op('inter', a_vals, b_vals)
    try:
        ic = IndexCorrespondence.from_correspondence(ia, ib)
    except Exception as ex:
        d = {'exc': type(ex).__name__, 'f21': f21_predicate(ia.values, ib.values, keys, rep)}
        return [Failure('oracle', f"from_correspondence a={c['a']} b={c['b']} raised {type(ex).__name__}: {str(ex)[:80]}", c, detail=d)]
    ah = [hash_class(v) for v in a_vals]
    bh = [hash_class(v) for v in b_vals]
    # oracle: dictionary reference of the correspondence
    src = [] if ic.iloc_src is None else [int(x) for x in np.asarray(ic.iloc_src).tolist()]
    dst = [] if ic.iloc_dst is None else [int(x) for x in np.asarray(ic.iloc_dst).tolist()]
    pairs = sorted(zip(dst, src))
    exp_pairs = sorted((j, ah.index(l)) for j, l in enumerate(bh) if l in set(ah))
    what = None
    if bool(ic.has_common) != bool(keys):
        what = f'has_common {ic.has_common} but common labels {sorted(keys)}'
    elif ic.size != len(bh):
        what = f'size {ic.size}'
    elif pairs != exp_pairs:
        what = f'(dst, src) pairs {pairs} != {exp_pairs}'
    elif ic.is_subset != (bool(keys) and len(keys) == len(bh)):
        what = f'is_subset {ic.is_subset}'
    elif ic.is_subset and dst != list(range(len(bh))):
        what = f'subset iloc_dst {dst}'
    if what:
        fails.append(Failure('oracle', f"from_correspondence a={c['a']} b={c['b']}: {what}", c))
    ctx.count(f'ic_common{int(ic.has_common)}_subset{int(ic.is_subset)}')
    if outs:
        st, body = parse_answer(outs[0])
        if st != 'ok':
            fails.append(Failure('corr', f'from_correspondence: model {outs[0]}', c))
        else:
            mh, ms, msrc, mdst, msize = body
            msrc, mdst = [int(x) for x in msrc], [int(x) for x in mdst]
            if (mh == '1') != bool(ic.has_common) or (ms == '1') != bool(ic.is_subset) or int(msize) != ic.size:
                fails.append(Failure('corr', f'from_correspondence flags: model {outs[0]} real {ic.has_common} {ic.is_subset} {ic.size}', c))
            elif (msrc, mdst) != (src, dst):
                if sorted(zip(mdst, msrc)) == pairs and u.multi_class([u.r(rep[k]) for k in keys]):
                    ctx.count('unordered_object_result')
                else:
                    fails.append(Failure('corr', f'from_correspondence positions: model {msrc} {mdst} real {src} {dst}', c))
    return fails


def eval_sre(ctx, c, outs):
    fails = []
    u = case_universe(c)
    s = build_series(c['s'])
    ni = build_idx(c['ni'])
    fill = np.nan if c['fill'] is None else c['fill']
    a_map = {hash_class(untok(t)): v for t, v in zip(c['s']['index']['labels'], c['s']['values'])}
    nl = [hash_class(untok(t)) for t in c['ni']['labels']]
    exp = {l: (canon_ref(a_map[l]) if l in a_map else c['fill']) for l in nl}
    try:
        r = s.reindex(ni, fill_value=fill, check_equals=c['ce'])
    except Exception as ex:
        keys, rep = py_set_op('inter', [untok(t) for t in c['s']['index']['labels']], [untok(t) for t in c['ni']['labels']])
        d = {'exc': type(ex).__name__, 'f21': f21_predicate(s.index.values, ni.values if ni.depth == 1 else np.empty(0, dtype=object), keys, rep)}
        return [Failure('oracle', f"Series.reindex {c['s']['index']['labels']} -> {c['ni']['labels']} raised {type(ex).__name__}: {str(ex)[:80]}", c, detail=d)]
    got_l = [hash_class(x) for x in idx_labels(r.index)]
    got = series_map(r)
    if got_l != nl:
        fails.append(Failure('oracle', f"Series.reindex labels {got_l} != requested {nl}", c))
    elif got != exp:
        fails.append(Failure('oracle', f"Series.reindex {c['s']['index']['labels']} -> {c['ni']['labels']} fill={c['fill']}: {got} != {exp}", c))
    if outs:
        st, body = parse_answer(outs[0])
        if st != 'ok':
            fails.append(Failure('corr', f'Series.reindex: model {outs[0]} real ok', c))
        else:
            mv = [ival(x) for x in body[3]]
            rv = [canon_cell(v) for v in r.values.tolist()]
            if mv != rv:
                fails.append(Failure('corr', f'Series.reindex values: model {mv} real {rv}', c))
    return fails


def eval_fre(ctx, c, outs):
    fails = []
    spec = c['spec']
    f = frame_from_spec(spec)
    cells, rl, cl = spec_cells(spec)
    ni = build_idx(c['ni']) if c['ni'] else None
    nc = build_idx(c['nc']) if c['nc'] else None
    nrl = [hash_class(untok(t)) for t in c['ni']['labels']] if c['ni'] else None
    ncl = [hash_class(untok(t)) for t in c['nc']['labels']] if c['nc'] else None
    fill = np.nan if c['fill'] is None else c['fill']
    er, ec = (nrl if nrl is not None else rl), (ncl if ncl is not None else cl)
    exp = {(r, cc): (canon_ref(cells[(r, cc)]) if (r, cc) in cells else c['fill']) for r in er for cc in ec}
    ctx.count(f"fre_{'i' if ni is not None else ''}{'c' if nc is not None else ''}")
    real_err = None
    try:
        r = f.reindex(index=ni, columns=nc, fill_value=fill)
        got, grl, gcl = frame_map(r)
        if grl != er or gcl != ec:
            fails.append(Failure('oracle', f'Frame.reindex labels {grl} x {gcl} != requested {er} x {ec}', c))
        elif got != exp:
            bad = sorted(k for k in exp if got.get(k) != exp[k])[:3]
            fails.append(Failure('oracle', f"Frame.reindex index {rl}->{nrl} columns {cl}->{ncl}: cells differ at {bad}: "
                                           f"{[got.get(k) for k in bad]} != {[exp[k] for k in bad]}", c))
    except Exception as ex:
        real_err = ex
        fails.append(Failure('oracle', f"Frame.reindex index {rl}->{nrl} columns {cl}->{ncl} raised {type(ex).__name__}: {str(ex)[:80]}", c,
                             detail={'exc': type(ex).__name__}))
    if outs:
        st, body = parse_answer(outs[0])
        if real_err is not None:
            if st != 'err':
                fails.append(Failure('corr', f'Frame.reindex: real raised {type(real_err).__name__}, model {outs[0][:80]}', c))
        elif st != 'ok':
            fails.append(Failure('corr', f'Frame.reindex: model {outs[0]} real ok', c))
        else:
            mcols = [[ival(x) for x in col] for col in body[5]]
            rcols = [[canon_cell(v) for v in r._blocks._extract_array(column_key=j).tolist()] for j in range(r.shape[1])]
            if mcols != rcols:
                fails.append(Failure('corr', f'Frame.reindex cells: model {mcols} real {rcols}', c))
    return fails


def apply_real(obj, op, other, **kw):
    return getattr(obj, DUNDER[op])(other, **kw) if not kw else obj._ufunc_binary_operator(operator=RAW[op], other=other, **kw)


RAW = {'add': opmod.add, 'sub': opmod.sub, 'mul': opmod.mul, 'floordiv': opmod.floordiv, 'eq': opmod.eq, 'ne': opmod.ne,
       'lt': opmod.lt, 'le': opmod.le, 'gt': opmod.gt, 'ge': opmod.ge, 'and': opmod.and_, 'or': opmod.or_, 'xor': opmod.xor}


def series_ref(c):
    """dict reference of Series <op> other: (labels set, {label: value}) or ('err', category)."""
    op = c['op']
    a = {hash_class(untok(t)): v for t, v in zip(c['a']['index']['labels'], c['a']['values'])}
    a = {k: (bool(v) if c['a']['dtype'] == 'bool' else v) for k, v in a.items()}
    al = list(a)
    if c['other'] == 'series':
        b = {hash_class(untok(t)): (bool(v) if c['b']['dtype'] == 'bool' else v)
             for t, v in zip(c['b']['index']['labels'], c['b']['values'])}
        labels = set(a) | set(b)
        if (op in LOGICAL) and (set(a) != labels or set(b) != labels):
            return 'err', 'value'  # a fill value (NaN) makes the array non-Boolean: NumPy cannot combine, even with zero cells
        try:
            return labels, {l: canon_ref(ref_cell(op, a.get(l, MISSING), b.get(l, MISSING))) for l in labels}
        except TypeError:
            return 'err', 'value'
    if c['other'] == 'scalar':
        return set(a), {l: canon_ref(ref_cell(op, a[l], c['v'])) for l in al}
    arr = c['arr']
    if len(arr) != len(al):
        return 'err', 'value'
    logical = op in LOGICAL or MODEL_OP.get(op) in LOGICAL
    return set(a), {l: canon_ref(ref_cell(op, a[l], bool(x) if logical else x)) for l, x in zip(al, arr)}


def other_real_series(c, perm=False):
    if c['other'] == 'series':
        sp = c['b']
        if perm:
            sp = permute_series_spec(sp, c['pb'])
        return build_series(sp)
    if c['other'] == 'scalar':
        return c['v']
    logical = c['op'] in LOGICAL or MODEL_OP.get(c['op']) in LOGICAL
    return np.array([bool(x) for x in c['arr']], dtype=bool) if logical else np.array(c['arr'], dtype=np.int64)


def permute_series_spec(sp, p):
    return {'index': {**sp['index'], 'labels': [sp['index']['labels'][i] for i in p]},
            'values': [sp['values'][i] for i in p], 'dtype': sp['dtype']}


def eval_sop(ctx, c, outs):
    fails = []
    op = c['op']
    ctx.count(f'sop_{c["other"]}')
    ctx.count(f'op_{op}')
    a = build_series(c['a'])
    other = other_real_series(c)
    ref = series_ref(c)
    try:
        r = getattr(a, DUNDER[op])(other)
        real = ('ok', r)
    except Exception as ex:
        real = ('err', err_cat(ex), ex)
    desc = f"Series {op} {c['other']} a={c['a']['index']['labels']}:{c['a']['values']}" + \
           (f" b={c['b']['index']['labels']}:{c['b']['values']}" if c['other'] == 'series' else '')
    u = case_universe(c)
    if ref[0] == 'err':
        ctx.count('sop_expected_error')
        if real[0] != 'err':
            # a logical operator on misaligned labels: NumPy might still combine object arrays; accept only an error
            fails.append(Failure('oracle', f'{desc}: expected an error ({ref[1]}), got a result', c))
    elif real[0] == 'err':
        d = {'exc': type(real[2]).__name__}
        if c['other'] == 'series':
            keys, rep = py_set_op('union', [untok(t) for t in c['a']['index']['labels']], [untok(t) for t in c['b']['index']['labels']])
            d['f21'] = f21_predicate(a.index.values if a.index.depth == 1 else np.empty(0, dtype=object),
                                     other.index.values if other.index.depth == 1 else np.empty(0, dtype=object), keys, rep)
        fails.append(Failure('oracle', f'{desc}: raised {type(real[2]).__name__}: {str(real[2])[:80]}', c, detail=d))
    else:
        r = real[1]
        labels, exp = ref
        got = series_map(r)
        got_l = [hash_class(x) for x in idx_labels(r.index)]
        if len(got_l) != len(set(got_l)) or set(got_l) != labels:
            fails.append(Failure('oracle', f'{desc}: result labels {got_l} are not the union {sorted(labels)}', c))
        elif got != exp:
            fails.append(Failure('oracle', f'{desc}: label->value {got} != reference {exp}', c))
        else:
            al = [hash_class(untok(t)) for t in c['a']['index']['labels']]
            if c['other'] == 'series':
                bl = [hash_class(untok(t)) for t in c['b']['index']['labels']]
                if al == bl:
                    ctx.count('sop_equal_index')
                    if got_l != al:
                        fails.append(Failure('oracle', f'{desc}: equal indices but result order {got_l}', c))
                    else:
                        try:
                            exp_dt = RAW[MODEL_OP.get(op, op)](a.values, other.values).dtype
                            if r.dtype != exp_dt:
                                fails.append(Failure('oracle', f'{desc}: equal indices but dtype {r.dtype} != {exp_dt}', c))
                        except Exception:
                            pass
                # permutation invariance, run directly
                ap = build_series(permute_series_spec(c['a'], c['pa']))
                bp = other_real_series(c, perm=True)
                try:
                    rp = getattr(ap, DUNDER[op])(bp)
                    if series_map(rp) != got:
                        fails.append(Failure('oracle', f'{desc}: permuting the operands (a by {c["pa"]}, b by {c["pb"]}) changed the '
                                                       f'label->value map: {series_map(rp)} != {got}', c))
                except Exception as ex:
                    fails.append(Failure('oracle', f'{desc}: permuted operands raised {type(ex).__name__}: {str(ex)[:60]}', c,
                                         detail={'exc': type(ex).__name__}))
            elif got_l != al:
                fails.append(Failure('oracle', f'{desc}: unlabelled operand but result order {got_l} != {al}', c))
    # correspondence
    if outs:
        st, body = parse_answer(outs[0])
        if real[0] == 'err':
            if st != 'err' and not (ref[0] == 'err'):
                fails.append(Failure('corr', f'{desc}: real raised {type(real[2]).__name__}, model {outs[0][:80]}', c))
            elif st != 'err':
                ctx.count('model_total_where_numpy_raises')
        elif st != 'ok':
            fails.append(Failure('corr', f'{desc}: model {outs[0]}, real ok', c))
        else:
            r = real[1]
            ml = [int(x) for x in body[2]]
            mv = [ival(x) for x in body[3]]
            rl = [u.r(x) for x in idx_labels(r.index)]
            rv = [canon_cell(v) for v in r.values.tolist()]
            if dict(zip(ml, mv)) != dict(zip(rl, rv)) or sorted(ml) != sorted(rl):
                fails.append(Failure('corr', f'{desc}: model {ml}:{mv} real {rl}:{rv}', c))
            elif ml != rl:
                if u.multi_class(rl):
                    ctx.count('unordered_object_result')
                else:
                    fails.append(Failure('corr', f'{desc}: label order model {ml} real {rl}', c))
    return fails


def permute_frame_spec(sp, pr, pc):
    cols = [sp['cols'][j] for j in pc]
    cols = [{'dt': col['dt'], 'v': [col['v'][i] for i in pr]} for col in cols]
    dts = [col['dt'] for col in cols]
    return {'index': {**sp['index'], 'labels': [sp['index']['labels'][i] for i in pr]},
            'columns': {**sp['columns'], 'labels': [sp['columns']['labels'][j] for j in pc]},
            'cols': cols, 'layout': gen.canonical_layout(dts), 'rows': sp['rows']}


def frame_ref(c):
    op = c['op']
    a, arl, acl = spec_cells(c['a'])
    o = c['other']
    logical = op in LOGICAL or MODEL_OP.get(op) in LOGICAL
    try:
        if o == 'frame':
            b, brl, bcl = spec_cells(c['b'])
            rows = set(arl) | set(brl)
            cols = set(acl) | set(bcl)
            if logical and (set(arl) != rows or set(brl) != rows or set(acl) != cols or set(bcl) != cols):
                if not rows or not cols:
                    return 'lenient', (rows, cols)  # no cell at all: NumPy may or may not accept the empty float / object arrays
                return 'err', 'value'  # fill columns / rows are float or object: not combinable by a logical operator
            return (rows, cols), {(r, cc): canon_ref(ref_cell(op, a.get((r, cc), MISSING), b.get((r, cc), MISSING)))
                                  for r in rows for cc in cols}
        if o in ('series0', 'series1'):
            s = {hash_class(untok(t)): (bool(v) if c['b']['dtype'] == 'bool' else v)
                 for t, v in zip(c['b']['index']['labels'], c['b']['values'])}
            if logical and ((o == 'series0' and set(acl) != set(s)) or (o == 'series1' and set(arl) != set(s))):
                if not arl or (o == 'series0' and not (set(acl) | set(s))) or (o == 'series1' and not acl):
                    return 'lenient', ((set(arl), set(acl) | set(s)) if o == 'series0' else (set(arl) | set(s), set(acl)))
                return 'err', 'value'
            if o == 'series0':
                rows, cols = set(arl), set(acl) | set(s)
                return (rows, cols), {(r, cc): canon_ref(ref_cell(op, a.get((r, cc), MISSING), s.get(cc, MISSING)))
                                      for r in rows for cc in cols}
            rows, cols = set(arl) | set(s), set(acl)
            return (rows, cols), {(r, cc): canon_ref(ref_cell(op, a.get((r, cc), MISSING), s.get(r, MISSING)))
                                  for r in rows for cc in cols}
        if o == 'scalar':
            return (set(arl), set(acl)), {k: canon_ref(ref_cell(op, v, c['v'])) for k, v in a.items()}
        if o == 'a1_0':
            if len(c['arr']) != len(acl):
                return 'err', 'value'
            arr = [bool(x) if logical else x for x in c['arr']]
            return (set(arl), set(acl)), {(r, cc): canon_ref(ref_cell(op, a[(r, cc)], arr[j])) for r in arl for j, cc in enumerate(acl)}
        if o == 'a1_1':
            if len(c['arr']) != len(arl):
                return 'err', 'value'
            arr = [bool(x) if logical else x for x in c['arr']]
            return (set(arl), set(acl)), {(r, cc): canon_ref(ref_cell(op, a[(r, cc)], arr[i])) for i, r in enumerate(arl) for cc in acl}
        arr2 = c['arr2']
        return (set(arl), set(acl)), {(r, cc): canon_ref(ref_cell(op, a[(r, cc)], bool(arr2[j][i]) if logical else arr2[j][i]))
                                      for i, r in enumerate(arl) for j, cc in enumerate(acl)}
    except TypeError:
        return 'err', 'value'


def frame_other_real(c, perm=False):
    o = c['other']
    logical = c['op'] in LOGICAL or MODEL_OP.get(c['op']) in LOGICAL
    if o == 'frame':
        sp = c['b']
        if perm:
            sp = permute_frame_spec(sp, c['prb'], c['pcb'])
        return frame_from_spec(sp), {}
    if o in ('series0', 'series1'):
        sp = c['b']
        if perm:
            sp = permute_series_spec(sp, c['pb'])
        return build_series(sp), {'axis': int(o[-1])}
    if o == 'scalar':
        return c['v'], {}
    if o in ('a1_0', 'a1_1'):
        arr = np.array([bool(x) for x in c['arr']], dtype=bool) if logical else np.array(c['arr'], dtype=np.int64)
        return arr, {'axis': int(o[-1])}
    n, m = c['a']['rows'], len(c['a']['cols'])
    arr = np.empty((n, m), dtype=bool if logical else np.int64)
    for j, col in enumerate(c['arr2']):
        arr[:, j] = col
    return arr, {}


def run_frame_op(f, op, other, kw):
    if kw.get('axis', 0) == 0:
        return getattr(f, DUNDER[op])(other)
    base = MODEL_OP.get(op, op)
    return f._ufunc_binary_operator(operator=RAW[base], other=other, axis=kw['axis'])


def eval_fop(ctx, c, outs):
    fails = []
    op = c['op']
    o = c['other']
    ctx.count(f'fop_{o}')
    ctx.count(f'op_{op}')
    ctx.count(f"layout_blocks_{min(len(c['a']['layout']), 4)}")
    f = frame_from_spec(c['a'])
    other, kw = frame_other_real(c)
    ref = frame_ref(c)
    if op in REFLECTED and kw.get('axis', 0) == 1:
        return fails
    try:
        r = run_frame_op(f, op, other, kw)
        real = ('ok', r)
    except Exception as ex:
        real = ('err', err_cat(ex), ex)
    desc = f"Frame {op} {o} a={c['a']['index']['labels']}x{c['a']['columns']['labels']}" + \
           (f" b={c['b']['index']['labels']}" + (f"x{c['b']['columns']['labels']}" if o == 'frame' else '') if 'b' in c else '')
    u = case_universe(c)
    lenient = ref[0] == 'lenient'
    if lenient:
        ctx.count('fop_logical_no_cells')
        ref = ('err', 'value') if real[0] == 'err' else (ref[1], {})
    if ref[0] == 'err':
        ctx.count('fop_expected_error')
        if real[0] != 'err':
            fails.append(Failure('oracle', f'{desc}: expected an error ({ref[1]}), got a result', c))
    elif real[0] == 'err':
        fails.append(Failure('oracle', f'{desc}: raised {type(real[2]).__name__}: {str(real[2])[:80]}', c,
                             detail={'exc': type(real[2]).__name__, 'msg': str(real[2])[:60],
                                     'zero_cols': len(ref[0][1]) == 0}))
    else:
        r = real[1]
        (rows, cols), exp = ref
        got, grl, gcl = frame_map(r)
        if set(grl) != rows or set(gcl) != cols or len(grl) != len(rows) or len(gcl) != len(cols):
            fails.append(Failure('oracle', f'{desc}: result labels {grl} x {gcl} are not the unions {sorted(rows)} x {sorted(cols)}', c))
        elif got != exp:
            bad = sorted(k for k in exp if got.get(k) != exp[k])[:3]
            fails.append(Failure('oracle', f'{desc}: cells differ from the reference at {bad}: {[got.get(k) for k in bad]} != {[exp[k] for k in bad]}', c))
        else:
            _, arl, acl = spec_cells(c['a'])
            if o == 'frame':
                _, brl, bcl = spec_cells(c['b'])
                if arl == brl and grl != arl:
                    fails.append(Failure('oracle', f'{desc}: equal row labels but result order {grl}', c))
                if acl == bcl and gcl != acl:
                    fails.append(Failure('oracle', f'{desc}: equal column labels but result order {gcl}', c))
                if arl == brl and acl == bcl:
                    ctx.count('fop_equal_labels')
            elif o in ('scalar', 'a1_0', 'a1_1', 'a2') and (grl != arl or gcl != acl):
                fails.append(Failure('oracle', f'{desc}: unlabelled operand but result order {grl} x {gcl}', c))
            # permutation invariance + all layouts of the left operand, run directly
            if o in ('frame', 'series0', 'series1'):
                try:
                    fp = frame_from_spec(permute_frame_spec(c['a'], c['pra'], c['pca']))
                    op_other, kw2 = frame_other_real(c, perm=True)
                    rp = run_frame_op(fp, op, op_other, kw2)
                    gp, _, _ = frame_map(rp)
                    if gp != got:
                        fails.append(Failure('oracle', f'{desc}: permuting the operands changed the (row, column)->value map', c))
                except Exception as ex:
                    if not lenient:
                        fails.append(Failure('oracle', f'{desc}: permuted operands raised {type(ex).__name__}: {str(ex)[:60]}', c,
                                             detail={'exc': type(ex).__name__, 'msg': str(ex)[:60]}))
            dts = [col['dt'] for col in c['a']['cols']]
            for lay in gen.layouts_for(dts, limit=6):
                if lay == c['a']['layout']:
                    continue
                try:
                    r2 = run_frame_op(frame_from_spec(c['a'], lay), op, other, kw)
                    g2, rl2, cl2 = frame_map(r2)
                    if g2 != got or rl2 != grl or cl2 != gcl:
                        fails.append(Failure('oracle', f'{desc}: block layout {lay} of the left operand changed the result', c))
                        break
                except Exception as ex:
                    if lenient:
                        continue
                    fails.append(Failure('oracle', f'{desc}: block layout {lay} raised {type(ex).__name__}: {str(ex)[:60]}', c,
                                         detail={'exc': type(ex).__name__}))
                    break
    if outs:
        st, body = parse_answer(outs[0])
        if (real[0] == 'err') != (st == 'err') and lenient:
            ctx.count('model_total_where_numpy_raises')
        elif real[0] == 'err':
            if st != 'err' and ref[0] != 'err':
                fails.append(Failure('corr', f'{desc}: real raised {type(real[2]).__name__}: {str(real[2])[:60]}, model {outs[0][:80]}', c))
            elif st != 'err':
                ctx.count('model_total_where_numpy_raises')
        elif st != 'ok':
            fails.append(Failure('corr', f'{desc}: model {outs[0]}, real ok', c))
        else:
            r = real[1]
            mrl, mcl = [int(x) for x in body[2]], [int(x) for x in body[4]]
            mcols = [[ival(x) for x in col] for col in body[5]]
            rrl = [u.r(x) for x in idx_labels(r.index)]
            rcl = [u.r(x) for x in idx_labels(r.columns)]
            mmap = {(a, b): mcols[j][i] for j, b in enumerate(mcl) for i, a in enumerate(mrl)}
            rmap = {}
            for j, b in enumerate(rcl):
                arr = r._blocks._extract_array(column_key=j).tolist()
                for i, a in enumerate(rrl):
                    rmap[(a, b)] = canon_cell(arr[i])
            if mmap != rmap:
                fails.append(Failure('corr', f'{desc}: model cells {mmap} real {rmap}', c))
            else:
                for ml, rl_, nm in ((mrl, rrl, 'row'), (mcl, rcl, 'column')):
                    if ml != rl_:
                        if u.multi_class(rl_):
                            ctx.count('unordered_object_result')
                        else:
                            fails.append(Failure('corr', f'{desc}: {nm} label order model {ml} real {rl_}', c))
    return fails


def eval_arrleft(ctx, c):
    """`ndarray <op> Series` written with the Python operator: the reflected method of the container must decide."""
    a = build_series(c['a'])
    arr = np.array(c['arr'], dtype=np.int64)
    exp = {hash_class(untok(t)): x - v for t, v, x in zip(c['a']['index']['labels'], c['a']['values'], c['arr'])}
    try:
        r = arr - a
    except Exception as ex:
        return [Failure('oracle', f'ndarray - Series raised {type(ex).__name__}', c, detail={'arrleft': True})]
    import static_frame as sf
    if not isinstance(r, sf.Series) or series_map(r) != exp:
        return [Failure('oracle', f'ndarray - Series returned {type(r).__name__} {np.asarray(r).tolist()}; expected a Series with {exp} '
                                  f'(NumPy iterated the Series, i.e. its labels, instead of deferring to Series.__rsub__)', c,
                        detail={'arrleft': True})]
    return []


def eval_rlogical(ctx, c):
    """`True & series`: the reflected logical methods (__rand__, __ror__, __rxor__) do not exist."""
    import static_frame as sf
    a = build_series(c['a'])
    v = bool(c['v'])
    exp = {hash_class(untok(t)): int(v and bool(x)) for t, x in zip(c['a']['index']['labels'], c['a']['values'])}
    try:
        r = v & a
    except TypeError as ex:
        return [Failure('oracle', f'bool & Series raised TypeError: {str(ex)[:70]} (no __rand__ / __ror__ / __rxor__ on containers)', c,
                        detail={'rlogical': True})]
    if not isinstance(r, sf.Series) or series_map(r) != exp:
        return [Failure('oracle', f'bool & Series returned {r!r}; expected {exp}', c, detail={'rlogical': True})]
    return []


# ------------------------------------------------------------------ classification
def classify(f):
    c = f.case
    d = f.detail or {}
    if f.kind != 'oracle':
        return None
    if d.get('f21') and d.get('exc') == 'ValueError':
        return 'F21-set-op-tuple-label'
    if c.get('k') == 'dtunits' and d.get('dtunits'):
        return 'F78-datetime-unit-alignment'
    if c.get('k') == 'arrleft' and d.get('arrleft'):
        return 'F39-array-op-series'
    if c.get('k') == 'rlogical' and d.get('rlogical'):
        return 'F40-reflected-logical-operators'
    return None


def search(ctx):
    rng = ctx.rng('search')
    for _ in range(6000):
        pool = rng.choice(['int', 'str', 'mixed'])
        a, b, rel = rand_pair_labels(rng, pool)
        op = rng.choice(ARITH + COMPARE)
        yield {'k': 'sop', 'pool': pool, 'op': op, 'a': rand_series_spec(rng, pool, a, op), 'b': rand_series_spec(rng, pool, b, op),
               'other': 'series', 'rel': rel, 'n': len(a) + len(b) + 1, 'pa': rand_perm(rng, len(a)), 'pb': rand_perm(rng, len(b))}
        yield {'k': 'index', 'pool': pool, 'a': a, 'b': b, 'rel': rel, 'n': len(a) + len(b), 'adt': None, 'bdt': None, 'other': 'index'}
