"""C03 / C06 - TypeBlocks.resize_blocks (the generator behind Frame.reindex and the label alignment of the Frame operators)
AT THE BLOCK LEVEL.

Imported by c03.py (cases with 'k' == 'resize').  Sub-kinds ('sub'):
  blocks  : list(tb.resize_blocks(index_ic=..., columns_ic=..., fill_value=...)) with IndexCorrespondence.from_correspondence
            of duplicate-free label lists (or None) vs the Lean model SF.TB.resizeBlocks - block by block (ndim, width, dtype
            token exactly, cells up to NumPy's numeric widening), error category otherwise; the same driver batch evaluates
            the layout-free specification SF.resizeSpec on the typed columns (must equal the flattened blocks) and the
            well-formedness predicate SF.SetOps.IC.WF on the REAL correspondences (must hold); plus the LEAN-INDEPENDENT
            reference on the flattened real blocks: cell (i, j) = source cell under the same labels, else the fill; dtype of a
            column = its own dtype when rows are only selected, resolve_dtype(own, fill's) when rows are filled, the fill's
            dtype for a column without source
  frame   : Frame.reindex(index=..., columns=..., fill_value=...) (check_equals decides whether a correspondence is built) vs
            SF.TB.resized (from_blocks with the shape reference + the constructor's shape check), and the dict reference
  layouts : THE PROPERTY on the real code: two block layouts of one logical frame, same reindex -> same values and dtypes
"""
from __future__ import annotations

import itertools

from check import Failure
from sfv import gen
from sfv.canon import tok, untok, err_cat, dtype_tok, array_toks
from sfv.tbwire import Interner, tb_wire_from_blocks, answer_tb, real_tb_view, parse_sexp
from sfv.props.c03_shift import array_view, model_block_view, views_equal, cells_equal, resolve_wire, fill_of, DTYPES, FILLS

THEOREMS = [
    'SF.C03.fromCorrespondence_wf', 'SF.C03.resize_refines', 'SF.C03.resize_cols_eq_resizeCols', 'SF.C03.resize_dtypes',
    'SF.C03.resize_wf_shape', 'SF.C03.resize_cells', 'SF.C03.layout_unobservable_resize',
    'SF.C03.resize_subset_any_order', 'SF.C03.resize_rows_block_structure',
]
TARGETS = ['SFModel.Props.C03Resize']
PARTIAL = []
CORR_ONLY = []

RULE = ('resize: layouts of 1-D / 2-D blocks (<= 5 columns, 0..6 rows; thorough: EVERY layout of <= 4 columns under several dtype patterns) x '
        'per axis None or a destination label list (equal / permutation / reversal / rotation / run with shuffled interior / sub-selection in any '
        'order / superset / partial overlap / disjoint / empty) x nine fill values; list(tb.resize_blocks) vs the model block by block, the '
        'layout-free specification, IC.WF of the real correspondences, Frame.reindex vs the model and a dict reference, two layouts')
TRUSTED = ['resize_blocks: util.resolve_dtype (inside full_for_fill) and NumPy\'s cell conversion on assignment are model parameters (the driver '
           'gets the real resolve_dtype answers as a table; cells are compared up to numeric widening, dtypes exactly); '
           'IndexCorrespondence.from_correspondence itself is the model of C06 (SetOps.fromCorrespondence): here the REAL correspondences are fed '
           'to the block model and checked against IC.WF']

HOWS = ['equal', 'perm', 'rev', 'rot', 'ends', 'subset', 'subset_sorted', 'run', 'superset', 'superset_ordered', 'partial', 'disjoint', 'empty']
STR_POOL = ['a', 'b', 'c', 'd', 'e', 'f', 'g', 'h', 'zz', 'y', 'x', 'w', 'ab', 'ba', 'A', 'B', 'p', 'q']


# ------------------------------------------------------------------ generation
def fresh(rng, src, kind, k):
    pool = [tok(v) for v in STR_POOL] if kind == 'str' else [f'i:{v}' for v in range(-5, 40)]
    have = set(src)
    pool = [p for p in pool if p not in have]
    return rng.sample(pool, min(k, len(pool)))


def shuffled_interior(rng, run):
    """first and last label kept, the labels in between out of order (what a contiguity test on the ends would take for a slice)"""
    mid = run[1:-1]
    rng.shuffle(mid)
    if mid == run[1:-1]:
        mid.reverse()
    return [run[0]] + mid + [run[-1]]


def dst_labels(rng, src, kind, how):
    n = len(src)
    src = list(src)
    if how == 'equal':
        return src
    if how == 'empty':
        return []
    if how == 'disjoint' or n == 0:
        return fresh(rng, src, kind, rng.randint(1, 3))
    if how == 'perm':
        l = list(src)
        rng.shuffle(l)
        if l == src:
            l.reverse()
        return l
    if how == 'rev':
        return src[::-1]
    if how == 'rot':
        k = rng.randint(1, max(1, n - 1))
        return src[k:] + src[:k]
    if how == 'ends':
        if n < 4:
            return src[::-1]
        k = rng.randint(4, n)
        a = rng.randint(0, n - k)
        return shuffled_interior(rng, src[a:a + k])
    if how == 'subset':
        return rng.sample(src, rng.randint(1, max(1, n - 1)))
    if how == 'subset_sorted':
        ps = sorted(rng.sample(range(n), rng.randint(1, max(1, n - 1))))
        return [src[p] for p in ps]
    if how == 'run':
        k = rng.randint(1, n)
        a = rng.randint(0, n - k)
        return src[a:a + k]
    if how == 'superset':
        l = src + fresh(rng, src, kind, rng.randint(1, 2))
        rng.shuffle(l)
        return l
    if how == 'superset_ordered':
        return src + fresh(rng, src, kind, rng.randint(1, 2))
    if how == 'partial':
        l = rng.sample(src, rng.randint(1, n)) + fresh(rng, src, kind, rng.randint(1, 2))
        rng.shuffle(l)
        return l
    raise ValueError(how)


def rand_spec(rng, rows=None, dts=None, layout=None, max_cols=5):
    n = rng.randint(0, 6) if rows is None else rows
    if dts is None:
        dts = []
        for _ in range(rng.randint(0, max_cols) if rng.random() < 0.08 else rng.randint(1, max_cols)):
            dts.append(dts[-1] if dts and rng.random() < 0.6 else rng.choice(DTYPES))
    cols = [{'dt': dt, 'v': [gen.rand_value(rng, dt) for _ in range(n)]} for dt in dts]
    return {'cols': cols, 'layout': layout if layout is not None else gen.rand_layout(rng, dts), 'rows': n}


def axis_case(rng, n, how, kinds=('auto', 'int', 'str')):
    """(source label tokens, kind, destination label tokens or None)"""
    kind = rng.choice(kinds)
    src = gen.rand_labels(rng, n, kind)
    if how is None:
        return src, kind, None
    return src, kind, dst_labels(rng, src, kind, how)


def mk(rng, sub, spec, ihow, chow, fill=None, **kw):
    n, m = spec['rows'], len(spec['cols'])
    ilab, _, idst = axis_case(rng, n, ihow)
    clab, _, cdst = axis_case(rng, m, chow)
    c = {'k': 'resize', 'sub': sub, 'spec': spec, 'ilab': ilab, 'clab': clab, 'idst': idst, 'cdst': cdst,
         'fill': fill if fill is not None else rng.choice(FILLS), 'ihow': ihow, 'chow': chow}
    c.update(kw)
    return c


PATTERNS = {
    1: [['int64'], ['str']],
    2: [['int64', 'int64'], ['float64', 'bool']],
    3: [['int64', 'int64', 'int64'], ['float64', 'float64', 'str'], ['bool', 'int8', 'int8']],
    4: [['float64'] * 4, ['int64', 'int64', 'float64', 'float64'], ['str', 'int64', 'int64', 'bool'], ['object', 'float32', 'float32', 'float32']],
}
AX_EXH = [None, 'equal', 'perm', 'ends', 'subset', 'partial', 'disjoint', 'empty', 'superset_ordered']


def cases(ctx):
    rng = ctx.rng('resize')
    quick = ctx.tier == 'quick'
    # (a) every layout of <= 4 columns x every pair of axis kinds (thorough: exhaustive; quick: a sample of the grid)
    grid = []
    for m, pats in PATTERNS.items():
        for dts in pats:
            for lay in gen.layouts_for(dts):
                for ihow in AX_EXH:
                    for chow in AX_EXH:
                        grid.append((dts, lay, ihow, chow))
    if quick:
        grid = rng.sample(grid, 500)
    for dts, lay, ihow, chow in grid:
        spec = rand_spec(rng, rows=rng.choice([4, 5]) if ihow == 'ends' else rng.choice([1, 2, 3, 4]), dts=dts, layout=lay)
        yield mk(rng, 'blocks' if (ihow is None and chow is None) or rng.random() < 0.6 else 'frame', spec, ihow, chow)
    # (b) the unified fast paths and their neighbours: ONE block (1-D, 2-D of width 1..4), subset / reordering / not a subset on each axis,
    #     and the same columns split into two blocks (not unified: the loop)
    for i in range(200 if quick else 4000):
        w = rng.randint(1, 4)
        dt = rng.choice(DTYPES)
        lay = rng.choice([[[w, True]], [[w, True]], [[1, False]] + ([[w - 1, True]] if w > 1 else [])]) if w > 1 else rng.choice([[[1, False]], [[1, True]]])
        spec = rand_spec(rng, rows=rng.randint(1, 6), dts=[dt] * w, layout=lay)
        yield mk(rng, rng.choice(['blocks', 'blocks', 'frame']), spec, rng.choice([None, None, None, 'perm', 'ends', 'subset', 'run', 'rev', 'partial', 'superset']),
                 rng.choice(['perm', 'subset', 'rev', 'run', 'equal', 'ends', 'partial', 'superset_ordered', 'disjoint']))
    # (c) rows only: runs of consecutive source rows with the interior out of order, for every block kind
    for i in range(120 if quick else 3000):
        spec = rand_spec(rng, rows=rng.randint(4, 7))
        yield mk(rng, rng.choice(['blocks', 'frame']), spec, 'ends', rng.choice([None, None, 'equal', 'ends', 'perm']))
    # (d) random
    for i in range(900 if quick else 20000):
        spec = rand_spec(rng)
        ihow = rng.choice([None] + HOWS)
        chow = rng.choice([None] + HOWS)
        sub = rng.choice(['blocks', 'blocks', 'frame'])
        if sub == 'frame' and ihow is None and chow is None:
            chow = rng.choice(HOWS)
        yield mk(rng, sub, spec, ihow, chow)
    # (e) zero-sized: no rows / no columns (TypeBlocks.from_zero_size_shape), every axis kind
    for n, widths in ((0, [1, 2]), (3, []), (0, []), (0, [1]), (2, [])):
        for ihow, chow in itertools.product([None, 'equal', 'disjoint', 'empty', 'superset'], repeat=2):
            dts = [rng.choice(DTYPES)] * sum(widths)
            spec = rand_spec(rng, rows=n, dts=dts, layout=[[w, w > 1] for w in widths])
            yield mk(rng, 'blocks', spec, ihow, chow)
            if ihow is not None or chow is not None:
                yield mk(rng, 'frame', spec, ihow, chow)
    # (f) two layouts of one logical frame
    for i in range(150 if quick else 4000):
        spec = rand_spec(rng, rows=rng.randint(0, 5), max_cols=4)
        dts = [c['dt'] for c in spec['cols']]
        if not dts:
            continue
        base = gen.spec_dtypes(spec, gen.canonical_layout(dts))
        lays = [l for l in gen.layouts_for(dts, limit=40, rng=rng) if gen.spec_dtypes(spec, l) == base]
        if len(lays) < 2:
            continue
        la, lb = rng.sample(lays, 2)
        ihow, chow = rng.choice([None] + HOWS), rng.choice([None] + HOWS)
        if ihow is None and chow is None:
            ihow = rng.choice(HOWS)
        yield mk(rng, 'layouts', spec, ihow, chow, la=la, lb=lb)


def nontrivial(c):
    return len(c['spec']['cols']) >= 1 and (c['idst'] is not None or c['cdst'] is not None)


# ------------------------------------------------------------------ real objects
def ilist(x, n):
    if x is None:
        return []
    if isinstance(x, slice):
        return list(range(*x.indices(n)))
    return [int(v) for v in x]


def ic_wire(ic, n_src):
    if ic is None:
        return 'N'
    src, dst = ilist(ic.iloc_src, n_src), ilist(ic.iloc_dst, ic.size)
    return f'({int(bool(ic.has_common))} {int(bool(ic.is_subset))} ({" ".join(map(str, src))}) ({" ".join(map(str, dst))}) {int(ic.size)})'


def make_index(labels):
    import static_frame as sf
    return sf.Index([untok(t) for t in labels])


def build(c, layout=None):
    """(tb, source index, source columns, destination index or None, destination columns or None)"""
    import static_frame as sf
    spec = c['spec']
    n, m = spec['rows'], len(spec['cols'])
    tb = sf.TypeBlocks.from_blocks(gen.build_blocks(spec, layout)) if m else sf.TypeBlocks.from_zero_size_shape((n, 0))
    return (tb, make_index(c['ilab']), make_index(c['clab']),
            None if c['idst'] is None else make_index(c['idst']), None if c['cdst'] is None else make_index(c['cdst']))


def correspondences(c, si, sc, di, dc):
    """what resize_blocks receives: 'blocks' always builds the correspondence of a given destination, 'frame' as Frame.reindex
    does (None when the destination equals the source: check_equals)"""
    from static_frame.core.index_correspondence import IndexCorrespondence
    out = []
    for s, d in ((si, di), (sc, dc)):
        if d is None or (c['sub'] == 'frame' and s.equals(d)):
            out.append(None)
        else:
            out.append(IndexCorrespondence.from_correspondence(s, d))
    return out


def model_lines(c):
    if c['sub'] == 'layouts':
        return []
    fill, fdt = fill_of(c)
    tb, si, sc, di, dc = build(c)
    iic, cic = correspondences(c, si, sc, di, dc)
    it = Interner()
    table = resolve_wire([b.dtype for b in tb._blocks], fdt)
    c['_pre'] = (it, tb, si, sc, di, dc, iic, cic)
    if table is None:
        return []
    n, m = tb.shape
    w = tb_wire_from_blocks(tb._blocks, n, it)
    tail = f'{w} {ic_wire(iic, n)} {ic_wire(cic, m)} {it.atom(c["fill"])} {dtype_tok(fdt)} {table}'
    if c['sub'] == 'frame':
        return [f'tbresize.frame {tail}']
    return [f'tbresize.blocks {tail}', f'tbresize.spec {tail}', f'tbresize.icwf {ic_wire(iic, n)} {n}', f'tbresize.icwf {ic_wire(cic, m)} {m}']


# ------------------------------------------------------------------ Lean-independent reference
def reference(c, src_cols, src_dts, fdt, iic_none, cic_none):
    """dict reference: (columns of tokens, dtype tokens) of the reindexed frame"""
    from static_frame.core.util import resolve_dtype
    ilab, clab = c['ilab'], c['clab']
    rows = ilab if c['idst'] is None else c['idst']
    cols = clab if c['cdst'] is None else c['cdst']
    rpos = {l: i for i, l in enumerate(ilab)}
    cpos = {l: j for j, l in enumerate(clab)}
    # rows are only SELECTED (dtype kept) when there is no row correspondence or the destination is a non-empty reordering /
    # sub-selection of the source; otherwise every column goes through full_for_fill(own dtype, ...)
    keep = iic_none or (len(rows) > 0 and all(r in rpos for r in rows))
    out, dts = [], []
    for cl in cols:
        j = cpos.get(cl)
        if j is None:
            out.append([c['fill']] * len(rows))
            dts.append(dtype_tok(fdt))
        else:
            out.append([src_cols[j][rpos[r]] if r in rpos else c['fill'] for r in rows])
            dts.append(dtype_tok(src_dts[j] if keep else resolve_dtype(src_dts[j], fdt)))
    return out, dts


def tb_columns(tb):
    cols, dts = [], []
    for b in tb._blocks:
        if b.ndim == 1:
            cols.append(array_toks(b))
            dts.append(b.dtype)
        else:
            for j in range(b.shape[1]):
                cols.append(array_toks(b[:, j]))
                dts.append(b.dtype)
    return cols, dts


def count_branch(ctx, tb, iic, cic):
    kinds = ''.join(sorted({'1' if b.ndim == 1 else '2' for b in tb._blocks}))

    def asc(ic):
        s = ilist(ic.iloc_src, 10 ** 6)
        if s != sorted(s):
            ctx.count('resize_iloc_src_not_ascending')
            if ic.is_subset and len(s) >= 4 and s[-1] - s[0] == len(s) - 1:
                ctx.count('resize_subset_run_with_shuffled_interior')
    for ic in (iic, cic):
        if ic is not None and ic.has_common:
            asc(ic)
    if iic is None and cic is None:
        return ctx.count('resize_br1_both_none')
    if cic is None:
        if iic.is_subset:
            return ctx.count(f'resize_br2_rows_subset_blocks{kinds}')
        return ctx.count(f'resize_br2_rows_fill_{"common" if iic.has_common else "nocommon"}_blocks{kinds}')
    if iic is None:
        if not cic.has_common:
            return ctx.count('resize_br3_cols_nocommon')
        if tb.unified and cic.is_subset:
            return ctx.count(f'resize_br3_cols_unified_subset_{tb._blocks[0].ndim}d')
        fillcol = len(ilist(cic.iloc_src, 10 ** 6)) < cic.size
        return ctx.count(f'resize_br3_cols_loop{"_unified" if tb.unified else ""}{"_with_fill_column" if fillcol else ""}')
    if not cic.has_common and not iic.has_common:
        return ctx.count('resize_br4_both_nocommon')
    if tb.unified and iic.is_subset and cic.is_subset:
        return ctx.count(f'resize_br4_both_unified_subset_{tb._blocks[0].ndim}d')
    rows = 'subset' if iic.is_subset else 'fill_common' if iic.has_common else 'nocommon'
    return ctx.count(f'resize_br4_loop_rows_{rows}_cols_{"common" if cic.has_common else "nocommon"}')


# ------------------------------------------------------------------ evaluation
def evaluate(ctx, c, outs):
    sub = c['sub']
    ctx.count(f'resize_{sub}')
    if sub == 'layouts':
        return eval_layouts(ctx, c)
    pre = c.pop('_pre', None)
    fill, fdt = fill_of(c)
    if pre is None:
        tb, si, sc, di, dc = build(c)
        iic, cic = correspondences(c, si, sc, di, dc)
        it = None
    else:
        it, tb, si, sc, di, dc, iic, cic = pre
    if not outs:
        ctx.count('resize_model_skipped')
    fails = []
    n, m = tb.shape
    count_branch(ctx, tb, iic, cic)
    src_cols, src_dts = tb_columns(tb)
    ref_cols, ref_dts = reference(c, src_cols, src_dts, fdt, iic is None, cic is None)
    desc = (f'index {c["ilab"]} -> {c["idst"]}, columns {c["clab"]} -> {c["cdst"]}, fill={c["fill"]}, layout={c["spec"]["layout"]} '
            f'dtypes={[dtype_tok(d) for d in src_dts]}')

    def check_reference(what, cols, dts):
        if len(cols) != len(ref_cols) or not all(cells_equal(x, y) for x, y in zip(cols, ref_cols)):
            fails.append(Failure('oracle', f'{what}: cells {str(cols)[:200]} differ from the label-wise reference {str(ref_cols)[:200]} ({desc})', c))
        elif [dtype_tok(d) for d in dts] != ref_dts:
            fails.append(Failure('oracle', f'{what}: column dtypes {[dtype_tok(d) for d in dts]} differ from the rule (selected rows keep the dtype, '
                                           f'filled rows resolve it with the fill\'s, a new column has the fill\'s): {ref_dts} ({desc})', c))
        ctx.count('resize_reference_compared')

    if sub == 'blocks':
        try:
            real_blocks = list(tb.resize_blocks(index_ic=iic, columns_ic=cic, fill_value=fill))
            real = [array_view(b) for b in real_blocks]
        except Exception as ex:
            real = ('err', err_cat(ex), repr(ex)[:80])
            ctx.count(f'resize_blocks_raises_{real[1]}')
        if isinstance(real, tuple):
            fails.append(Failure('oracle', f'resize_blocks raises {real[2]} ({desc})', c))
        else:
            cols = [col for v in real for col in v[2]]
            dts = [b.dtype for b in real_blocks for _ in range(1 if b.ndim == 1 else b.shape[1])]
            nrows = n if iic is None else iic.size
            if any(b.shape[0] != nrows for b in real_blocks):
                fails.append(Failure('oracle', f'resize_blocks yields a block with {[b.shape for b in real_blocks]} rows, expected {nrows} ({desc})', c))
            check_reference('resize_blocks', cols, dts)
        if outs:
            out, spec_out, wf_i, wf_c = outs
            if out.startswith('err '):
                ok = isinstance(real, tuple) and real[1] == out[4:].strip()
            else:
                e = parse_sexp(out[3:])
                mod = [model_block_view(b, it) for b in e[1:]]
                ok = not isinstance(real, tuple) and len(mod) == len(real) and all(views_equal(x, y) for x, y in zip(mod, real))
                # the layout-free specification evaluated by the driver = the model's blocks flattened (proved: resize_refines)
                if spec_out.startswith('ok '):
                    se = parse_sexp(spec_out[3:])
                    flat = [(v[1], col) for v in mod for col in v[2]]
                    sp = [(x[0], [it.token(a) for a in x[1:]]) for x in se[1:]]
                    if flat != sp:
                        fails.append(Failure('corr', f'model blocks {str(flat)[:160]} differ from the layout-free specification {str(sp)[:160]} ({desc})', c))
                else:
                    fails.append(Failure('corr', f'layout-free specification answers {spec_out[:80]} where the block model succeeds ({desc})', c))
            if not ok:
                fails.append(Failure('corr', f'resize_blocks: model {out[:220]} vs real {str(real)[:220]} ({desc})', c))
            if wf_i.strip() != 'ok 1' or wf_c.strip() != 'ok 1':
                fails.append(Failure('corr', f'IC.WF does not hold for a real IndexCorrespondence: index {ic_wire(iic, n)} -> {wf_i}, columns {ic_wire(cic, m)} -> {wf_c} ({desc})', c))
        return fails

    # frame
    import static_frame as sf
    f = sf.Frame(tb, index=si, columns=sc, own_data=True)
    try:
        res = f.reindex(index=di, columns=dc, fill_value=fill)
        real = real_tb_view(res._blocks)
        exp_shape = (n if di is None else len(di), m if dc is None else len(dc))
        if res.shape != exp_shape or (di is not None and not res.index.equals(di)) or (dc is not None and not res.columns.equals(dc)):
            fails.append(Failure('oracle', f'Frame.reindex: shape {res.shape} / labels differ from the requested ones ({desc})', c))
        cols = [array_toks(res._blocks._extract_array(column_key=j)) for j in range(res.shape[1])]
        check_reference('Frame.reindex', cols, list(res._blocks.dtypes))
    except Exception as ex:
        real = ('err', err_cat(ex), repr(ex)[:80])
        ctx.count(f'resize_frame_raises_{real[1]}')
        fails.append(Failure('oracle', f'Frame.reindex raises {real[2]} ({desc})', c))
    if outs:
        mod = answer_tb(outs[0], it)
        if isinstance(mod, tuple):
            ok = isinstance(real, tuple) and real[1] == mod[1]
        else:
            ok = (not isinstance(real, tuple) and mod['rows'] == real['rows'] and mod['dtypes'] == real['dtypes']
                  and mod['layout'] == real['layout'] and len(mod['cols']) == len(real['cols'])
                  and all(cells_equal(x, y) for x, y in zip(mod['cols'], real['cols'])))
        if not ok:
            fails.append(Failure('corr', f'Frame.reindex: model {outs[0][:220]} vs real {str(real)[:220]} ({desc})', c))
    return fails


def eval_layouts(ctx, c):
    """THE PROPERTY: the block layout is unobservable through reindex (values, per-column dtypes, exception class)"""
    import static_frame as sf
    fill = untok(c['fill'])
    res = []
    for lay in (c['la'], c['lb']):
        tb, si, sc, di, dc = build(c, lay)
        f = sf.Frame(tb, index=si, columns=sc, own_data=True)
        try:
            g = f.reindex(index=di, columns=dc, fill_value=fill)
            cols = [g._blocks._extract_array(column_key=j) for j in range(g.shape[1])]
            res.append(('ok', g.shape, [(dtype_tok(a.dtype), array_toks(a)) for a in cols]))
        except Exception as ex:
            res.append(('err', err_cat(ex)))
    if res[0] != res[1]:
        return [Failure('oracle', f'reindex(index {c["ilab"]} -> {c["idst"]}, columns {c["clab"]} -> {c["cdst"]}, fill={c["fill"]}) differs between layouts '
                                  f'{c["la"]} and {c["lb"]}: {str(res[0])[:160]} vs {str(res[1])[:160]}', c)]
    return []
