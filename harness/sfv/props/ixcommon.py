"""Shared helpers of the index properties C02 / C05 (own file: nothing shared is edited).

 * H(v): ==/hash class of a label with date types normalised; Interner: H -> driver atom
 * s-expression reader for driver answers
 * label pools, flat label sequences, ragged tree label sets
 * builders for every index class / construction route
 * wire encoders (labels, keys, IndexLevel trees read off the real object)
 * the Lean-independent bijection oracle
"""
from __future__ import annotations

import datetime
import itertools
import math

import numpy as np

from sfv.canon import tok, untok, hash_class, err_cat


# ----------------------------------------------------------------------------- hash classes
def H(v):
    """Token of the ==/hash class of a label: 1 == 1.0 == True; np.str_ == str; date types by value."""
    if isinstance(v, np.datetime64):
        if np.isnat(v):
            return 'nat'
        return 'dt:' + str(v)
    if isinstance(v, datetime.datetime):
        return 'dt:' + str(np.datetime64(v, 's'))
    if isinstance(v, datetime.date):
        return 'dt:' + v.isoformat()
    if isinstance(v, tuple):
        return 't:(' + ' '.join(H(x) for x in v) + ')'
    return hash_class(v)


def HT(t):
    """hash classes of the components of a label tuple"""
    return tuple(H(x) for x in t)


class Interner:
    """H token -> atom of the driver's label type (`i:<int>` for integer classes, `L<k>` otherwise)."""

    def __init__(self):
        self.m = {}

    def atom(self, h):
        if h.startswith('n:'):
            r = h[2:]
            try:
                return 'i:' + str(int(r))
            except ValueError:
                pass
        if h not in self.m:
            self.m[h] = f'L{len(self.m)}'
        return self.m[h]

    def lab(self, v):
        return self.atom(H(v))

    def labs(self, vs):
        return '(' + ' '.join(self.lab(v) for v in vs) + ')'


# ----------------------------------------------------------------------------- s-expressions
def parse_sexp(s):
    """'(a (b c) d)' -> ['a', ['b', 'c'], 'd']; atoms stay strings."""
    toks = s.replace('(', ' ( ').replace(')', ' ) ').split()
    pos = 0

    def rd():
        nonlocal pos
        t = toks[pos]
        pos += 1
        if t == '(':
            out = []
            while toks[pos] != ')':
                out.append(rd())
            pos += 1
            return out
        return t
    out = []
    while pos < len(toks):
        out.append(rd())
    return out[0] if len(out) == 1 else out


def parse_answer(ans):
    """driver answer -> ('ok', sexp) | ('err', cat) | ('bad', ans)"""
    if ans.startswith('ok'):
        body = ans[2:].strip()
        return ('ok', parse_sexp(body) if body else None)
    if ans.startswith('err '):
        return ('err', ans[4:].strip())
    return ('bad', ans)


# ----------------------------------------------------------------------------- label pools
STRS = ['a', 'b', 'c', 'd', 'ab', '', 'Z', 'a b', 'x"y']
INTS = [0, 1, 2, 3, -1, 7, 10, -5]
FLOATS = [0.5, 1.0, 2.0, -1.5, 3.25, 0.0]
DATES = ['2020-01-01', '2020-01-02', '2020-02-29', '2021-12-31', '1999-06-15', '2020-01-03']


def pool_tokens(kind):
    """tokens (canon.tok strings) of a label pool"""
    if kind == 'str':
        return [tok(s) for s in STRS]
    if kind == 'int':
        return [tok(i) for i in INTS]
    if kind == 'float':
        return [tok(f) for f in FLOATS]
    if kind == 'bool':
        return [tok(True), tok(False)]
    if kind == 'tuple':
        return [tok(t) for t in [('a', 1), ('a', 2), ('b', 1), (1, 2), ('a',), (1, 'a'), ()]]
    if kind == 'mixed':
        return [tok(x) for x in ['a', 1, 1.0, True, 0, False, 2.5, None, ('a', 1), 'b', 2, 0.0]]
    if kind == 'date':
        return [tok(np.datetime64(d, 'D')) for d in DATES]
    if kind == 'month':
        return [tok(np.datetime64(m, 'M')) for m in ['2020-01', '2020-02', '2019-12', '2021-07', '2020-03']]
    if kind == 'year':
        return [tok(np.datetime64(y, 'Y')) for y in ['2018', '2019', '2020', '2021', '1999']]
    if kind == 'second':
        return [tok(np.datetime64(s, 's')) for s in ['2020-01-01T00:00:00', '2020-01-01T00:00:01', '2020-01-01T12:30:00',
                                                     '2019-12-31T23:59:59', '2020-06-01T06:00:00']]
    raise ValueError(kind)


FLAT_KINDS = ['str', 'int', 'float', 'bool', 'tuple', 'mixed', 'date', 'month', 'year', 'second']
DT_CLASS = {'date': 'IndexDate', 'month': 'IndexYearMonth', 'year': 'IndexYear', 'second': 'IndexSecond'}


def rand_flat_tokens(rng, kind, n, dup_p=0.15):
    """a label sequence of length n over the pool; with probability dup_p it contains a repeat"""
    pool = pool_tokens(kind)
    want_dup = rng.random() < dup_p and n >= 2
    if not want_dup:
        # distinct hash classes
        seen, out = set(), []
        cand = pool[:]
        rng.shuffle(cand)
        for t in cand:
            h = H(untok(t))
            if h not in seen:
                seen.add(h)
                out.append(t)
            if len(out) == n:
                break
        return out
    return [rng.choice(pool) for _ in range(n)]


def values(toks):
    return [untok(t) for t in toks]


# ----------------------------------------------------------------------------- trees
LEVEL_POOLS = {
    's': ['a', 'b', 'c', 'd'],
    'i': [1, 2, 3, 4],
    'f': [0.5, 1.5, 2.5, 3.5],
    'D': [np.datetime64(d, 'D') for d in DATES[:4]],
    'm': ['a', 1, 2.5, 'b'],      # mixed object level
    'b': [True, False],
}


def rand_tree_tuples(rng, depth, kinds=None, max_fan=3, max_leaves=8):
    """Ragged tree as a list of label tuples (tokens) in tree order: repeated inner labels under
    different parents, per-depth pools (kinds[d])."""
    if kinds is None:
        kinds = [rng.choice('sifDm') for _ in range(depth)]
        if rng.random() < 0.3:
            kinds[rng.randrange(depth)] = 'D'
    out = []

    def rec(d, prefix):
        pool = LEVEL_POOLS[kinds[d]]
        k = rng.randint(1, min(max_fan, len(pool)))
        labs = rng.sample(pool, k)
        for l in labs:
            if len(out) >= max_leaves:
                return
            if d == depth - 1:
                out.append(prefix + (l,))
            else:
                rec(d + 1, prefix + (l,))
    rec(0, ())
    return [tok(t) for t in out], kinds


def all_tree_shapes(max_leaves, depth, labels_per_level=3):
    """Every tree (as tuple list over integer-coded labels 0..k-1 per level) with <= max_leaves leaves,
    uniform depth, children labelled by a prefix 0..k-1 of the level's labels (shapes up to renaming)."""
    def trees(d, budget):
        # yields list of suffix tuples, each tree uses <= budget leaves, at least 1
        if d == depth - 1:
            for k in range(1, min(labels_per_level, budget) + 1):
                yield [(i,) for i in range(k)]
            return
        # choose number of children k, then sub-trees
        for k in range(1, labels_per_level + 1):
            def rec(i, rem):
                if i == k:
                    yield []
                    return
                # each remaining child needs >= 1 leaf
                for sub in trees(d + 1, rem - (k - i - 1)):
                    for rest in rec(i + 1, rem - len(sub)):
                        yield [[(i,) + s for s in sub]] + rest
            if budget >= k:
                for parts in rec(0, budget):
                    yield [t for p in parts for t in p]
    yield from trees(0, max_leaves)


def tree_ordered(hts):
    """Lean-independent reference: is the tuple sequence a tree in the given order (every prefix of
    length < depth names a contiguous run)?"""
    if not hts:
        return True
    depth = len(hts[0])
    closed = set()
    last = None
    for t in hts:
        if len(t) != depth:
            return False
        for d in range(1, depth):
            p = t[:d]
            if last is not None and last[:d] != p:
                # the run of last[:d] (and of all its extensions) is closed now
                for dd in range(d, depth):
                    closed.add(last[:dd])
                break
        for d in range(1, depth):
            if t[:d] in closed:
                return False
        last = t
    return True


# ----------------------------------------------------------------------------- builders
def sf_mod():
    import static_frame as sf
    return sf


def build_flat(cls_name, vals, route='ctor', name=None):
    """Construct a flat index of the given class from label values by the given route."""
    sf = sf_mod()
    cls = getattr(sf, cls_name)
    if route == 'ctor':
        return cls(vals)
    if route == 'from_labels':
        return cls.from_labels(vals)
    if route == 'gen':
        return cls(v for v in vals)
    if route == 'tuple':
        return cls(tuple(vals))
    if route == 'array':
        from static_frame.core.util import iterable_to_array_1d
        if not vals:
            return cls(np.array([], dtype=object) if cls_name in ('Index', 'IndexGO') else vals)
        arr, _ = iterable_to_array_1d(vals)
        return cls(arr)
    if route == 'from_index':
        base = sf.Index(vals) if cls_name in ('Index', 'IndexGO') else getattr(sf, cls_name.replace('GO', ''))(vals)
        return cls(base)
    if route == 'series':
        return cls(sf.Series(vals, index=range(len(vals))) if vals else vals)
    raise ValueError(route)


def build_auto(n, go=False):
    from static_frame.core.index_auto import IndexAutoFactory
    sf = sf_mod()
    return IndexAutoFactory.from_optional_constructor(n, default_constructor=sf.IndexGO if go else sf.Index)


def tuples_to_tree(tuples):
    """nested dict/list structure for from_tree (assumes tree order)"""
    depth = len(tuples[0])
    tree = {}
    for t in tuples:
        cur = tree
        for d, v in enumerate(t):
            if d < depth - 2:
                cur = cur.setdefault(v, {})
            elif d == depth - 2:
                cur = cur.setdefault(v, [])
            else:
                cur.append(v)
    return tree


def index_constructors_for(kinds, go=False):
    sf = sf_mod()
    out = []
    for k in kinds:
        if k == 'D':
            out.append(sf.IndexDateGO if go else sf.IndexDate)
        else:
            out.append(sf.IndexGO if go else sf.Index)
    return out


def build_ih(tuples, route='from_labels', go=False, kinds=None):
    sf = sf_mod()
    cls = sf.IndexHierarchyGO if go else sf.IndexHierarchy
    if route == 'from_labels':
        return cls.from_labels(tuples)
    if route == 'from_labels_gen':
        return cls.from_labels(t for t in tuples)
    if route == 'from_labels_ctor':
        return cls.from_labels(tuples, index_constructors=index_constructors_for(kinds, go))
    if route == 'from_tree':
        return cls.from_tree(tuples_to_tree(tuples))
    if route == 'from_index_items':
        assert len(tuples[0]) == 2
        items = []
        for k, grp in itertools.groupby(tuples, key=lambda t: H(t[0])):
            grp = list(grp)
            items.append((grp[0][0], sf.Index([t[1] for t in grp])))
        return cls.from_index_items(items)
    if route == 'from_index_items_auto':
        # leaves are AUTOMATIC integer indices (no label map: labels are positions), as Series.from_concat_items of
        # default-indexed Series builds them; requires is_auto_leaf(tuples)
        items = []
        for k, grp in itertools.groupby(tuples, key=lambda t: H(t[0])):
            grp = list(grp)
            items.append((grp[0][0], sf.Index(range(len(grp)), loc_is_iloc=True)))
        return cls.from_index_items(items)
    if route == 'concat_items_auto':
        import numpy as np
        items = []
        for k, grp in itertools.groupby(tuples, key=lambda t: H(t[0])):
            grp = list(grp)
            items.append((grp[0][0], sf.Series(np.arange(len(grp)))))
        ih = sf.Series.from_concat_items(items).index
        return cls(ih) if go else ih
    if route == 'from_product':
        levels = []
        for d in range(len(tuples[0])):
            seen, labs = set(), []
            for t in tuples:
                if H(t[d]) not in seen:
                    seen.add(H(t[d]))
                    labs.append(t[d])
            levels.append(labs)
        return cls.from_product(*levels)
    if route == 'type_blocks':
        from static_frame.core.type_blocks import TypeBlocks
        from static_frame.core.util import iterable_to_array_1d
        cols = [iterable_to_array_1d([t[d] for t in tuples])[0] for d in range(len(tuples[0]))]
        return cls._from_type_blocks(TypeBlocks.from_blocks(cols))
    if route == 'copy_ctor':
        return cls(sf.IndexHierarchy.from_labels(tuples))
    raise ValueError(route)


GO_START_ROUTES = ['from_labels', 'from_product', 'from_tree', 'selection', 'static_to_go', 'static_product_to_go', 'copy', 'go_of_go',
                   'type_blocks']


def product_levels(tuples):
    levels = []
    for d in range(len(tuples[0])):
        seen, labs = set(), []
        for t in tuples:
            if H(t[d]) not in seen:
                seen.add(H(t[d]))
                labs.append(t[d])
        levels.append(labs)
    return levels


def build_go_start(tuples, route, depth):
    """An IndexHierarchyGO holding `tuples`, reached by `route`, plus the objects that must stay unchanged while it
    grows: the static index it was converted from, the GO it was copied from, a copy taken before the growth.
    Routes needing a product fall back to from_labels when the tuples are not a product."""
    sf = sf_mod()
    GO, ST = sf.IndexHierarchyGO, sf.IndexHierarchy
    keep = []
    if not tuples:
        go = GO.from_labels((), depth_reference=depth)
        return go, keep
    prod = is_product([HT(t) for t in tuples])
    if route in ('from_product', 'static_product_to_go') and not prod:
        route = 'from_labels' if route == 'from_product' else 'static_to_go'
    if route == 'from_labels':
        go = GO.from_labels(tuples)
    elif route == 'from_product':
        go = GO.from_product(*product_levels(tuples))
    elif route == 'from_tree':
        go = GO.from_tree(tuples_to_tree(tuples))
    elif route == 'type_blocks':
        go = build_ih(tuples, 'type_blocks', go=True)
    elif route == 'selection':
        static = ST.from_labels(tuples)
        sel = static.iloc[list(range(len(tuples)))]       # rebuilt through _from_type_blocks
        go = GO(sel)
        keep += [('static source', static), ('selection', sel)]
    elif route == 'static_to_go':
        static = ST.from_labels(tuples)
        go = GO(static)
        keep.append(('static source', static))
    elif route == 'static_product_to_go':
        static = ST.from_product(*product_levels(tuples))
        go = GO(static)
        keep.append(('static source', static))
    elif route == 'copy':
        g0 = GO.from_product(*product_levels(tuples)) if prod else GO.from_labels(tuples)
        go = g0.copy()
        keep.append(('GO copied from', g0))
    elif route == 'go_of_go':
        g0 = GO.from_product(*product_levels(tuples)) if prod else GO.from_tree(tuples_to_tree(tuples))
        go = GO(g0)
        keep.append(('GO converted from', g0))
    else:
        raise ValueError(route)
    keep.append(('copy taken before the growth', go.copy()))
    keep.append(('static conversion taken before the growth', ST(go)))
    return go, keep


def check_unchanged(keep, hts, what):
    """the kept objects still hold exactly the initial tuples (iteration, len, values, lookup of every tuple)"""
    out = []
    for name, ix in keep:
        try:
            got = [HT(t) for t in ix]
            if got != hts or len(ix) != len(hts):
                out.append(f'{what}: the {name} changed: {got} (len {len(ix)}) != {hts}')
                continue
            vals = [HT(tuple(r)) for r in ix.values]
            if vals != hts:
                out.append(f'{what}: values of the {name} changed: {vals}')
            for i, t in enumerate(list(ix)):
                if int(ix.loc_to_iloc(t)) != i:
                    out.append(f'{what}: lookup in the {name}: {t!r} -> {ix.loc_to_iloc(t)} (position {i})')
                    break
        except Exception as ex:
            out.append(f'{what}: reading the {name} raised {type(ex).__name__}: {ex}')
    return out


GROW_POOLS = {
    's': ['a', 'b', 'c', 'd', 'e', 'f', 'g'],
    'i': [1, 2, 3, 4, 5, 6, 7],
    'f': [0.5, 1.5, 2.5, 3.5, 4.5, 5.5],
}


def rand_grow_history(rng, tuples, kinds, steps):
    """Appends whose first new label sits at a chosen depth under the right-most path (what the guard allows), appends
    under other (closed) parents and of held keys (must be refused), extends with new outer labels.  Tokens."""
    depth = len(kinds)
    pools = [GROW_POOLS[k] for k in kinds]
    cur = list(tuples)
    ops = []
    for _ in range(steps):
        r = rng.random()
        if not cur:
            key = tuple(rng.choice(pools[d]) for d in range(depth))
            ops.append(['ap', tok(key)])
            cur.append(key)
            continue
        last = cur[-1]
        if r < 0.65:
            js = list(range(depth))
            rng.shuffle(js)
            for j in js:
                sib = {H(t[j]) for t in cur if HT(t[:j]) == HT(last[:j])}
                fresh = [l for l in pools[j] if H(l) not in sib]
                if fresh:
                    key = tuple(last[:j]) + (rng.choice(fresh),) + tuple(rng.choice(pools[d]) for d in range(j + 1, depth))
                    ops.append(['ap', tok(key)])
                    cur.append(key)
                    break
        elif r < 0.85:
            # a parent that is not on the right-most path, or a held key: must be refused, index unchanged
            t = rng.choice(cur)
            j = rng.randrange(1, depth)
            key = tuple(t[:j]) + tuple(rng.choice(pools[d]) for d in range(j, depth))
            ops.append(['ap', tok(key)])
            hk = HT(key)
            hcur = [HT(x) for x in cur]
            if hk not in hcur and tree_ordered(hcur + [hk]):
                cur.append(key)
        else:
            outer = {H(t[0]) for t in cur}
            fresh = [l for l in pools[0] if H(l) not in outer]
            if fresh:
                o = fresh[0]
                other = [(o,) + tuple(rng.choice(pools[d]) for d in range(1, depth - 1)) + (l,) for l in pools[depth - 1][:rng.randint(1, 2)]]
                ops.append(['ex', [tok(t) for t in other]])
                cur += other
    return ops


def is_auto_leaf(tuples):
    """depth 2, and under every outer label the inner labels are exactly the ints 0..k-1 in order"""
    if not tuples or len(tuples[0]) != 2:
        return False
    for k, grp in itertools.groupby(tuples, key=lambda t: H(t[0])):
        inner = [t[1] for t in grp]
        if any(type(v) is not int for v in inner) or inner != list(range(len(inner))):
            return False
    return True


def auto_leaf_tuples(rng, max_groups=4, max_size=4):
    """tokens of a depth-2 tree whose leaves hold 0..k-1 (leaf sizes differ, so a label held by one leaf is absent from another)"""
    outer_kind = rng.choice('si')
    outs = rng.sample(LEVEL_POOLS[outer_kind], rng.randint(1, min(max_groups, len(LEVEL_POOLS[outer_kind]))))
    tups = []
    for o in outs:
        for i in range(rng.randint(1, max_size)):
            tups.append((o, i))
    return [tok(t) for t in tups], [outer_kind, 'i']


def is_product(hts):
    if not hts:
        return False
    depth = len(hts[0])
    levels = []
    for d in range(depth):
        seen = []
        for t in hts:
            if t[d] not in seen:
                seen.append(t[d])
        levels.append(seen)
    return list(itertools.product(*levels)) == list(hts)


# ----------------------------------------------------------------------------- wire encoders
def level_wire(level, intern):
    """IndexLevel object -> s-expr of the model's Level (labels read from the node's index)."""
    labs = intern.labs(list(level.index.values) if level.index.values.dtype.kind not in 'mM' else list(level.index.values))
    if level.targets is None:
        return f'(l {labs} {int(level.offset)})'
    cs = ' '.join(level_wire(t, intern) for t in level.targets)
    return f'(n {labs} ({cs}) {int(level.offset)})'


def level_struct(level):
    """IndexLevel object -> nested python structure with H tokens: ('l', labels, off) | ('n', labels, children, off)"""
    labs = [H(x) for x in level.index.values]
    if level.targets is None:
        return ('l', labs, int(level.offset))
    return ('n', labs, [level_struct(t) for t in level.targets], int(level.offset))


def struct_from_sexp(sx, inv):
    """model tree s-expr (parsed) -> same structure as level_struct, atoms mapped back through inv"""
    def lab(a):
        if a.startswith('i:'):
            return 'n:' + a[2:]
        return inv.get(a, a)
    if sx[0] == 'l':
        return ('l', [lab(a) for a in sx[1]], int(sx[2]))
    return ('n', [lab(a) for a in sx[1]], [struct_from_sexp(c, inv) for c in sx[2]], int(sx[3]))


def struct_tuples(st, prefix=()):
    if st[0] == 'l':
        return [prefix + (l,) for l in st[1]]
    out = []
    for l, c in zip(st[1], st[2]):
        out += struct_tuples(c, prefix + (l,))
    return out


def inv_map(intern):
    return {v: k for k, v in intern.m.items()}


def ikey_positions(ik, n):
    """positions addressed by an iloc key returned by loc_to_iloc on a sequence of length n"""
    if isinstance(ik, slice):
        return list(range(*ik.indices(n)))
    if isinstance(ik, (int, np.integer)) and not isinstance(ik, (bool, np.bool_)):
        return [int(ik)]
    if isinstance(ik, (bool, np.bool_)):
        return [int(ik)]
    arr = np.asarray(ik)
    if arr.dtype == bool:
        return [int(i) for i in np.flatnonzero(arr)]
    return [int(i) for i in arr.tolist()]


def ikey_wire_positions(sx, n):
    """positions of a model IKey s-expr"""
    k = sx[0]
    if k == 'int':
        return [int(sx[1])]
    if k in ('list', 'arr'):
        return [int(x) for x in sx[1:]]
    if k == 'sl':
        f = lambda a: None if a == 'N' else int(a)
        return list(range(*slice(f(sx[1]), f(sx[2]), f(sx[3])).indices(n)))
    raise ValueError(sx)


def ikey_kind(ik):
    if isinstance(ik, slice):
        return 'sl'
    if isinstance(ik, (int, np.integer)):
        return 'int'
    if isinstance(ik, np.ndarray):
        return 'arr' if ik.dtype != object else 'list'
    return 'list'


# ----------------------------------------------------------------------------- the bijection oracle
def row_tuples(values2d):
    return [tuple(r) for r in values2d]


def check_bijection(ix, absent=(), expect=None, hier=None, what=''):
    """Lean-independent statement of C02 on a real index.  Returns a list of violation strings.
    expect: list of H tokens (flat) / HT tuples (hierarchy) the index must hold, in order (optional)."""
    sf = sf_mod()
    out = []
    if hier is None:
        hier = isinstance(ix, sf.IndexHierarchy)
    try:
        labels = list(ix)
        n = len(ix)
    except Exception as ex:
        return [f'{what}: len/list raised {type(ex).__name__}: {ex}']
    hs = [HT(l) if hier else H(l) for l in labels]
    if len(labels) != n:
        out.append(f'{what}: len {n} != number of iterated labels {len(labels)}')
    if len(set(hs)) != len(hs):
        out.append(f'{what}: index holds duplicate labels {hs}')
    if expect is not None and list(expect) != hs:
        out.append(f'{what}: labels {hs} != expected {list(expect)}')
        return out
    try:
        rv = list(reversed(ix))
        rh = [HT(l) if hier else H(l) for l in rv]
        if rh != hs[::-1]:
            out.append(f'{what}: reversed {rh} is not the reverse of {hs}')
    except Exception as ex:
        out.append(f'{what}: reversed raised {type(ex).__name__}: {ex}')
    try:
        vals = ix.values
        vh = [HT(r) for r in row_tuples(vals)] if hier else [H(v) for v in vals]
        if vh != hs:
            out.append(f'{what}: values {vh} != iteration order {hs}')
    except Exception as ex:
        out.append(f'{what}: values raised {type(ex).__name__}: {ex}')
    try:
        pos = [int(p) for p in ix.positions]
        if pos != list(range(len(hs))):
            out.append(f'{what}: positions {pos}')
    except Exception as ex:
        out.append(f'{what}: positions raised {type(ex).__name__}: {ex}')
    for i, l in enumerate(labels):
        try:
            p = ix.loc_to_iloc(l)
            if not isinstance(p, (int, np.integer)) or int(p) != i:
                out.append(f'{what}: loc_to_iloc({l!r}) = {p!r}, label is at position {i}')
        except Exception as ex:
            out.append(f'{what}: loc_to_iloc({l!r}) raised {type(ex).__name__}: {ex}')
        try:
            if not (l in ix):
                out.append(f'{what}: held label {l!r} reported as not in index')
        except Exception as ex:
            out.append(f'{what}: `in` raised {type(ex).__name__}: {ex}')
        try:
            v = ix.iloc[i]
            hv = HT(v) if hier else H(v)
            if hv != hs[i]:
                out.append(f'{what}: iloc[{i}] = {v!r} but the {i}-th label is {l!r}')
        except Exception as ex:
            out.append(f'{what}: iloc[{i}] raised {type(ex).__name__}: {ex}')
    held = set(hs)
    for a in absent:
        ha = HT(a) if hier else H(a)
        if ha in held:
            continue
        try:
            if a in ix:
                out.append(f'{what}: absent label {a!r} reported as in index')
        except Exception as ex:
            out.append(f'{what}: `in` on absent {a!r} raised {type(ex).__name__}: {ex}')
        try:
            p = ix.loc_to_iloc(a)
            out.append(f'{what}: loc_to_iloc of absent label {a!r} returned {p!r}')
        except Exception as ex:
            if err_cat(ex) != 'lookup':
                out.append(f'{what}: loc_to_iloc of absent label {a!r} raised {type(ex).__name__} (not a lookup error)')
    return out
