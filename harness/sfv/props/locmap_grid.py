"""Grid cross-check of the translator tools/py2lean_locmap.py (cases of kind 'lmgrid', run by C02; C04 / C05 run a
smaller part).

For a small list of distinct labels (the index) and an offset (None / 0 / 3 - the offset of a node of a hierarchy),
EVERY slice key with start, stop in labels ∪ {None, an absent label} and step in {None, 1, 2, -1, -2} is given to
  * the real `LocMap.loc_to_iloc(label_to_pos=dict, labels=array, positions=arange(n), key=slice, offset=off)` and the
    real generator `LocMap.map_slice_args(dict.get, key, labels, off)`;
  * the GENERATED definitions `SF.Gen.LocMap.loc_to_iloc_slice` / `map_slice_args` through the driver
    (ops `locmap.slice`, `locmap.args`) - the answers must be identical (slice fields / the three yielded values /
    the exception class): this is the check of the translator's reading of Python;
  * the hand-mirrored `Index.locMap` (op `locmap.hand`), which BridgeLocMap.lean proves equal to the generated one;
  * a Lean-independent oracle on the real function: applied to a sequence that is longer than the index on both
    sides (`offset` leading and 4 trailing foreign positions) the returned slice selects exactly
    `offset + p` for the positions p from the start label (or the near end) to the stop label INCLUSIVE (or the far
    end) in steps of `step`, in that order; an endpoint that is not held raises LocInvalid.
    Outside the oracle (documented in Props/C05.lean, `stepped_empty_leaf_counterexample`): an EMPTY index at
    offset 0 under a negative step with an open start (start = offset + 0 - 1 = -1 counts from the end).
    Cases with 'npstep' repeat the slices with np.int64 steps (the generated functions read a step by its integer
    value, whatever its class): same comparisons, same strict oracle (finding F90 - a negative np.integer step lost the
    stop label - is repaired in /repo commit b8dc316).
The same for the other two translated branches of `LocMap.loc_to_iloc`: every single label (held or absent) as an
element key (ops `locmap.elem`, `locmap.handkey`), and every Python list of length <= 2 over labels + absent (and a few
of length 3, with repeats) as a list key, with and without `partial_selection` (ops `locmap.list`, `locmap.handkey`);
oracle: `offset + position` per label in key order, KeyError on an absent label unless `partial_selection` drops it.
"""
from __future__ import annotations

import itertools

import numpy as np

from check import Failure

K = 'lmgrid'
ABSENT = '<absent>'
POOLS = {
    'str': ['a', 'b', 'c', 'd', 'e', 'f'],
    'int': [10, -3, 0, 7, 2, 99],                 # integer labels that are not their positions
    'mixed': ['x', 5, 2.5, 'y', -1, True],         # (True == 1: distinct from every other label here)
}
STEPS_QUICK = [None, 1, 2, -1, -2]
STEPS_THOROUGH = [None, 1, 2, 3, -1, -2, -3]


def make(kind, n, off, steps, npstep=False):
    c = {'k': K, 'pool': kind, 'n': n, 'off': off, 'steps': list(steps)}
    if npstep:
        c['npstep'] = True       # the steps are np.int64 (class is not exactly int): repaired finding F90, strict oracle
    return c


def cases(ctx, offsets=(None, 0, 3), sizes=(0, 1, 2, 3, 4), pools=('str', 'int'), npstep=False):
    quick = ctx.tier == 'quick'
    steps = STEPS_QUICK if quick else STEPS_THOROUGH
    if not quick:
        offsets = tuple(offsets) + tuple(o for o in (1, 7) if o not in offsets)
        sizes = tuple(sizes) + (5,)
        pools = tuple(pools) + tuple(p for p in ('mixed',) if p not in pools)
    for kind in pools:
        for n in sizes:
            if kind != 'str' and n in (0,):
                continue
            for off in offsets:
                yield make(kind, n, off, steps)
    if npstep:
        for n in (1, 3):
            for off in offsets:
                yield make('str', n, off, [s for s in steps if s is not None], npstep=True)


def labels_of(c):
    return POOLS[c['pool']][:c['n']]


def keys_of(c):
    labs = list(range(c['n']))      # a label is named by its position; -1 = the absent label
    ends = [None] + labs + [-1]
    return list(itertools.product(ends, ends, c['steps']))


def elem_keys_of(c):
    return list(range(c['n'])) + [-1]


def list_keys_of(c):
    ends = list(range(c['n'])) + [-1]
    keys = [[]] + [[a] for a in ends] + [[a, b] for a in ends for b in ends]
    if c['n'] >= 2:
        keys += [[1, 0, 1], [0, -1, 1], [-1, -1, 0]]
    if c['n'] >= 3:
        keys += [[2, 1, 0], [0, 2, -1]]
    return [(k, ps) for k in keys for ps in (0, 1)]


def w_lab(e):
    return 'N' if e is None else ('Lx' if e == -1 else f'L{e}')


def w_int(v):
    return 'N' if v is None else str(int(v))


def model_lines(c):
    ls = '(' + ' '.join(f'L{i}' for i in range(c['n'])) + ')'
    off = w_int(c['off'])
    lines = []
    for a, b, st in keys_of(c):
        args = f'{ls} {w_lab(a)} {w_lab(b)} {w_int(st)}'
        lines += [f'locmap.slice {args} {off}', f'locmap.args {args} {off}', f'locmap.hand {args} {off}']
    if c.get('npstep'):
        return lines
    for a in elem_keys_of(c):
        lines += [f'locmap.elem {ls} {w_lab(a)} {off}', f'locmap.handkey {ls} (lab {w_lab(a)}) {off} 0']
    for k, ps in list_keys_of(c):
        ks = ' '.join(w_lab(a) for a in k)
        lines += [f'locmap.list {ls} ({ks}) {off} {ps}', f'locmap.handkey {ls} (list {ks}) {off} {ps}']
    return lines


def ref_positions(n, i, j, step):
    st = 1 if step is None else step
    if st > 0:
        a = 0 if i is None else i
        b = n - 1 if j is None else j
        return list(range(a, b + 1, st))
    a = n - 1 if i is None else i
    b = 0 if j is None else j
    return list(range(a, b - 1, st))


def evaluate(ctx, c, outs):
    from static_frame.core.index import LocMap
    from static_frame.core.exception import LocInvalid
    fails = []
    labels = labels_of(c)
    n, off = c['n'], c['off']
    absent = ABSENT
    d = {lab: i for i, lab in enumerate(labels)}
    arr = np.array(labels, dtype=object) if c['pool'] == 'mixed' else np.array(labels)
    positions = np.arange(n)
    keys = keys_of(c)
    model_on = bool(outs)
    ctx.count('lmgrid_cases')
    pyl = lambda e: None if e is None else (absent if e == -1 else labels[e])
    total = n if off is None else off + n + 4
    seq = list(range(total))
    npstep = bool(c.get('npstep'))
    for idx, (a, b, st) in enumerate(keys):
        key = slice(pyl(a), pyl(b), np.int64(st) if npstep else st)
        if npstep:
            ctx.count('lmgrid_numpy_step_keys')
        ctx.count('lmgrid_keys')
        # ---- the real functions
        try:
            r = LocMap.loc_to_iloc(label_to_pos=d, labels=arr, positions=positions, key=key, offset=off)
            if not isinstance(r, slice):
                real = f'err not-a-slice:{type(r).__name__}'
            else:
                real = f'ok (sl {w_int(r.start)} {w_int(r.stop)} {w_int(r.step)})'
        except LocInvalid:
            r, real = None, 'err LocInvalid'
        except Exception as ex:  # noqa: BLE001 - every other exception class is reported by name
            r, real = None, f'err {type(ex).__name__}'
        try:
            t = tuple(LocMap.map_slice_args(d.get, key, arr, off))
            real_args = 'ok (' + ' '.join(w_int(x) for x in t) + ')' if len(t) == 3 else f'err yielded-{len(t)}'
        except LocInvalid:
            real_args = 'err LocInvalid'
        except Exception as ex:  # noqa: BLE001
            real_args = f'err {type(ex).__name__}'
        # ---- branch counters
        if off is not None and a is None and b is None and st is None:
            ctx.count('lmgrid_null_slice_shortcut')
        if a == -1 or b == -1:
            ctx.count('lmgrid_absent_endpoint')
        elif st is not None and st < 0:
            ctx.count('lmgrid_desc')
            if b == 0:
                ctx.count('lmgrid_desc_stop_first_position')
            if b is None and off:
                ctx.count('lmgrid_desc_open_stop_bounded')
        elif (a is None or b is None) and off is not None:
            ctx.count('lmgrid_asc_open_end_bounded')
        # ---- translator vs real
        desc = f'labels={labels} key=slice({pyl(a)!r}, {pyl(b)!r}, {st}) offset={off}'
        if model_on:
            g_slice, g_args, hand = outs[3 * idx], outs[3 * idx + 1], outs[3 * idx + 2]
            if g_slice != real:
                fails.append(Failure('corr', f'translated slice branch of LocMap.loc_to_iloc differs from the real function: {desc}: generated {g_slice} vs real {real}', c))
            if g_args != real_args:
                fails.append(Failure('corr', f'translated LocMap.map_slice_args differs from the real generator: {desc}: generated {g_args} vs real {real_args}', c))
            hand_real = real.replace('err LocInvalid', 'err lookup')
            if hand != hand_real:
                fails.append(Failure('corr', f'hand-mirrored Index.locMap differs from the real LocMap.loc_to_iloc: {desc}: model {hand} vs real {hand_real}', c))
        # ---- oracle: stop-inclusive in the direction of the step, inside the index
        if a == -1 or b == -1:
            if real != 'err LocInvalid':
                fails.append(Failure('oracle', f'an endpoint that is not held must raise LocInvalid: {desc}: {real}', c,
                                     detail={'key': [a, b, st], 'real': real}))
            continue
        if n == 0 and off == 0 and st is not None and st < 0:
            ctx.count('lmgrid_oracle_excluded_empty_leaf_desc')
            continue
        if r is None:
            fails.append(Failure('oracle', f'a label slice over held labels raised: {desc}: {real}', c, detail={'key': [a, b, st], 'real': real}))
            continue
        want = [(off or 0) + p for p in ref_positions(n, a, b, st)]
        try:
            got = seq[r]
        except (ValueError, TypeError) as ex:      # e.g. a step of 0 / a non-integer field in the answer
            got = f'{type(ex).__name__}: {ex}'
        if got != want:
            fails.append(Failure('oracle', f'label slice is not stop-inclusive inside the index: {desc}: {real} selects {got}, expected {want}', c,
                                 detail={'key': [a, b, st], 'real': real, 'got': got, 'want': want, 'npstep': npstep}))
    # ---- element and list keys
    if npstep:
        return fails
    base = 3 * len(keys)
    others = [('elem', a, 0) for a in elem_keys_of(c)] + [('list', k, ps) for k, ps in list_keys_of(c)]
    for j, (kind, k, ps) in enumerate(others):
        ctx.count(f'lmgrid_{kind}_keys')
        pykey = pyl(k) if kind == 'elem' else [pyl(a) for a in k]
        try:
            r = LocMap.loc_to_iloc(label_to_pos=d, labels=arr, positions=positions, key=pykey, offset=off, partial_selection=bool(ps))
            if kind == 'elem':
                real = f'ok {w_int(r)}' if isinstance(r, (int, np.integer)) and not isinstance(r, bool) else f'err not-an-int:{type(r).__name__}'
            else:
                real = 'ok (' + ' '.join(w_int(x) for x in r) + ')' if isinstance(r, list) else f'err not-a-list:{type(r).__name__}'
        except KeyError:
            r, real = None, 'err KeyError'
        except Exception as ex:  # noqa: BLE001
            r, real = None, f'err {type(ex).__name__}'
        desc = f'labels={labels} key={pykey!r} offset={off} partial_selection={bool(ps)}'
        if model_on:
            g, hand = outs[base + 2 * j], outs[base + 2 * j + 1]
            if g != real:
                fails.append(Failure('corr', f'translated {kind} branch of LocMap.loc_to_iloc differs from the real function: {desc}: generated {g} vs real {real}', c))
            if kind == 'elem':
                hand_real = real.replace('err KeyError', 'err lookup').replace('ok ', 'ok (int ') + (')' if real.startswith('ok') else '')
            else:
                hand_real = real.replace('err KeyError', 'err lookup').replace('ok (', 'ok (list ' if real != 'ok ()' else 'ok (list')
            if hand != hand_real:
                fails.append(Failure('corr', f'hand-mirrored Index.locMap differs from the real LocMap.loc_to_iloc: {desc}: model {hand} vs real {hand_real}', c))
        # oracle: offset + position per label, in key order
        o = off or 0
        if kind == 'elem':
            want = 'err KeyError' if k == -1 else f'ok {o + k}'
        elif any(a == -1 for a in k) and not ps:
            want = 'err KeyError'
            ctx.count('lmgrid_list_absent_raises')
        else:
            if any(a == -1 for a in k):
                ctx.count('lmgrid_list_partial_drops')
            want = 'ok (' + ' '.join(str(o + a) for a in k if a != -1) + ')'
        if real != want:
            fails.append(Failure('oracle', f'{kind} key does not give offset + position of each label: {desc}: {real}, expected {want}', c,
                                 detail={'key': k, 'real': real, 'want': want}))
    return fails


def nontrivial(c):
    return c['n'] >= 1
