"""C14 (directional fills) - `util.slices_from_targets` TRANSLATED from the source
(tools/py2lean_targets.py -> lean/SFModel/Gen/Targets.lean, bridge lemmas lean/SFModel/BridgeTargets.lean).

Case kind 'tgrid': the REAL generator `util.slices_from_targets` called directly (transition positions of a
missing-cell pattern as the real `binary_transition` gives them - the way the three callers use it - and arbitrary
ascending position lists, both directions, limits 0 .. length + 1) compared, through the driver, with the translated
generator (`tgen.slices`) and with the hand-mirrored `NA.slicesFromTargets` (`tgen.hand`).
"""
from __future__ import annotations

import itertools

import numpy as np

from check import Failure
from sfv.ordutil import parse_answer

TARGETS = ['SFModel.BridgeTargets']
THEOREMS = ['SF.BridgeTargets.body_bridge', 'SF.BridgeTargets.raw_fwd_bridge', 'SF.BridgeTargets.raw_bwd_bridge',
            'SF.BridgeTargets.slices_bridge']
TRUSTED = ['tools/py2lean_targets.py (translator of util.slices_from_targets: candidate slices, no-op tests, limit trimming); cross-checked against '
           'the real generator on a grid each run (cases tgrid)']


def tcase(sel, ts, fwd, limit, how):
    return {'k': 'tgrid', 'sel': [int(b) for b in sel], 'ts': [int(t) for t in ts], 'fwd': bool(fwd), 'limit': int(limit), 'how': how}


def transitions(sel):
    from static_frame.core.util import binary_transition
    return [int(x) for x in binary_transition(np.array(sel, dtype=bool))]


def cases(ctx):
    quick = ctx.tier == 'quick'
    rng = ctx.rng('tgrid')
    # every missing-cell pattern of a short array, the real transition positions, both directions, every limit
    for n in range(0, 6 if quick else 8):
        for sel in itertools.product((0, 1), repeat=n):
            ts = transitions(sel) if n else []
            for fwd in (True, False):
                for limit in (range(0, n + 2) if (not quick or n <= 4) else (0, 1, 2, n)):
                    yield tcase(sel, ts, fwd, limit, 'transition')
    # arbitrary ascending position lists (not only transitions)
    for _ in range(600 if quick else 6000):
        n = rng.choice([1, 2, 3, 4, 5, 6, 8])
        sel = [rng.random() < 0.6 for _ in range(n)]
        ts = sorted(rng.sample(range(n), rng.randint(0, n)))
        yield tcase(sel, ts, rng.random() < 0.5, rng.choice([0, 0, 1, 2, 3, n, n + 1]), 'arbitrary')


def model_lines(c):
    w = lambda xs: '(' + ' '.join(str(int(x)) for x in xs) + ')'
    args = f'{w(c["ts"])} {len(c["sel"])} {int(c["fwd"])} {c["limit"]} {w(c["sel"])}'
    return [f'tgen.slices {args}', f'tgen.hand {args}']


def evaluate(ctx, c, outs):
    from static_frame.core.util import slices_from_targets
    ctx.count('tgrid_' + c['how'])
    sel, ts = [bool(b) for b in c['sel']], c['ts']
    try:
        real = [(int(s.start), int(s.stop), int(v)) for s, v in
                slices_from_targets(ts, ts, len(sel), c['fwd'], c['limit'], lambda s: bool(sel[s.start]))]
    except Exception as ex:
        return [Failure('corr', f'tgrid {c}: the real slices_from_targets raised {type(ex).__name__}: {ex}', c)]
    ctx.count(f'tgrid_yielded_{min(len(real), 3)}')
    if any((s[1] - s[0]) == c['limit'] for s in real) and c['limit']:
        ctx.count('tgrid_slice_at_limit')
    if not outs:
        return []
    fails = []
    for name, out in (('translated slices_from_targets', outs[0]), ('hand-mirrored slicesFromTargets', outs[1])):
        st, val = parse_answer(out)
        got = [(int(x[0]), int(x[1]), int(x[2])) for x in val] if st == 'ok' else (st, val)
        if got != real:
            fails.append(Failure('corr', f'tgrid sel={c["sel"]} ts={ts} fwd={c["fwd"]} limit={c["limit"]}: {name} {got} vs the real generator {real}', c))
    return fails


def nontrivial(c):
    return len(c['ts']) >= 1
