"""C20 - reshaping and relational operations follow their relational definitions.

Real `Frame.set_index / set_index_hierarchy / unset_index / relabel_shift_in / relabel_shift_out /
pivot / pivot_stack / pivot_unstack / join_*` are compared with

  * a pure-Python relational reference (rows as lists of cells: nested-loop join, dict-of-rows
    group / aggregate, explicit moves of columns into labels) - the property oracle;
  * the Lean model of the algorithms (SFModel/Rel.lean) through the driver.

Cells, labels and names are compared as ==-classes (1, 1.0 and True are one class; NaN is `na`).
"""
from __future__ import annotations

import itertools
import math

import numpy as np

from check import Failure
from sfv import gen
from sfv.canon import tok, untok, hash_class, err_cat

TARGETS = ['SFModel.Props.C20']
THEOREMS = [
    'SF.C20.join_spec', 'SF.C20.join_match_discovery', 'SF.C20.join_noncomposite_partial',
    'SF.C20.join_noncomposite_left_counterexample', 'SF.C20.join_noncomposite_right_counterexample',
    'SF.C20.join_noncomposite_outer_counterexample',
    'SF.C20.index_moves_inverse', 'SF.C20.index_moves_inverse_hierarchy', 'SF.C20.index_moves_inverse_shift',
    'SF.C20.index_moves_rows_perm',
    'SF.C20.pivot_spec', 'SF.C20.pivot_spec_no_columns', 'SF.C20.pivot_singleton_counterexample',
    'SF.C20.stack_cells_spec', 'SF.C20.unstack_cells_spec', 'SF.C20.stack_unstack_inverse_partial',
    'SF.C20.stack_unstack_roundtrip', 'SF.C20.stack_unstack_roundtrip_ordered', 'SF.C20.stack_unstack_roundtrip_id',
    'SF.C20.stack_unstack_roundtrip_cells',
]
PARTIAL = [
    'SF.C20.join_noncomposite_partial: composite_index=False proved for INNER, and for LEFT when no unmatched left label is also a '
    'right label; LEFT otherwise, RIGHT and OUTER have proved counterexamples (finding F6-join-noncomposite-label-alignment)',
    'SF.C20.pivot_spec: each cell is aggOne(func) of exactly its source rows: func is NOT applied to one-row groups '
    '(pivot_singleton_counterexample, finding C20-pivot-singleton-func); equals func(...) when func [v] = v',
    'SF.C20.stack_unstack_inverse_partial: superseded by SF.C20.stack_unstack_roundtrip (full round trip on well-formed frames - unique labels, '
    'uniform column tree, rectangular rows, predicate StackWF: unstack(stack f) is f with its columns gathered group by group, a permutation; the identity '
    'when the columns are already group-major, stack_unstack_roundtrip_id); outside StackWF (empty axes, all-true mask, non-uniform trees: fill values appear) '
    'only the cell-level statements stack_cells_spec / unstack_cells_spec hold',
]
CORR_ONLY = ['pivot_stack / pivot_unstack on hierarchical columns (reference + round trip on the real code)',
             'order of the distinct keys delivered by ufunc_unique / iter_group_items (parameter `uniq` of the model; results compared as label -> row maps)',
             'dtype resolution of result columns (NumPy); Index.union order of the non-composite outer join']
RULE = ('frames with repeated / unique key values, 1..2 key / index / columns / data fields, keys from columns or index depths, '
        'custom aggregation functions and function maps, fills of other types, 1:1 / 1:n / n:m cardinalities, both templates, random '
        'block layouts; thorough: all pairs of <= 3-row frames over 2 key values for every join type and both composite settings; '
        'non-trivial = both operands have rows; distinct = distinct case JSON')
TRUSTED = ['reading result labels / cells through the public API (index, columns, .values of columns)']
ASSUMPTIONS = ['labels of the operands are unique and not None (Index invariant); NaN keys match nothing (NumPy ==)',
               'ufunc_unique / iter_group_items deliver every distinct key exactly once (compared through label -> row maps)']
BUDGET = {'quick': 70, 'thorough': 700}


# ------------------------------------------------------------------ canonical tokens
def is_nan(v):
    if isinstance(v, (float, np.floating)):
        return math.isnan(float(v))
    if isinstance(v, (np.datetime64, np.timedelta64)):
        return bool(np.isnat(v))
    return False


def ct(v):
    """==-class token of a cell / label part"""
    if is_nan(v):
        return 'na'
    if isinstance(v, (np.str_,)):
        v = str(v)
    return hash_class(v)


def label_parts(x):
    """a label as a list of tokens (tuples are hierarchical / composite labels)"""
    if isinstance(x, tuple):
        return [ct(p) for p in x]
    return [ct(x)]


def frame_matrix(f):
    """rows as lists of tokens"""
    cols = []
    for j in range(f.shape[1]):
        arr = f.iloc[:, j].values
        cols.append([ct(v) for v in (list(arr) if arr.dtype.kind in 'mM' else arr.tolist())])
    return [[cols[j][i] for j in range(f.shape[1])] for i in range(f.shape[0])]


def frame_obs(f):
    return {'names': [ct(n) for n in f.index.names], 'index': [label_parts(x) for x in f.index],
            'columns': [label_parts(x) for x in f.columns], 'rows': frame_matrix(f)}


# ------------------------------------------------------------------ frame specs
KEY_POOLS = {'str': ['s:"a"', 's:"b"', 's:"c"'], 'int': ['i:1', 'i:2', 'i:3'], 'mixed': ['s:"a"', 'i:1', 'N'],
             'float': ['f:1.0', 'f:2.5', 'nan']}


def rand_rel_frame(rng, n, key_cols, data_cols, key_kind=None, unique_keys=False, index_kind='auto', key_values=2, prefix='', na=0.15):
    """frame with `key_cols` key columns (few distinct values -> repeats) and `data_cols` data columns"""
    cols = []
    labels = []
    for k in range(key_cols):
        kind = key_kind or rng.choice(['str', 'int', 'str', 'int', 'mixed', 'float'])
        pool = KEY_POOLS[kind][:max(2, key_values)] if kind != 'float' else KEY_POOLS[kind]
        if unique_keys:
            base = {'str': [tok(f'k{i}') for i in range(n)], 'int': [f'i:{i + 10}' for i in range(n)],
                    'mixed': [tok(f'k{i}') for i in range(n)], 'float': [f'f:{i + 0.5}' for i in range(n)]}[kind]
            vals = list(base)
            rng.shuffle(vals)
        else:
            vals = [rng.choice(pool) for _ in range(n)]
        dt = {'str': 'str', 'int': 'int64', 'mixed': 'object', 'float': 'float64'}[kind]
        cols.append({'dt': dt, 'v': vals})
        labels.append(tok(f'{prefix}k{k}'))
    for d in range(data_cols):
        dt = rng.choice(['int64', 'int64', 'float64', 'str'])
        if dt == 'int64':
            vals = [f'i:{rng.randint(0, 9) + 10 * (i + 1)}' for i in range(n)]
        elif dt == 'float64':
            vals = [f'f:{rng.randint(0, 9) + 0.5}' if rng.random() >= na else 'nan' for i in range(n)]
        else:
            vals = [tok(rng.choice(['p', 'q', 'r']) + str(i)) for i in range(n)]
        cols.append({'dt': dt, 'v': vals})
        labels.append(tok(f'{prefix}d{d}'))
    order = list(range(len(cols)))
    rng.shuffle(order)
    cols = [cols[i] for i in order]
    labels = [labels[i] for i in order]
    dts = [c['dt'] for c in cols]
    if index_kind == 'auto':
        index = {'kind': 'auto', 'labels': [f'i:{i}' for i in range(n)]}
    elif index_kind == 'str':
        index = {'kind': 'flat', 'labels': [tok(f'{prefix}r{i}') for i in range(n)]}
    elif index_kind == 'int':
        index = {'kind': 'flat', 'labels': [f'i:{v}' for v in rng.sample(range(100, 130), n)]}
    elif index_kind == 'ih':
        labs = gen.rand_tree_labels(rng, n, depth=2) if n else []
        index = {'kind': 'ih', 'labels': labs} if len(labs) == n and n else {'kind': 'flat', 'labels': [tok(f'{prefix}r{i}') for i in range(n)]}
    else:
        raise ValueError(index_kind)
    return {'index': index, 'columns': {'kind': 'flat', 'labels': labels}, 'cols': cols, 'layout': gen.rand_layout(rng, dts), 'rows': n}


def col_labels(spec):
    return [untok(t) for t in spec['columns']['labels']]


def key_cols_of(spec):
    return [untok(t) for t in spec['columns']['labels'] if untok(t).lstrip('LR_')[:1] == 'k' or untok(t)[:1] == 'k']


def data_cols_of(spec):
    return [l for l in col_labels(spec) if l not in key_cols_of(spec)]


# ------------------------------------------------------------------ wire encoding
def w_list(toks):
    return '(' + ' '.join(toks) + ')'


def w_frame_obs(o):
    return ('(fr ' + w_list(o['names']) + ' (' + ' '.join(w_list(l) for l in o['index']) + ') '
            + w_list([c[0] for c in o['columns']]) + ' (' + ' '.join(w_list(r) for r in o['rows']) + '))')


def w_table(o):
    return '(tb ' + w_list([c[0] for c in o['columns']]) + ' ' + ' '.join('(' + w_list(l) + ' ' + ' '.join(r) + ')' for l, r in zip(o['index'], o['rows'])) + ')'


def parse_sexp(s):
    """'ok (…)' body -> nested python lists of atoms"""
    from sfv.canon import split_toks
    s = s.strip()
    if s.startswith('(') and s.endswith(')'):
        return [parse_sexp(x) for x in split_toks(s[1:-1])]
    return s


def parse_answer(ans):
    if ans.startswith('ok '):
        return ('ok', parse_sexp(ans[3:]))
    if ans.startswith('err '):
        return ('err', ans[4:].strip())
    raise ValueError(f'driver answered {ans!r}')


# ------------------------------------------------------------------ case generation
def cases(ctx):
    rng = ctx.rng('main')
    quick = ctx.tier == 'quick'
    n_moves, n_join, n_pivot, n_stack = (1200, 3500, 2200, 700) if quick else (8000, 20000, 14000, 4000)
    for _ in range(n_moves):
        yield gen_moves(rng)
    for _ in range(n_join):
        yield gen_join(rng)
    for _ in range(n_pivot):
        yield gen_pivot(rng)
    for _ in range(n_stack):
        yield gen_stack(rng)
    if not quick:
        yield from exhaustive_joins()


def search(ctx):
    rng = ctx.rng('search')
    for _ in range(30000):
        yield rng.choice([gen_moves, gen_join, gen_join, gen_pivot, gen_pivot, gen_stack])(rng)


def gen_moves(rng):
    n = rng.randint(0, 5)
    unique = rng.random() < 0.75
    kc = rng.randint(1, 2)
    spec = rand_rel_frame(rng, n, kc, rng.randint(0, 3), unique_keys=unique and kc == 1,
                          key_kind=rng.choice(['str', 'int', 'mixed']),
                          index_kind=rng.choice(['auto', 'str', 'int', 'ih']), key_values=3, na=0)  # NaN labels: not claimed (C02)
    labs = col_labels(spec)
    op = rng.choice(['set_index', 'set_index', 'set_index_hierarchy', 'set_index_hierarchy', 'shift', 'shift'])
    c = {'k': 'moves', 'spec': spec, 'op': op, 'drop': rng.random() < 0.6, 'n': n}
    if rng.random() < 0.12 and op != 'shift':
        # every column is consumed (drop=True): the intermediate frame has rows and no column; then unset_index
        spec = rand_rel_frame(rng, n, 1 if op == 'set_index' else rng.choice([2, 2, 3]), 0, unique_keys=op == 'set_index',
                              key_kind=rng.choice(['str', 'int']), index_kind=rng.choice(['auto', 'str']), key_values=3, na=0)
        labs = col_labels(spec)
        c = {'k': 'moves', 'spec': spec, 'op': op, 'drop': True, 'n': n, 'all_columns': True, 'sorted': True}
        if op == 'set_index':
            c['col'], c['names'] = tok(labs[0]), []
        else:
            c['cols'], c['names'] = [tok(x) for x in rng.sample(labs, len(labs))], []
        return c
    if op == 'set_index':
        c['col'] = tok(rng.choice(labs)) if rng.random() < 0.95 else tok('missing')
        c['names'] = [tok('ix')] if (not c['drop'] or rng.random() < 0.3) else []
    elif op == 'set_index_hierarchy':
        k = rng.choice([2, 2, 3]) if len(labs) >= 2 else len(labs)
        c['cols'] = [tok(x) for x in rng.sample(labs, min(k, len(labs)))]
        c['names'] = [tok(f'h{i}') for i in range(len(c['cols']))] if (not c['drop'] or rng.random() < 0.3) else []
        c['sorted'] = rng.random() < 0.6   # sort the rows first so that the labels are in tree-form
        if rng.random() < 0.4:
            c['reorder'], c['sorted'] = True, False    # reorder_for_hierarchy=True on rows in any order
    else:
        k = rng.randint(1, min(2, len(labs)))
        c['cols'] = [tok(x) for x in rng.sample(labs, k)]
        c['sorted'] = rng.random() < 0.6
    return c


def gen_join(rng, jt=None, composite=None):
    card = rng.choice(['1:1', '1:n', 'n:m', 'n:m', 'none'])
    nl = 0 if rng.random() < 0.06 else rng.randint(1, 5)
    nr = 0 if rng.random() < 0.06 else rng.randint(1, 5)
    nkeys = rng.choice([1, 1, 2])
    kind = rng.choice(['str', 'int', 'mixed', 'float'])
    il, ir = rng.choice(['auto', 'str', 'int', 'ih']), rng.choice(['auto', 'str', 'int', 'ih'])
    L = rand_rel_frame(rng, nl, nkeys, rng.randint(0, 2), key_kind=kind, unique_keys=card in ('1:1', '1:n') and nkeys == 1, index_kind=il, prefix='L')
    R = rand_rel_frame(rng, nr, nkeys, rng.randint(0, 2), key_kind=kind, unique_keys=card == '1:1' and nkeys == 1, index_kind=ir, prefix='R')
    if card in ('1:1', '1:n') and nkeys == 1 and kind != 'float':
        # make the unique keys overlap: right keys drawn from the left keys (+ some new)
        lk = [c for c, lab in zip(L['cols'], L['columns']['labels']) if untok(lab).startswith('Lk')][0]['v']
        rcol = [c for c, lab in zip(R['cols'], R['columns']['labels']) if untok(lab).startswith('Rk')][0]
        pool = list(lk) + [tok('zz') if kind != 'int' else 'i:99']
        if card == '1:1':
            rcol['v'] = rng.sample(pool, min(len(pool), nr)) + rcol['v'][len(pool):]
            rcol['v'] = rcol['v'][:nr]
            if len(set(rcol['v'])) != len(rcol['v']):
                rcol['v'] = [tok(f'u{i}') if kind != 'int' else f'i:{50 + i}' for i in range(nr)]
        else:
            rcol['v'] = [rng.choice(pool) for _ in range(nr)]
        if kind == 'int':
            rcol['dt'] = 'int64'
    lkeys = [untok(t) for t in L['columns']['labels'] if untok(t).startswith('Lk')]
    rkeys = [untok(t) for t in R['columns']['labels'] if untok(t).startswith('Rk')]
    c = {'k': 'join', 'L': L, 'R': R, 'jt': jt or rng.choice(['inner', 'left', 'right', 'outer']),
         'composite': (rng.random() < 0.7) if composite is None else composite,
         'left_columns': [tok(x) for x in sorted(lkeys)], 'right_columns': [tok(x) for x in sorted(rkeys)],
         'left_depth': None, 'right_depth': None,
         'fill': rng.choice(['nan', 'nan', 'N', 'i:-1', 's:"x"']),
         'lt': rng.choice(['{}', '{}', 'l_{}', '{}_L']), 'rt': rng.choice(['{}', '{}', 'r_{}', '{}_R']), 'n': nl * nr}
    # keys from label depths: join the right frame on its index against a left key column
    if rng.random() < 0.2 and nkeys == 1 and R['index']['kind'] in ('flat',) and nr:
        c['right_columns'] = None
        c['right_depth'] = [0]
    elif rng.random() < 0.1 and R['index']['kind'] == 'ih' and nkeys == 1:
        c['right_columns'] = None
        c['right_depth'] = [rng.choice([0, 1])]
    return c


FUNCS = ['first', 'last', 'count', 'sum', 'max']


def gen_pivot(rng):
    n = rng.randint(1, 6)
    ni, nc = rng.choice([1, 1, 2]), rng.choice([0, 1, 1, 2])
    nd = rng.choice([1, 1, 2])
    kind = rng.choice(['str', 'int', 'str', 'int', 'mixed'])
    spec = rand_rel_frame(rng, n, ni + nc, 0, key_kind=kind, key_values=rng.choice([2, 3]))
    # integer data columns (so that sum / max / nansum are exact), unique per row
    for d in range(nd + rng.randint(0, 1)):
        if rng.random() < 0.8:
            spec['cols'].append({'dt': 'int64', 'v': [f'i:{rng.randint(0, 3) + 10 * (i + 1)}' for i in range(n)]})
        else:
            spec['cols'].append({'dt': 'float64', 'v': [f'f:{i + 0.5}' if rng.random() > 0.3 else 'nan' for i in range(n)]})
        spec['columns']['labels'].append(tok(f'd{d}'))
    spec['layout'] = gen.rand_layout(rng, [c['dt'] for c in spec['cols']])
    keys = [untok(t) for t in spec['columns']['labels'] if untok(t).startswith('k')]
    rng.shuffle(keys)
    datas = [untok(t) for t in spec['columns']['labels'] if untok(t).startswith('d')]
    r = rng.random()
    if r < 0.25:
        func = None
    elif r < 0.7:
        func = rng.choice(FUNCS)
    else:
        names = rng.sample(FUNCS, rng.choice([2, 2, 3]))
        func = [[tok(nm.upper()), nm] for nm in names]
    data_fields = [] if rng.random() < 0.2 else [tok(x) for x in rng.sample(datas, min(nd, len(datas)))]
    return {'k': 'pivot', 'spec': spec, 'index_fields': [tok(x) for x in keys[:ni]], 'columns_fields': [tok(x) for x in keys[ni:ni + nc]],
            'data_fields': data_fields, 'func': func, 'fill': rng.choice(['nan', 'nan', 'i:0', 's:"x"', 'N']), 'n': n}


def gen_stack(rng):
    n = rng.randint(1, 3)
    depth = rng.choice([1, 1, 2])
    if depth == 1:
        m = rng.randint(1, 3)
        columns = {'kind': 'flat', 'labels': [tok(f'c{j}') for j in range(m)]}
    else:
        outer, inner = rng.randint(1, 2), rng.randint(1, 3)
        uniform = rng.random() < 0.7
        labs = []
        for o in range(outer):
            ins = list(range(inner)) if uniform else rng.sample(range(inner + 1), rng.randint(1, inner))
            for i in ins:
                labs.append(tok((f'g{o}', f't{i}')))
        m = len(labs)
        columns = {'kind': 'ih', 'labels': labs}
    dt = rng.choice(['int64', 'float64', 'str', 'int64'])
    widths = rng.random() < 0.5      # columns of one kind but different widths: the stacked column must hold every cell unchanged
    cols = []
    for j in range(m):
        dtj = dt
        if dt == 'int64':
            if widths:
                dtj = rng.choice(['int8', 'int16', 'int64'])
            base = {'int8': 10, 'int16': 300, 'int64': 10 ** 10}[dtj] if widths else 100
            v = [f'i:{base * (i + 1) + j}' for i in range(n)]
        elif dt == 'float64':
            if widths:
                dtj = rng.choice(['float32', 'float64'])
            v = [f'f:{10 * (i + 1) + j + (0.5 if dtj == "float32" or not widths else 0.1)}' for i in range(n)]
        else:
            v = [tok(f'v{i}_{j}' + ('x' * rng.randint(0, 6) if widths else '')) for i in range(n)]
        cols.append({'dt': dtj, 'v': v})
    index = rng.choice([{'kind': 'auto', 'labels': [f'i:{i}' for i in range(n)]}, {'kind': 'flat', 'labels': [tok(f'r{i}') for i in range(n)]}])
    spec = {'index': index, 'columns': columns, 'cols': cols, 'layout': gen.rand_layout(rng, [c['dt'] for c in cols]), 'rows': n}
    return {'k': 'stack', 'spec': spec, 'fill': rng.choice(['nan', 'i:-1']), 'n': n * m}


def exhaustive_joins():
    """all pairs of <= 3-row frames over two key values, every join type, composite and not"""
    vecs = [list(v) for n in range(0, 4) for v in itertools.product(['s:"a"', 's:"b"'], repeat=n)]
    for lv in vecs:
        for rv in vecs:
            L = {'index': {'kind': 'flat', 'labels': [tok(f'l{i}') for i in range(len(lv))]}, 'columns': {'kind': 'flat', 'labels': [tok('Lk0'), tok('x')]},
                 'cols': [{'dt': 'str', 'v': lv}, {'dt': 'int64', 'v': [f'i:{10 * (i + 1)}' for i in range(len(lv))]}],
                 'layout': [[1, False], [1, False]], 'rows': len(lv)}
            R = {'index': {'kind': 'flat', 'labels': [tok(f'r{i}') for i in range(len(rv))]}, 'columns': {'kind': 'flat', 'labels': [tok('Rk0'), tok('y')]},
                 'cols': [{'dt': 'str', 'v': rv}, {'dt': 'int64', 'v': [f'i:{7 * (i + 1)}' for i in range(len(rv))]}],
                 'layout': [[1, False], [1, False]], 'rows': len(rv)}
            for jt in ('inner', 'left', 'right', 'outer'):
                for comp in (True, False):
                    yield {'k': 'join', 'L': L, 'R': R, 'jt': jt, 'composite': comp, 'left_columns': [tok('Lk0')], 'right_columns': [tok('Rk0')],
                           'left_depth': None, 'right_depth': None, 'fill': 'nan', 'lt': '{}', 'rt': '{}', 'n': len(lv) * len(rv), 'exh': True}


def nontrivial(c):
    return c.get('n', 1) > 0


# ------------------------------------------------------------------ model lines
def model_lines(c):
    # no blanket try/except: an encoding error must surface (check.py reports it), never silence the model
    if c['k'] == 'moves':
        return moves_lines(c)
    if c['k'] == 'join':
        return join_lines(c)
    if c['k'] == 'pivot':
        return pivot_lines(c)
    if c['k'] == 'stack':
        return stack_lines(c)
    return []


MODEL_OFF = False   # set by check.py when the driver cannot be built


def need_model(ctx, c, outs, fails, expected=True):
    """a case that should have a model answer but has none is a correspondence failure"""
    if outs:
        ctx.count('model_compared')
    elif expected and not MODEL_OFF:
        fails.append(Failure('corr', f'{c["k"]}: no model answer (model_lines produced nothing)', c))


def w_hframe(o):
    return ('(hf (' + ' '.join(w_list(l) for l in o['index']) + ') (' + ' '.join(w_list(l) for l in o['columns'])
            + ') (' + ' '.join(w_list(r) for r in o['rows']) + '))')


def last_mask(depth):
    return w_list(['0'] * (depth - 1) + ['1'])


def stack_lines(c):
    f = build(c['spec'])
    o = frame_obs(f)
    fill = ct(untok(c['fill']))
    lines = [f'rel.stack {w_hframe(o)} {last_mask(len(o["columns"][0]))} {fill}']
    try:
        s = f.pivot_stack(fill_value=untok(c['fill']))
        so = frame_obs(s)
        lines.append(f'rel.unstack {w_hframe(so)} {last_mask(len(so["index"][0]))} {fill}')
    except Exception:
        pass
    return lines


def model_hframe(out):
    st, body = parse_answer(out)
    if st == 'err':
        return ('err', body)
    _, index, cols, rows = body
    return ('ok', {'index': index, 'columns': cols, 'rows': rows})


def build(spec):
    return gen.build_frame(spec)


def sorted_frame(f, cols):
    """rows sorted by the given columns (stable), so that the label tuples are in tree-form"""
    return f.sort_values(cols) if f.shape[0] else f


def moves_input(c):
    f = build(c['spec'])
    if c.get('sorted') and c['op'] != 'set_index':
        try:
            f = sorted_frame(f, [untok(t) for t in c['cols']])
        except Exception:
            pass
    return f


AUTO_NAME = ct('__index0__')


def moves_lines(c):
    f = moves_input(c)
    o = frame_obs(f)
    w = w_frame_obs(o)
    if c['op'] == 'set_index':
        return [f'rel.set_index {w} {ct(untok(c["col"]))} {int(c["drop"])}']
    if c['op'] == 'set_index_hierarchy' and c.get('reorder'):
        return []      # the model has no reorder_for_hierarchy: reference only
    if c['op'] == 'set_index_hierarchy':
        return [f'rel.set_index_hierarchy {w} {w_list([ct(untok(t)) for t in c["cols"]])} {int(c["drop"])}']
    return [f'rel.shift_in {w} {w_list([ct(untok(t)) for t in c["cols"]])}']


def join_positions(f, cols, depths):
    labs = list(f.columns)
    return ([] if depths is None else list(depths)), ([] if cols is None else [labs.index(untok(t)) for t in cols])


def join_lines(c):
    L, R = build(c['L']), build(c['R'])
    ol, orr = frame_obs(L), frame_obs(R)
    ld, lc = join_positions(L, c['left_columns'], c['left_depth'])
    rd, rc = join_positions(R, c['right_columns'], c['right_depth'])
    lnew = [ct(c['lt'].format(x)) for x in L.columns]
    rnew = [ct(c['rt'].format(x)) for x in R.columns]
    fill = ct(untok(c['fill']))
    return [f'rel.join {c["jt"]} {int(c["composite"])} {w_table(ol)} {w_table(orr)} {w_list(map(str, ld))} {w_list(map(str, lc))} '
            f'{w_list(map(str, rd))} {w_list(map(str, rc))} {fill} {w_list(lnew)} {w_list(rnew)}']


def pivot_model_ok(c):
    """the model's functions work on integer cells; default func is nansum = sum on integers"""
    spec = c['spec']
    datas = [untok(t) for t in c['data_fields']] or [l for l in col_labels(spec) if tok(l) not in c['index_fields'] + c['columns_fields']]
    for lab, col in zip(col_labels(spec), spec['cols']):
        if lab in datas and col['dt'] != 'int64':
            fs = [c['func']] if isinstance(c['func'], str) else ([] if c['func'] is None else [f for _, f in c['func']])
            if c['func'] is None or any(f in ('sum', 'max') for f in fs):
                return False
    return True


def pivot_lines(c):
    if not pivot_model_ok(c):
        return []
    f = build(c['spec'])
    w = w_frame_obs(frame_obs(f))
    func = c['func']
    if func is None:
        fs = '((x sum))'
    elif isinstance(func, str):
        fs = f'((x {func}))'
    else:
        fs = '(' + ' '.join(f'({ct(untok(lab))} {fn})' for lab, fn in func) + ')'
    enc = lambda ts: w_list([ct(untok(t)) for t in ts])
    return [f'rel.pivot {w} {enc(c["index_fields"])} {enc(c["columns_fields"])} {enc(c["data_fields"])} {fs} {ct(untok(c["fill"]))}']


# ------------------------------------------------------------------ evaluation
def evaluate(ctx, c, outs):
    k = c['k']
    ctx.count(f'kind_{k}')
    pre = []
    need_model(ctx, c, outs, pre, expected=(k != 'pivot' or pivot_model_ok(c)) and not (k == 'moves' and c.get('reorder')))
    if k == 'moves':
        return pre + eval_moves(ctx, c, outs)
    if k == 'join':
        return pre + eval_join(ctx, c, outs)
    if k == 'pivot':
        return pre + eval_pivot(ctx, c, outs)
    if k == 'stack':
        return pre + eval_stack(ctx, c, outs)
    raise ValueError(k)


def run(fn):
    try:
        return ('ok', fn())
    except Exception as ex:
        return ('err', err_cat(ex), ex)


def no_dups(labels):
    seen = set()
    for l in labels:
        t = tuple(l)
        if t in seen:
            return False
        seen.add(t)
    return True


def tree_form(labels, depth):
    for p in range(1, depth):
        seen, last = set(), None
        for l in labels:
            key = tuple(l[:p])
            if key == last:
                continue
            if key in seen:
                return False
            seen.add(key)
            last = key
    return True


def ref_labels_check(labels, depth):
    if not no_dups(labels):
        return 'nonUnique'
    if depth > 1 and not tree_form(labels, depth):
        return 'indexInit'
    return None


def cmp_obs(exp, got, what, check_names=True):
    """compare two frame observations; returns description of the first difference or None"""
    if check_names and exp['names'] != got['names']:
        return f'{what}: index names {got["names"]} != expected {exp["names"]}'
    if exp['index'] != got['index']:
        return f'{what}: index labels {got["index"][:6]} != expected {exp["index"][:6]}'
    if exp['columns'] != got['columns']:
        return f'{what}: columns {got["columns"]} != expected {exp["columns"]}'
    if exp['rows'] != got['rows']:
        return f'{what}: cells {got["rows"][:4]} != expected {exp["rows"][:4]}'
    return None


def model_frame(out):
    st, body = parse_answer(out)
    if st == 'err':
        return ('err', body)
    _, names, index, cols, rows = body
    return ('ok', {'names': names, 'index': index, 'columns': [[x] for x in cols], 'rows': rows})


def eval_moves(ctx, c, outs):
    fails = []
    f = moves_input(c)
    o = frame_obs(f)
    o0 = o
    n, m = f.shape
    op = c['op']
    drop = c['drop']
    ctx.count(f'moves_{op}')
    if drop and op != 'shift' and m > 0 and ((op == 'set_index' and m == 1) or (op != 'set_index' and len(set(c['cols'])) == m)):
        ctx.count('moves_every_column_consumed')
    cols_flat = [x[0] for x in o['columns']]
    auto = [[ct(i)] for i in range(n)]
    if op == 'set_index':
        col = untok(c['col'])
        real = run(lambda: f.set_index(col, drop=drop))
        if ct(col) not in cols_flat:
            exp = ('err', 'lookup')
        else:
            j = cols_flat.index(ct(col))
            labels = [[r[j]] for r in o['rows']]
            e = ref_labels_check(labels, 1)
            if e:
                exp = ('err', e)
            else:
                keep = [i for i in range(m) if not (drop and i == j)]
                exp = ('ok', {'names': [ct(col)], 'index': labels, 'columns': [o['columns'][i] for i in keep],
                              'rows': [[r[i] for i in keep] for r in o['rows']]})
        sel = [j] if exp[0] == 'ok' else []
    elif op == 'set_index_hierarchy':
        cs = [untok(t) for t in c['cols']]
        reorder = bool(c.get('reorder'))
        real = run(lambda: f.set_index_hierarchy(cs, drop=drop, reorder_for_hierarchy=True) if reorder else f.set_index_hierarchy(cs, drop=drop))
        js = [cols_flat.index(ct(x)) for x in cs]
        if reorder:
            # reorder_for_hierarchy: whole rows are re-arranged so that the labels form a tree - lexicographically by the order in
            # which each depth's labels are first seen, ties keeping their order; every cell stays with its row
            ctx.count('moves_reorder_for_hierarchy')
            ranks = [dict() for _ in js]
            for r in o['rows']:
                for d, j in enumerate(js):
                    ranks[d].setdefault(r[j], len(ranks[d]))
            order = sorted(range(n), key=lambda i: tuple(ranks[d][o['rows'][i][j]] for d, j in enumerate(js)))
            if order != list(range(n)):
                ctx.count('moves_reorder_permutes_rows')
            o = dict(o, rows=[o['rows'][i] for i in order], index=[o['index'][i] for i in order])
        labels = [[r[j] for j in js] for r in o['rows']]
        if len(js) < 2:
            exp = ('err', 'indexInit')
        else:
            e = ref_labels_check(labels, len(js))
            if e:
                exp = ('err', e)
            else:
                keep = [i for i in range(m) if not (drop and i in js)]
                exp = ('ok', {'names': [ct(x) for x in cs], 'index': labels, 'columns': [o['columns'][i] for i in keep],
                              'rows': [[r[i] for i in keep] for r in o['rows']]})
        sel = js
    else:
        cs = [untok(t) for t in c['cols']]
        key = cs if len(cs) > 1 else cs[0]
        real = run(lambda: f.relabel_shift_in(key))
        js = [cols_flat.index(ct(x)) for x in cs]
        labels = [l + [r[j] for j in js] for l, r in zip(o['index'], o['rows'])]
        depth = len(o['names']) + len(js)
        e = ref_labels_check(labels, depth)
        if e:
            exp = ('err', e)
        else:
            keep = [i for i in range(m) if i not in js]
            exp = ('ok', {'names': o['names'] + [ct(x) for x in cs], 'index': labels, 'columns': [o['columns'][i] for i in keep],
                          'rows': [[r[i] for i in keep] for r in o['rows']]})
        sel = js
    # --- the frame the call was made on is what it was (labels of every depth, names, cells): moving columns into labels
    # builds NEW labels, it does not extend the ones the source holds
    o_after = frame_obs(f)
    if o_after != o0:
        fails.append(Failure('oracle', f'{op} on {c.get("col") or c.get("cols")}: the frame the call was made on changed: '
                                       f'index {o_after["index"][:3]} names {o_after["names"]} (was {o0["index"][:3]} names {o0["names"]})', c))
        return fails
    # --- first step vs reference and model
    if exp[0] == 'err':
        ctx.count(f'moves_expected_error_{exp[1]}')
        if real[0] != 'err':
            fails.append(Failure('oracle', f'{op} on {c.get("col") or c.get("cols")}: expected an error ({exp[1]}), got a frame', c))
        elif real[1] not in (exp[1], 'indexInit' if exp[1] == 'nonUnique' else exp[1]):
            fails.append(Failure('oracle', f'{op}: error category {real[1]} ({type(real[2]).__name__}) != expected {exp[1]}', c))
    elif real[0] == 'err':
        fails.append(Failure('oracle', f'{op} {c.get("col") or c.get("cols")} drop={drop}: raised {type(real[2]).__name__}: {real[2]}', c,
                             detail={'exc': type(real[2]).__name__}))
    else:
        got = frame_obs(real[1])
        d = cmp_obs(exp[1], got, f'{op} drop={drop}', check_names=True)
        if d:
            fails.append(Failure('oracle', d, c))
    if outs:
        mf = model_frame(outs[0])
        if mf[0] != exp[0] or (mf[0] == 'err' and mf[1] != exp[1]):
            fails.append(Failure('corr', f'{op}: model {str(mf)[:200]} vs reference {str(exp)[:200]}', c))
        elif mf[0] == 'ok':
            d = cmp_obs(exp[1], mf[1], f'{op} model')
            if d:
                fails.append(Failure('corr', d, c))
    if exp[0] != 'ok' or real[0] != 'ok':
        return fails
    # --- and back: every cell stays in its row, the moved columns come first
    g = real[1]
    ctx.count('moves_roundtrips')
    if op in ('set_index', 'set_index_hierarchy'):
        names = [untok(t) for t in c.get('names', [])]
        back = run(lambda: g.unset_index(names=tuple(names)) if names else g.unset_index())
        front_names = [ct(x) for x in names] if names else exp[1]['names']
        keep = [i for i in range(m) if not (drop and i in sel)]
        exp_back = {'names': [AUTO_NAME], 'index': auto, 'columns': [[x] for x in front_names] + [o['columns'][i] for i in keep],
                    'rows': [[r[j] for j in sel] + [r[i] for i in keep] for r in o['rows']]}
        dup_cols = not no_dups(exp_back['columns'])
    else:
        depth0 = len(o['names'])
        ds = list(range(depth0, depth0 + len(sel)))
        back = run(lambda: g.relabel_shift_out(ds if len(ds) > 1 else ds[0]))
        keep = [i for i in range(m) if i not in sel]
        exp_back = {'names': o['names'], 'index': o['index'], 'columns': [[ct(untok(t))] for t in c['cols']] + [o['columns'][i] for i in keep],
                    'rows': [[r[j] for j in sel] + [r[i] for i in keep] for r in o['rows']]}
        dup_cols = False
    if dup_cols:
        if back[0] != 'err':
            fails.append(Failure('oracle', f'{op} then back: duplicate column labels accepted', c))
        return fails
    if back[0] == 'err':
        fails.append(Failure('oracle', f'{op} drop={drop} then back: raised {type(back[2]).__name__}: {back[2]}', c,
                             detail={'exc': type(back[2]).__name__}))
        return fails
    gb = frame_obs(back[1])
    d = cmp_obs(exp_back, gb, f'{op} drop={drop} then back', check_names=(op == 'shift'))
    if d:
        fails.append(Failure('oracle', d, c))
    if op not in ('set_index', 'set_index_hierarchy') and len(sel) >= 2:
        # the depths named in another order: every moved column still carries the label of ITS depth
        dsr = ds[::-1]
        back2 = run(lambda: g.relabel_shift_out(dsr))
        ctx.count('moves_shift_out_reordered')
        if back2[0] == 'err':
            fails.append(Failure('oracle', f'{op} then relabel_shift_out({dsr}) raised {type(back2[2]).__name__}: {back2[2]}', c))
        else:
            exp2 = {'names': o['names'], 'index': o['index'],
                    'columns': [[ct(untok(t))] for t in c['cols']][::-1] + [o['columns'][i] for i in keep],
                    'rows': [[r[j] for j in sel][::-1] + [r[i] for i in keep] for r in o['rows']]}
            d2 = cmp_obs(exp2, frame_obs(back2[1]), f'{op} then relabel_shift_out({dsr})', check_names=(op == 'shift'))
            if d2:
                fails.append(Failure('oracle', d2, c))
    return fails


# ---- join
def key_eq(a, b):
    return a == b and 'na' not in a


def ref_join(ol, orr, lkey, rkey, jt, fill):
    """nested-loop join: list of (label, cells) with label ('p', l, r) | ('l', l) | ('r', r)"""
    L = list(zip(ol['index'], ol['rows']))
    R = list(zip(orr['index'], orr['rows']))
    wl, wr = len(ol['columns']), len(orr['columns'])
    out = []
    ml, mr = set(), set()
    for i, (ll, lc) in enumerate(L):
        for j, (rl, rc) in enumerate(R):
            if key_eq(lkey(ll, lc), rkey(rl, rc)):
                out.append((['p', ll, rl], lc + rc))
                ml.add(i)
                mr.add(j)
    if jt in ('left', 'outer'):
        out += [(['l', ll], lc + [fill] * wr) for i, (ll, lc) in enumerate(L) if i not in ml]
    if jt in ('right', 'outer'):
        out += [(['r', rl], [fill] * wl + rc) for j, (rl, rc) in enumerate(R) if j not in mr]
    return out, ml, mr


def noncomposite_mirror(ol, orr, lkey, rkey, jt, fill):
    """Python mirror of the non-composite construction of Frame._join (label alignment), for classification
    of finding F6 only: returns label -> cells, or None when a composite index is required"""
    L = list(zip(ol['index'], ol['rows']))
    R = list(zip(orr['index'], orr['rows']))
    wl, wr = len(ol['columns']), len(orr['columns'])
    m = {}
    seen = set()
    for i, (ll, lc) in enumerate(L):
        ms = [j for j, (rl, rc) in enumerate(R) if key_eq(lkey(ll, lc), rkey(rl, rc))]
        if not ms:
            continue
        if len(ms) > 1 or ms[0] in seen:
            return None
        seen.add(ms[0])
        m[i] = ms[0]
    lidx = {tuple(l): i for i, (l, _) in enumerate(L)}
    ridx = {tuple(l): i for i, (l, _) in enumerate(R)}
    if jt == 'inner':
        final = [L[i][0] for i in m]
    elif jt == 'left':
        final = [l for l, _ in L]
    elif jt == 'right':
        final = [l for l, _ in R]
    else:
        final = [l for l, _ in L] + [l for l, _ in R if tuple(l) not in lidx]
    out = {}
    for loc in final:
        t = tuple(loc)
        left = L[lidx[t]][1] if t in lidx else [fill] * wl
        if t in lidx and lidx[t] in m:
            right = R[m[lidx[t]]][1]
        elif t in ridx:
            right = R[ridx[t]][1]
        else:
            right = [fill] * wr
        out[t] = left + right
    return out


def obs_join_label(x):
    nm = type(x).__name__
    if nm == 'Pair':
        return ['p', label_parts(x[0]), label_parts(x[1])]
    if nm == 'PairLeft':
        return ['l', label_parts(x[0])]
    if nm == 'PairRight':
        return ['r', label_parts(x[1])]
    return label_parts(x)


def eval_join(ctx, c, outs):
    fails = []
    L, R = build(c['L']), build(c['R'])
    ol, orr = frame_obs(L), frame_obs(R)
    jt, comp = c['jt'], c['composite']
    ld, lc = join_positions(L, c['left_columns'], c['left_depth'])
    rd, rc = join_positions(R, c['right_columns'], c['right_depth'])
    lkey = lambda lab, cells: [lab[d] for d in ld] + [cells[j] for j in lc]
    rkey = lambda lab, cells: [lab[d] for d in rd] + [cells[j] for j in rc]
    fill_v = untok(c['fill'])
    fill = ct(fill_v)
    kw = dict(left_template=c['lt'], right_template=c['rt'], fill_value=fill_v, composite_index=comp)
    if c['left_columns'] is not None:
        kw['left_columns'] = [untok(t) for t in c['left_columns']] if len(c['left_columns']) > 1 else untok(c['left_columns'][0])
    if c['left_depth'] is not None:
        kw['left_depth_level'] = c['left_depth'] if len(c['left_depth']) > 1 else c['left_depth'][0]
    if c['right_columns'] is not None:
        kw['right_columns'] = [untok(t) for t in c['right_columns']] if len(c['right_columns']) > 1 else untok(c['right_columns'][0])
    if c['right_depth'] is not None:
        kw['right_depth_level'] = c['right_depth'] if len(c['right_depth']) > 1 else c['right_depth'][0]
    if not comp and jt == 'outer' and L.index.depth != R.index.depth:
        ctx.count('join_outer_plain_mixed_depth_skipped')   # the two label sets cannot be united: not claimed
        return fails
    real = run(lambda: getattr(L, 'join_' + jt)(R, **kw))
    exp_rows, ml, mr = ref_join(ol, orr, lkey, rkey, jt, fill)
    exp_cols = [[ct(c['lt'].format(x))] for x in L.columns] + [[ct(c['rt'].format(x))] for x in R.columns]
    dup_cols = not no_dups(exp_cols)
    # cardinality of the match
    per_left = {}
    per_right = {}
    for lab, _ in exp_rows:
        if lab[0] == 'p':
            per_left[tuple(lab[1])] = per_left.get(tuple(lab[1]), 0) + 1
            per_right[tuple(lab[2])] = per_right.get(tuple(lab[2]), 0) + 1
    many = any(v > 1 for v in per_left.values()) or any(v > 1 for v in per_right.values())
    ctx.count(f'join_{jt}_{"composite" if comp else "plain"}')
    ctx.count('join_card_' + ('none' if not per_left else ('many' if many else '1:1')))
    if c['left_depth'] is not None or c['right_depth'] is not None:
        ctx.count('join_key_from_label_depth')
    if len(lc) + len(ld) > 1:
        ctx.count('join_two_key_fields')
    model = parse_answer(outs[0]) if outs else None

    if dup_cols:
        ctx.count('join_duplicate_result_columns')
        if real[0] != 'err':
            fails.append(Failure('oracle', f'join_{jt}: templates produce duplicate column labels {exp_cols} but a frame was returned', c))
        if model is not None and model[0] != 'err' and not (not comp and many):
            fails.append(Failure('corr', f'join_{jt}: model accepted duplicate result columns', c))
        return fails
    if not comp and many:
        ctx.count('join_composite_required')
        if real[0] != 'err':
            fails.append(Failure('oracle', f'join_{jt}(composite_index=False) with a {("1:n" if many else "")} match should demand a composite index', c))
        if model is not None and model[0] != 'err':
            fails.append(Failure('corr', f'join_{jt} plain: model did not demand a composite index', c))
        return fails
    if real[0] == 'err':
        fails.append(Failure('oracle', f'join_{jt} composite={comp} raised {type(real[2]).__name__}: {real[2]}', c,
                             detail={'exc': type(real[2]).__name__, 'empty': len(exp_rows) == 0, 'zero_left_rows': L.shape[0] == 0, 'zero_right_rows': R.shape[0] == 0}))
        return fails
    res = real[1]
    got_cols = [label_parts(x) for x in res.columns]
    got_rows = frame_matrix(res)
    got_labels = [obs_join_label(x) for x in res.index]
    if got_cols != exp_cols:
        fails.append(Failure('oracle', f'join_{jt}: result columns {got_cols} != {exp_cols}', c))
        return fails
    if comp:
        exp_l = [lab for lab, _ in exp_rows]
        exp_c = [cells for _, cells in exp_rows]
        if got_labels != exp_l:
            fails.append(Failure('oracle', f'join_{jt}: result labels {got_labels[:8]} != expected (left-major pairs, unmatched left, unmatched right) {exp_l[:8]}', c))
        elif got_rows != exp_c:
            bad = [i for i, (a, b) in enumerate(zip(got_rows, exp_c)) if a != b][:3]
            fails.append(Failure('oracle', f'join_{jt}: rows {bad} carry {[got_rows[i] for i in bad]} but their source rows hold {[exp_c[i] for i in bad]}', c))
        if model is not None:
            if model[0] != 'ok':
                fails.append(Failure('corr', f'join_{jt}: model {model} but the real join succeeded', c))
            else:
                mcols, mrows = model[1][1], model[1][2:]
                ml_ = [r[0] for r in mrows]
                mc_ = [r[1:] for r in mrows]
                if [[x] for x in mcols] != got_cols or ml_ != got_labels or mc_ != got_rows:
                    fails.append(Failure('corr', f'join_{jt} composite: model labels {ml_[:6]} cells {mc_[:4]} vs real {got_labels[:6]} {got_rows[:4]}', c))
        return fails
    # ---- composite_index=False, 1:1: the same row pairs, labelled by the preserved side
    exp_multiset = sorted(cells for _, cells in exp_rows)
    mirror = noncomposite_mirror(ol, orr, lkey, rkey, jt, fill)
    got_map = {tuple(l): r for l, r in zip(got_labels, got_rows)}
    explained = mirror is not None and got_map == mirror
    hint = 'noncomposite-label-alignment' if (explained and jt != 'inner') else None
    what = None
    if sorted(got_rows) != exp_multiset:
        what = (f'join_{jt}(composite_index=False): rows {sorted(got_rows)[:5]} are not the matching pairs (+ unmatched {jt} rows) '
                f'{exp_multiset[:5]}')
    else:
        # the label of each row: left label for inner / left, right label for right
        for lab, cells in exp_rows:
            want = lab[1] if (lab[0] in ('p', 'l') and jt in ('inner', 'left', 'outer')) else (lab[2] if lab[0] == 'p' else lab[1])
            if jt == 'outer' and lab[0] == 'p':
                continue  # either side's label is acceptable for a matched pair of an outer join
            if got_map.get(tuple(want)) != cells:
                what = f'join_{jt}(composite_index=False): row labelled {want} holds {got_map.get(tuple(want))}, its source rows hold {cells}'
                break
    if what:
        fails.append(Failure('oracle', what, c, detail={'hint': hint}))
    if model is not None:
        if model[0] != 'ok':
            fails.append(Failure('corr', f'join_{jt} plain: model {model} but the real join succeeded', c))
        else:
            mrows = model[1][2:]
            mmap = {tuple(r[0]): r[1:] for r in mrows}
            if mmap != got_map or (jt != 'outer' and [r[0] for r in mrows] != got_labels):
                fails.append(Failure('corr', f'join_{jt} plain: model {list(mmap.items())[:4]} vs real {list(got_map.items())[:4]}', c))
    return fails


# ---- pivot
PY_FUNCS = {'first': lambda a: a[0], 'last': lambda a: a[-1], 'count': len, 'sum': np.sum, 'max': np.max}


def eval_pivot(ctx, c, outs):
    fails = []
    f = build(c['spec'])
    o = frame_obs(f)
    cols_flat = [x[0] for x in o['columns']]
    ifs = [untok(t) for t in c['index_fields']]
    cfs = [untok(t) for t in c['columns_fields']]
    dfs = [untok(t) for t in c['data_fields']] or [l for l in f.columns if l not in ifs + cfs]
    func = c['func']
    if func is None:
        fmap = [('', np.nansum, 'nansum')]
        kw_func = None
    elif isinstance(func, str):
        fmap = [('', PY_FUNCS[func], func)]
        kw_func = PY_FUNCS[func]
    else:
        fmap = [(untok(lab), PY_FUNCS[fn], fn) for lab, fn in func]
        kw_func = {untok(lab): PY_FUNCS[fn] for lab, fn in func}
    fill_v = untok(c['fill'])
    kw = dict(fill_value=fill_v)
    if kw_func is not None:
        kw['func'] = kw_func
    ctx.count(f'pivot_i{len(ifs)}_c{len(cfs)}_d{len(dfs)}_f{len(fmap)}')
    ctx.count('pivot_func_' + ('default' if func is None else (func if isinstance(func, str) else 'map')))
    real = run(lambda: f.pivot(ifs if len(ifs) > 1 else ifs[0], cfs if len(cfs) != 1 else cfs[0], tuple(c and untok(t) for t in c['data_fields']) if len(c['data_fields']) != 1 else untok(c['data_fields'][0]), **kw))
    # reference: dict-of-rows group / aggregate
    ij = [cols_flat.index(ct(x)) for x in ifs]
    cj = [cols_flat.index(ct(x)) for x in cfs]
    raw = [[f.iloc[i, j] for j in range(f.shape[1])] for i in range(f.shape[0])]
    groups = {}
    for r_tok, r_raw in zip(o['rows'], raw):
        ik = tuple(r_tok[j] for j in ij)
        ck = tuple(r_tok[j] for j in cj)
        groups.setdefault((ik, ck), []).append(r_raw)
    ikeys = list(dict.fromkeys(k[0] for k in groups))
    ckeys = list(dict.fromkeys(k[1] for k in groups))
    multi_data = len(dfs) > 1 or not cfs
    multi_func = len(fmap) > 1
    exp = {}
    singles = {}
    for ik in ikeys:
        for ck in ckeys:
            for d in dfs:
                dj = cols_flat.index(ct(d))
                for lab, fn, fname in fmap:
                    clab = tuple(ck) + ((ct(d),) if multi_data else ()) + ((ct(lab),) if multi_func else ())
                    src = groups.get((ik, ck))
                    if not src:
                        exp[(ik, clab)] = ct(fill_v)
                    else:
                        vals = np.array([r[dj] for r in src])
                        try:
                            exp[(ik, clab)] = ct(fn(vals))
                        except Exception:
                            exp[(ik, clab)] = 'ERR'
                        if len(src) == 1:
                            singles[(ik, clab)] = ct(src[0][dj])
    # known defect: several index fields of different dtypes whose first-seen order is not in tree-form
    mixed_index_fields = len(ifs) > 1 and f[ifs].values.dtype.kind == 'O'
    if real[0] == 'err':
        hint = None
        if mixed_index_fields and isinstance(real[2], Exception) and err_cat(real[2]) == 'indexInit' and not tree_form([list(k) for k in ikeys], len(ifs)):
            hint = 'pivot-index-fields-order'
        fails.append(Failure('oracle', f'pivot(index={ifs}, columns={cfs}, data={dfs}, func={func}) raised {type(real[2]).__name__}: {real[2]}', c,
                             detail={'hint': hint, 'exc': type(real[2]).__name__}))
        return fails
    res = real[1]
    got_index = [tuple(label_parts(x)) for x in res.index]
    got_cols = [tuple(label_parts(x)) for x in res.columns]
    got_rows = frame_matrix(res)
    if sorted(got_index) != sorted(ikeys) or len(set(got_index)) != len(got_index):
        fails.append(Failure('oracle', f'pivot: result rows {got_index} are not one per distinct index-field value {ikeys}', c))
        return fails
    exp_cols = sorted({k[1] for k in exp})
    if sorted(got_cols) != exp_cols or len(set(got_cols)) != len(got_cols):
        fails.append(Failure('oracle', f'pivot: result columns {got_cols} are not one per distinct columns value x data field x function {exp_cols}', c))
        return fails
    bad, bad_single = [], []
    for i, ik in enumerate(got_index):
        for j, ck in enumerate(got_cols):
            if got_rows[i][j] != exp[(ik, ck)]:
                if (ik, ck) in singles and got_rows[i][j] == singles[(ik, ck)]:
                    bad_single.append((ik, ck, got_rows[i][j], exp[(ik, ck)]))
                else:
                    bad.append((ik, ck, got_rows[i][j], exp[(ik, ck)]))
    if bad:
        fails.append(Failure('oracle', f'pivot(func={func}, fill={c["fill"]}): cells (index, column, got, expected) {bad[:4]}', c))
    if bad_single:
        ctx.count('pivot_singleton_shortcut_seen')
        fails.append(Failure('oracle', f'pivot(func={func}): one-row groups hold the raw value, not func of it: {bad_single[:3]}', c,
                             detail={'hint': 'pivot-singleton-func'}))
    if outs:
        m = parse_answer(outs[0])
        if m[0] != 'ok':
            fails.append(Failure('corr', f'pivot: model {m} but the real pivot succeeded', c))
        else:
            _, mi, mc, mr = m[1]
            mcols = [tuple(x[1] for x in lab) for lab in mc]
            mmap = {(tuple(ik), ck): mr[i][j] for i, ik in enumerate(mi) for j, ck in enumerate(mcols)}
            gmap = {(ik, ck): got_rows[i][j] for i, ik in enumerate(got_index) for j, ck in enumerate(got_cols)}
            if mmap != gmap:
                diff = [(k, mmap.get(k), gmap.get(k)) for k in sorted(set(mmap) | set(gmap), key=str) if mmap.get(k) != gmap.get(k)][:4]
                fails.append(Failure('corr', f'pivot: model vs real differ at (key, model, real) {diff}', c))
    return fails


# ---- stack / unstack
def eval_stack(ctx, c, outs):
    fails = []
    f = build(c['spec'])
    o = frame_obs(f)
    fill_v = untok(c['fill'])
    depth = len(o['columns'][0]) if o['columns'] else 1
    ctx.count(f'stack_depth{depth}')
    st = run(lambda: f.pivot_stack(fill_value=fill_v))
    if st[0] == 'err':
        fails.append(Failure('oracle', f'pivot_stack raised {type(st[2]).__name__}: {st[2]}', c, detail={'exc': type(st[2]).__name__}))
        return fails
    s = st[1]
    so = frame_obs(s)
    # reference of the stacked frame: rows (row label + target), columns = groups, cell or fill
    targets = list(dict.fromkeys(tuple(cl[-1:]) for cl in o['columns']))
    groupsl = list(dict.fromkeys(tuple(cl[:-1]) for cl in o['columns']))
    pos = {tuple(cl): j for j, cl in enumerate(o['columns'])}
    exp_index, exp_rows = [], []
    for il, r in zip(o['index'], o['rows']):
        for t in targets:
            exp_index.append(il + list(t))
            exp_rows.append([r[pos[g + t]] if (g + t) in pos else ct(fill_v) for g in groupsl])
    if so['index'] != exp_index or so['rows'] != exp_rows:
        fails.append(Failure('oracle', f'pivot_stack: index/cells {so["index"][:4]} {so["rows"][:4]} != expected {exp_index[:4]} {exp_rows[:4]}', c))
        return fails
    if outs:
        m = model_hframe(outs[0])
        if m[0] != 'ok' or m[1]['index'] != so['index'] or m[1]['rows'] != so['rows'] or m[1]['columns'] != so['columns']:
            fails.append(Failure('corr', f'pivot_stack: model {str(m)[:300]} vs real {so["index"][:4]} {so["columns"]} {so["rows"][:4]}', c))
    un = run(lambda: s.pivot_unstack(fill_value=fill_v))
    if un[0] == 'err':
        fails.append(Failure('oracle', f'pivot_unstack(pivot_stack(f)) raised {type(un[2]).__name__}: {un[2]}', c, detail={'exc': type(un[2]).__name__}))
        return fails
    u = un[1]
    uo = frame_obs(u)
    if outs and len(outs) > 1:
        m = model_hframe(outs[1])
        if m[0] != 'ok' or m[1]['index'] != uo['index'] or m[1]['rows'] != uo['rows'] or m[1]['columns'] != uo['columns']:
            fails.append(Failure('corr', f'pivot_unstack: model {str(m)[:300]} vs real {uo["index"][:4]} {uo["columns"]} {uo["rows"][:4]}', c))
    # every original cell is restored at (row, group + target); the rest is fill
    ucols = {tuple(cl): j for j, cl in enumerate(uo['columns'])}
    if uo['index'] != o['index']:
        fails.append(Failure('oracle', f'unstack(stack(f)): index {uo["index"]} != {o["index"]}', c))
        return fails
    ctx.count('stack_roundtrips')
    for i, r in enumerate(o['rows']):
        for cl, j in pos.items():
            key = cl if depth > 1 else tuple(uo['columns'][0][:-1]) + cl
            # depth 1: stacked frame has the automatic column 0, which becomes the outer level
            cands = [k for k in ucols if k[-len(cl):] == cl] if depth == 1 else [cl]
            if len(cands) != 1 or uo['rows'][i][ucols[cands[0]]] != r[j]:
                fails.append(Failure('oracle', f'unstack(stack(f)): cell ({o["index"][i]}, {cl}) = {r[j]} not restored (columns {uo["columns"]})', c))
                return fails
    extra = len(uo['columns']) - len(pos)
    if extra:
        ctx.count('stack_nonuniform_columns')
        for i in range(len(o['rows'])):
            for k, j in ucols.items():
                if depth > 1 and k not in pos and uo['rows'][i][j] != ct(fill_v):
                    fails.append(Failure('oracle', f'unstack(stack(f)): new cell {k} holds {uo["rows"][i][j]}, expected the fill value', c))
                    return fails
    return fails


def classify(f):
    d = f.detail if isinstance(f.detail, dict) else {}
    hint = d.get('hint')
    if hint == 'noncomposite-label-alignment':
        return 'F6-join-noncomposite-label-alignment'
    if hint == 'pivot-singleton-func':
        return 'C20-pivot-singleton-func'
    if hint == 'pivot-index-fields-order':
        return 'C20-pivot-index-fields-order'
    return None
