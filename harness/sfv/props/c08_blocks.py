"""C08 / C07 - `TypeBlocks._assign_from_iloc_by_blocks` and `container_util.get_block_match` next to their Lean
mirror (`TB.assignBlocks`, `TB.getBlockMatch`, lean/SFModel/BlocksAssignBlocks.lean; theorems Props/C08Blocks.lean).

Cases (`k = 'tb_assign_blocks'`): a target TypeBlocks (random dtypes / block layout), a row key, a column key and the
VALUE BLOCKS (their own dtypes and layout: 1-D arrays, 2-D arrays of width 1, wide 2-D arrays that must be split
between two targets).  Per case
  * the real `tb.extract_iloc_assign_by_blocks((row_key, column_key), values)` is compared with the model
    (`tbassignb.assign`): row count, block layout, per-column dtype, cells (unaddressed columns exactly, addressed
    columns up to NumPy's value conversion into the assigned dtype, which the model does not perform), or the
    error category;
  * for a fitting case (ascending column key, as many value columns as addressed columns, value rows = addressed
    rows) a Lean-independent oracle: the original columns with exactly the addressed cells replaced by the flattened
    value columns in order; unaddressed columns keep cells and dtype; the dtype of an addressed column is the value
    column's (null row key) or `resolve_dtype_iter` over the dtypes of the value blocks overlapping its TARGET (the
    maximal run of addressed columns inside one target block) and the target block's dtype, recomputed here from the
    block boundaries; the Lean specification (`tbassignb.spec`) is compared with the real result as well;
  * `get_block_match(width, stack)` itself is compared with `tbassignb.match` on the value blocks (`k = 'tb_block_match'`).
A case carries at most ONE fault (too few value blocks / wrong value row count / unordered, repeated or invalid key):
the lazy generators of the real code interleave with `from_blocks`, the order of two errors is not modelled.
"""
from __future__ import annotations

import itertools
import warnings

import numpy as np

from check import Failure
from sfv import gen
from sfv.canon import tok, err_cat, dtype_tok, array_toks
from sfv.props.c04 import ref_positions, cell_equal
from sfv.tbwire import Interner, tb_wire_from_blocks, answer_tb, real_tb_view, parse_sexp

KIND = 'tb_assign_blocks'
KIND_MATCH = 'tb_block_match'
VDTYPES = ['int64', 'float64', 'bool', 'str', 'object', 'int8', 'float32']


def same_value(got, want):
    if got == want:
        return True
    return cell_equal(got, want) and not ({got[:2], want[:2]} & {'b:'} and got[:2] != want[:2])


# ------------------------------------------------------------------ value blocks
def _vcell(dt, i, j):
    if dt in ('int64',):
        return f'i:{1000 + 10 * i + j}'
    if dt == 'int8':
        return f'i:{(10 * i + j) % 100 + 20}'
    if dt in ('float64', 'float32'):
        return tok(1000.5 + 10 * i + j)
    if dt == 'bool':
        return f'b:{(i + j) % 2}'
    if dt == 'str':
        return tok(f'v{i}_{j}')
    return [tok(f'o{i}_{j}'), f'i:{7000 + 10 * i + j}', 'N', tok(0.25 + i + j)][(i + j) % 4]


def value_spec(dts, layout, rows):
    """frame-like spec (cols / layout / rows) of the value blocks; cells are recognisable by (row, column)"""
    return {'cols': [{'dt': dt, 'v': [_vcell(dt, i, j) for i in range(rows)]} for j, dt in enumerate(dts)],
            'layout': [list(b) for b in layout], 'rows': rows}


def rand_value_spec(rng, width, rows, dtypes=VDTYPES, run_bias=0.6, wide_bias=0.7):
    dts = []
    for j in range(width):
        dts.append(dts[-1] if dts and rng.random() < run_bias else rng.choice(dtypes))
    layout = []
    i = 0
    while i < width:
        j = i + 1
        while j < width and dts[j] == dts[i] and rng.random() < wide_bias:
            j += 1
        w = j - i
        layout.append([w, True if w > 1 else rng.random() < 0.5])
        i = j
    return value_spec(dts, layout, rows)


def build_values(vspec):
    return gen.build_blocks(vspec) if vspec['cols'] else []


# ------------------------------------------------------------------ cases
def _case(spec, rk, ck, vspec, fault='none', r=0):
    return {'k': KIND, 'spec': spec, 'route': 'iloc', 'rk': rk, 'ck': ck, 'vspec': vspec, 'fault': fault, 'r': r}


def _fixed_spec(dts, layout, n):
    cols = []
    for j, dt in enumerate(dts):
        if dt == 'int64':
            v = [f'i:{10 * j + i}' for i in range(n)]
        elif dt == 'float64':
            v = [tok(10.0 * j + i + 0.5) for i in range(n)]
        elif dt == 'bool':
            v = [f'b:{(i + j) % 2}' for i in range(n)]
        elif dt == 'object':
            v = [tok(f'c{j}r{i}') if (i + j) % 2 else f'i:{10 * j + i}' for i in range(n)]
        else:
            v = [tok(f'c{j}r{i}') for i in range(n)]
        cols.append({'dt': dt, 'v': v})
    return {'index': {'kind': 'auto', 'labels': [f'i:{i}' for i in range(n)]},
            'columns': {'kind': 'auto', 'labels': [f'i:{j}' for j in range(len(dts))]}, 'cols': cols,
            'layout': [list(b) for b in layout], 'rows': n}


def _n_addr(rk, n):
    p = ref_positions(rk, n)
    return None if isinstance(p, tuple) else len(p)


def _value_rows(rk, n):
    """row count of the value blocks that fits the row key (the whole column for the null row key)"""
    if rk in (['all'], ['sl', None, None, None]):
        return n
    return _n_addr(rk, n)


def fixed_cases():
    """hand-picked shapes: the proved counterexamples of Props/C08Blocks (unordered key across blocks, a target at
    column 0 after a later target of the same block, a repeated column, a descending run, an integer row key on a
    1-D block: refused / array stored for object / accepted for bool), a wide value block split over three targets,
    the dtype of a target resolved over SEVERAL value blocks (the seeded mutation m12), an empty TypeBlocks"""
    s3 = _fixed_spec(['int64', 'int64', 'int64'], [[1, False], [1, False], [1, False]], 2)
    v2 = value_spec(['int64', 'int64'], [[1, False], [1, False]], 2)
    yield _case(s3, ['all'], ['list', 2, 0], v2, 'unordered')
    yield _case(s3, ['all'], ['list', 0, 2], v2)
    w3 = _fixed_spec(['int64', 'int64', 'int64'], [[3, True]], 2)
    yield _case(w3, ['all'], ['list', 2, 0], v2, 'unordered')
    yield _case(w3, ['all'], ['list', 1, 1], v2, 'unordered')
    yield _case(w3, ['list', 0], ['list', 1, 1], value_spec(['int64', 'int64'], [[1, False], [1, False]], 1), 'unordered')
    yield _case(w3, ['all'], ['sl', 2, 0, -1], v2, 'unordered')
    yield _case(w3, ['list', 1], ['sl', 2, 0, -1], value_spec(['int64', 'int64'], [[2, True]], 1), 'unordered')
    yield _case(w3, ['all'], ['sl', 2, None, -1], value_spec(['int64'] * 3, [[3, True]], 2), 'unordered')
    yield _case(w3, ['all'], ['list', 0, 2], v2)
    yield _case(w3, ['list', 1, 0], ['mask', 1, 0, 1], value_spec(['float64', 'float64'], [[2, True]], 2))
    # integer row key: 1-D target (int: refused; object: the array becomes the cell; bool: accepted), 2-D target
    for dt, vdt in (('int64', 'int64'), ('object', 'int64'), ('bool', 'bool'), ('int64', 'str'), ('float64', 'float64')):
        s1 = _fixed_spec([dt, 'float64', 'float64'], [[1, False], [2, True]], 3)
        yield _case(s1, ['int', 1], ['int', 0], value_spec([vdt], [[1, False]], 1), 'int_row')
        yield _case(s1, ['int', 1], ['sl', 0, 1, None], value_spec([vdt], [[1, True]], 1), 'int_row')
        s1b = _fixed_spec([dt, 'float64', 'float64'], [[1, True], [2, True]], 3)
        yield _case(s1b, ['int', 1], ['int', 0], value_spec([vdt], [[1, False]], 1))
        yield _case(s1b, ['int', -1], ['sl', 0, 2, None], value_spec([vdt, 'float64'], [[1, True], [1, False]], 1))
    # one wide value block feeding three targets; several value blocks feeding one target (m12)
    s6 = _fixed_spec(['int64', 'int64', 'float64', 'float64', 'float64', 'bool'], [[2, True], [3, True], [1, False]], 3)
    yield _case(s6, ['list', 0, 2], ['mask', 0, 1, 1, 0, 1, 1], value_spec(['int64'] * 4, [[4, True]], 2))
    yield _case(s6, ['all'], ['mask', 0, 1, 1, 0, 1, 1], value_spec(['int64'] * 4, [[4, True]], 3))
    yield _case(s6, ['list', 1], ['sl', 2, 5, None], value_spec(['int8', 'bool', 'float32'], [[1, False], [1, True], [1, False]], 1))
    yield _case(s6, ['mask', 1, 0, 1], ['sl', 2, 5, None], value_spec(['float64', 'float64', 'str'], [[2, True], [1, False]], 2))
    yield _case(s6, ['sl', None, None, -1], ['all'], value_spec(['int8', 'int8', 'int8', 'bool', 'bool', 'bool'], [[3, True], [3, True]], 3))
    yield _case(s6, ['sl', 0, None, None], ['all'], value_spec(['int64'] * 6, [[6, True]], 3))
    e = _fixed_spec([], [], 3)
    yield _case(e, ['all'], ['all'], value_spec([], [], 3))
    # single faults
    yield _case(s6, ['all'], ['sl', 0, 3, None], value_spec(['int64'], [[1, False]], 3), 'few')
    yield _case(s6, ['list', 0], ['sl', 0, 3, None], value_spec(['int64', 'int64'], [[2, True]], 1), 'few')
    yield _case(s6, ['all'], ['sl', 0, 2, None], value_spec(['int64'] * 4, [[1, False], [3, True]], 3), 'many')
    yield _case(s6, ['all'], ['sl', 0, 2, None], value_spec(['int64'] * 2, [[2, True]], 2), 'rows')
    yield _case(s6, ['all'], ['all'], value_spec(['int64'] * 6, [[6, True]], 2), 'rows')
    yield _case(s6, ['list', 0, 1], ['sl', 0, 2, None], value_spec(['int64'] * 2, [[2, True]], 3), 'rows')
    yield _case(s6, ['list', 0, 1], ['sl', 1, 3, None], value_spec(['int64'] * 2, [[1, False], [1, True]], 1), 'rows_bcast')
    yield _case(s6, ['list'], ['sl', 1, 3, None], value_spec(['int64'] * 2, [[1, False], [1, True]], 0))
    yield _case(s6, ['list'], ['sl', 1, 3, None], value_spec(['int64'] * 2, [[1, False], [1, True]], 1), 'rows_bcast')


def _rand_ck(rng, m, kind):
    if kind == 'mask':
        return ['mask'] + [1 if rng.random() < 0.5 else 0 for _ in range(m)]
    if kind == 'list':
        ps = sorted(rng.sample(range(m), rng.randint(0, m)))
        return ['list'] + [p if rng.random() < 0.8 else p - m for p in ps]
    if kind == 'sl':
        a, b = sorted((rng.randint(0, m), rng.randint(0, m)))
        return ['sl', a if rng.random() < 0.8 else None, b if rng.random() < 0.8 else None, rng.choice([None, None, 1, 2, 3])]
    if kind == 'int':
        return ['int', rng.randint(-m, m - 1)]
    return ['all'] if rng.random() < 0.5 else ['sl', None, None, None]


def _rand_rk(rng, n, rkind):
    if rkind == 'all':
        return ['all']
    if rkind == 'null':
        return ['sl', None, None, None]
    if rkind == 'int' and n > 0:
        return ['int', rng.randint(-n, n - 1)]
    if rkind == 'sl':
        return gen.rand_slice(rng, n)
    if rkind == 'mask':
        return ['mask'] + [rng.randint(0, 1) for _ in range(n)]
    if rkind == 'dup' and n > 0:
        return ['list'] + [rng.randint(-n, n - 1) for _ in range(rng.randint(2, 5))]
    if rkind == 'empty' or n == 0:
        return ['list']
    return ['list'] + rng.sample(range(n), rng.randint(1, n))


def stream(ctx, rng, count):
    """targets with long same-dtype runs (wide 2-D blocks) x ascending column keys of every kind x row keys of every
    kind x value blocks with their own runs (wide 2-D value blocks that straddle targets); one case in five carries
    one fault"""
    for i in range(count):
        spec = gen.rand_frame_spec(rng, 4, 7, dtypes=rng.choice([['int64', 'float64'], ['int64', 'float64', 'bool', 'str'], gen.DTYPES_BASIC,
                                                                   ['int64', 'int8', 'float64', 'float32', 'bool']]),
                                   index_kinds=('auto',), column_kinds=('auto',), min_cols=1, min_rows=0 if rng.random() < 0.08 else 1,
                                   run_bias=0.8, na=0.1)
        n, m = spec['rows'], len(spec['cols'])
        ck = _rand_ck(rng, m, rng.choice(['mask', 'mask', 'list', 'sl', 'sl', 'int', 'all', 'list']))
        rk = _rand_rk(rng, n, rng.choice(['all', 'all', 'null', 'int', 'sl', 'list', 'list', 'mask', 'dup', 'empty']))
        cpos = ref_positions(ck, m)
        vr = _value_rows(rk, n)
        if isinstance(cpos, tuple) or vr is None:
            continue
        width = len(cpos)
        if rk[0] == 'int':
            # at most one addressed 1-D block (the single fault of this case); the others become 2-D of width 1
            j0, seen1d = 0, False
            for blk in spec['layout']:
                if not blk[1] and j0 in cpos:
                    if seen1d:
                        blk[1] = True
                    seen1d = True
                j0 += blk[0]
        fault = 'none'
        # an integer row key on a 1-D block is a fault of its own (refused / array stored as a cell): no second one
        r = rng.random() if rk[0] != 'int' else 1.0
        if r < 0.04 and width >= 1:
            fault, width = 'few', rng.randint(0, width - 1)
        elif r < 0.07:
            fault, width = 'many', width + rng.randint(1, 2)
        elif r < 0.11 and width >= 1:
            fault, vr = 'rows', vr + rng.choice([1, 2]) if vr < 2 or rng.random() < 0.5 else vr - 1
        elif r < 0.13 and width >= 1 and vr != 1 and rk not in (['all'], ['sl', None, None, None]):
            fault, vr = 'rows_bcast', 1
        elif r < 0.17 and len(cpos) >= 2:
            ps = list(cpos)
            if rng.random() < 0.3:
                ps[rng.randrange(len(ps))] = rng.choice(ps)
            else:
                rng.shuffle(ps)
            if ps != cpos:
                fault, ck = 'unordered', ['list'] + ps
        elif r < 0.19 and rk[0] != 'int':
            fault, ck = 'key', rng.choice([['int', m], ['list', 0, m + 1], ['mask'] + [1] * (m + 1), ['list', -m - 1]])
        dts = rng.choice([['int64', 'float64'], VDTYPES, ['int64', 'int8', 'float32', 'bool'], ['float64'], ['bool', 'int64', 'str']])
        vspec = rand_value_spec(rng, width, vr, dtypes=dts, run_bias=rng.choice([0.3, 0.6, 0.9]))
        yield _case(spec, rk, ck, vspec, fault, rng.randint(0, 10 ** 6))


def exhaustive(ctx):
    """thorough tier: 2 rows; every dtype pattern over {int64, float64} and every layout of <= 3 target columns (three
    patterns of 4), every column subset as a mask + integer / slice / null keys, EVERY layout of the value blocks for
    value dtype patterns over {int64, float64}; 7 row keys and two value patterns up to 2 columns, 5 row keys for 3
    columns, 3 row keys and one value pattern for 4 columns (about 95 000 cases)"""
    n = 2
    rks = [['all'], ['list', 1, 0], ['mask', 0, 1], ['int', 1], ['list', 1, 1, 0], ['list', 0], ['sl', None, None, None]]
    for m in (1, 2, 3, 4):
        pats = list(itertools.product(['int64', 'float64'], repeat=m)) if m <= 3 else [
            ('int64',) * 4, ('int64', 'int64', 'float64', 'float64'), ('float64', 'int64', 'int64', 'int64')]
        for dts in pats:
            for layout in gen.layouts_for(list(dts)):
                spec = _fixed_spec(list(dts), layout, n)
                cks = [['mask'] + list(bits) for bits in itertools.product([0, 1], repeat=m)]
                cks += [['int', j] for j in range(m)] + [['all'], ['sl', 1, None, None], ['sl', None, None, 2]]
                for ck in cks:
                    w = len(ref_positions(ck, m))
                    vpats = [tuple(['float64', 'int64', 'int64', 'float64'][:w]), ('int64',) * w] if w else [()]
                    if m == 4:
                        vpats = vpats[:1]
                    for vd in dict.fromkeys(vpats):
                        for vl in gen.layouts_for(list(vd)) if w else [[]]:
                            for rk in rks[:7 if m <= 2 else 5 if m == 3 else 3]:
                                yield _case(spec, rk, ck, value_spec(list(vd), vl, _value_rows(rk, n)))


def match_cases(ctx, rng, count):
    """`get_block_match(width, stack)` alone: every width from -1 to total + 1 on random stacks"""
    for i in range(count):
        total = rng.randint(0, 6)
        vspec = rand_value_spec(rng, total, rng.randint(0, 3), dtypes=['int64', 'float64', 'bool'], run_bias=0.8, wide_bias=0.8)
        yield {'k': KIND_MATCH, 'spec': vspec, 'vspec': vspec, 'width': rng.randint(-1, total + 1), 'rk': ['x'], 'ck': ['x']}


def cases(ctx):
    quick = ctx.tier == 'quick'
    yield from fixed_cases()
    yield from stream(ctx, ctx.rng('tbassignb'), 2500 if quick else 20000)
    yield from match_cases(ctx, ctx.rng('tbassignb_match'), 300 if quick else 3000)
    if not quick:
        yield from exhaustive(ctx)


# ------------------------------------------------------------------ model lines
def _tb_blocks(spec):
    import static_frame as sf
    if not spec['cols']:
        return sf.TypeBlocks.from_zero_size_shape((spec['rows'], 0))
    return sf.TypeBlocks.from_blocks(gen.build_blocks(spec))


def _blocks_wire(blocks, it):
    parts = []
    for b in blocks:
        dt = dtype_tok(b.dtype)
        if b.ndim == 1:
            parts.append(f'(d1 {dt} ' + ' '.join(it.atom(t) for t in array_toks(b)) + ')')
        else:
            cols = ['(' + ' '.join(it.atom(t) for t in array_toks(b[:, j])) + ')' for j in range(b.shape[1])]
            parts.append(f'(d2 {dt} ' + ' '.join(cols) + ')')
    return '(' + ' '.join(parts) + ')'


def _resolve_table(dtypes):
    """closure of the real `resolve_dtype` over the dtypes present"""
    from static_frame.core.util import resolve_dtype
    seen = {dtype_tok(d): d for d in dtypes}
    table = {}
    changed = True
    while changed:
        changed = False
        for a in list(seen):
            for b in list(seen):
                if (a, b) not in table:
                    r = resolve_dtype(seen[a], seen[b])
                    table[(a, b)] = dtype_tok(r)
                    if dtype_tok(r) not in seen:
                        seen[dtype_tok(r)] = r
                    changed = True
    return ' '.join(f'({a} {b} {r})' for (a, b), r in sorted(table.items()))


def _plan(c):
    it = Interner()
    if c['k'] == KIND_MATCH:
        vals = build_values(c['vspec'])
        return {'it': it, 'lines': [f'tbassignb.match {c["width"]} {_blocks_wire(vals, it)}']}
    spec = c['spec']
    tb = _tb_blocks(spec)
    vals = build_values(c['vspec'])
    w = tb_wire_from_blocks(tb._blocks, spec['rows'], it)
    tab = _resolve_table([b.dtype for b in tb._blocks] + [v.dtype for v in vals])
    args = f'{w} {gen.key_to_wire(c["rk"])} {gen.key_to_wire(c["ck"])} {_blocks_wire(vals, it)} ({tab})'
    return {'it': it, 'lines': [f'tbassignb.assign {args}', f'tbassignb.spec {args}']}


def model_lines(c):
    return _plan(c)['lines']


# ------------------------------------------------------------------ evaluation
def _has_array_cell(tb):
    for b in tb._blocks:
        if b.dtype == object:
            for x in b.flat:
                if isinstance(x, np.ndarray):
                    return True
    return False


def _oracle_dtypes(tb, vals, cpos, null_row):
    """expected dtype token per addressed column, recomputed from the block boundaries (Lean-independent)"""
    from static_frame.core.util import resolve_dtype, DTYPE_OBJECT
    tblock = []     # column position -> (block number, dtype)
    for bi, b in enumerate(tb._blocks):
        tblock += [(bi, b.dtype)] * (1 if b.ndim == 1 else b.shape[1])
    vblock = []     # value column -> (value block number, dtype)
    for vi, v in enumerate(vals):
        vblock += [(vi, v.dtype)] * (1 if v.ndim == 1 else v.shape[1])
    out = {}
    if null_row:
        for mth, j in enumerate(cpos):
            out[j] = dtype_tok(vblock[mth][1])
        return out
    mth = 0
    while mth < len(cpos):
        e = mth + 1
        while e < len(cpos) and cpos[e] == cpos[e - 1] + 1 and tblock[cpos[e]][0] == tblock[cpos[mth]][0]:
            e += 1
        dts, last = [], None
        for vi, d in vblock[mth:e]:      # one dtype per value block that overlaps the target
            if vi != last:
                dts.append(d)
                last = vi
        dts.append(tblock[cpos[mth]][1])
        r = dts[0]
        for d in dts[1:]:
            r = resolve_dtype(r, d)
            if r == DTYPE_OBJECT:
                break
        for q in range(mth, e):
            out[cpos[q]] = dtype_tok(r)
        mth = e
    return out


def eval_match(ctx, c, outs):
    from static_frame.core.container_util import get_block_match
    plan = _plan(c)
    it = plan['it']
    vals = build_values(c['vspec'])
    stack = list(vals)
    stack.reverse()
    ctx.count('blockmatch_cases')
    try:
        ys = list(get_block_match(c['width'], stack))
        real = ([(y.ndim, dtype_tok(y.dtype), [array_toks(y)] if y.ndim == 1 else [array_toks(y[:, j]) for j in range(y.shape[1])]) for y in ys],
                [(y.ndim, dtype_tok(y.dtype), [array_toks(y)] if y.ndim == 1 else [array_toks(y[:, j]) for j in range(y.shape[1])]) for y in reversed(stack)])
    except Exception as ex:
        real = ('err', err_cat(ex))
    out = outs[0]
    if out.startswith('err '):
        mod = ('err', out[4:].strip())
    else:
        e = parse_sexp(out[3:])

        def blk(b):
            if b[0] == 'd1':
                return (1, b[1], [[it.token(a) for a in b[2:]]])
            return (2, b[1], [[it.token(a) for a in col] for col in b[2:]])
        mod = ([blk(b) for b in e[0]], [blk(b) for b in e[1]])
    if isinstance(real, tuple) and real and real[0] == 'err':
        ctx.count('blockmatch_error')
    elif c['width'] == 1:
        ctx.count('blockmatch_width1' + ('_pushback' if vals and vals[0].ndim == 2 and vals[0].shape[1] > 1 else ''))
    elif real[0] and real[0][-1][0] == 2 and len(real[1]) + len(real[0]) > len(vals):
        ctx.count('blockmatch_loop_split')
    else:
        ctx.count('blockmatch_loop_whole')
    if mod != real:
        return [Failure('corr', f'get_block_match width={c["width"]}: model {str(mod)[:200]} vs real {str(real)[:200]}', c)]
    ctx.count('blockmatch_agree')
    return []


def evaluate(ctx, c, outs):
    import static_frame as sf
    if c['k'] == KIND_MATCH:
        return eval_match(ctx, c, outs)
    fails = []
    spec = c['spec']
    n, m = spec['rows'], len(spec['cols'])
    plan = _plan(c)
    it = plan['it']
    tb = _tb_blocks(spec)
    vals = build_values(c['vspec'])
    before = real_tb_view(tb)
    vbefore = [(str(v.dtype), v.shape, array_toks(v.reshape(-1))) for v in vals]
    prk, pck = gen.key_to_py(c['rk']), gen.key_to_py(c['ck'])
    if c['rk'] == ['all']:
        prk = None
    rpos, cpos = ref_positions(c['rk'], n), ref_positions(c['ck'], m)
    null_row = c['rk'] in (['all'], ['sl', None, None, None])
    ctx.count('tbassignb_cases')
    ctx.count(f'tbassignb_fault_{c["fault"]}')
    ctx.count(f'tbassignb_rk_{c["rk"][0]}' + ('_null' if null_row else ''))
    ctx.count(f'tbassignb_ck_{c["ck"][0]}')
    if any(v.ndim == 2 and v.shape[1] > 1 for v in vals):
        ctx.count('tbassignb_wide_value_block')
    with warnings.catch_warnings():
        warnings.simplefilter('ignore')
        try:
            res = tb.extract_iloc_assign_by_blocks((prk, pck), vals)
            array_cell = _has_array_cell(res)
            real = None if array_cell else real_tb_view(res)
        except Exception as ex:
            array_cell = False
            real = ('err', err_cat(ex), f'{type(ex).__name__}: {str(ex)[:100]}')
    if real_tb_view(tb) != before:
        fails.append(Failure('oracle', 'TypeBlocks._assign_from_iloc_by_blocks: the original TypeBlocks changed', c))
    if vbefore != [(str(v.dtype), v.shape, array_toks(v.reshape(-1))) for v in vals]:
        fails.append(Failure('oracle', 'TypeBlocks._assign_from_iloc_by_blocks: a value block changed', c))
    what = (f'TypeBlocks.extract_iloc_assign_by_blocks rk={c["rk"]} ck={c["ck"]} layout={spec["layout"]} '
            f'values={[(x["dt"]) for x in c["vspec"]["cols"]]}/{c["vspec"]["layout"]}x{c["vspec"]["rows"]} fault={c["fault"]}')
    out = outs[0]
    mod = answer_tb(out, it)
    # ---------------- correspondence with the mirrored generator
    if array_cell:
        # NumPy stored the 1-D value ARRAY as a cell of an object column (integer row key, 1-D target block):
        # the model reports `other` for exactly this
        ctx.count('tbassignb_array_cell')
        if mod != ('err', 'other'):
            fails.append(Failure('corr', f'{what}: the real result holds an array as a cell, model {out[:120]}', c))
        return fails
    if isinstance(real, tuple) or isinstance(mod, tuple):
        ctx.count('tbassignb_error_cases')
        if not (isinstance(real, tuple) and isinstance(mod, tuple) and real[1] == mod[1]):
            fails.append(Failure('corr', f'{what}: model {out[:120]} vs real {str(real)[:160]}', c))
        else:
            ctx.count(f'tbassignb_error_{real[1]}')
    else:
        ascending = not isinstance(cpos, tuple) and all(a < b for a, b in zip(cpos, cpos[1:]))
        diff = None
        if mod['rows'] != real['rows']:
            diff = f'rows {mod["rows"]} vs {real["rows"]}'
        elif mod['layout'] != real['layout']:
            diff = f'layout {mod["layout"]} vs {real["layout"]}'
        elif mod['dtypes'] != real['dtypes']:
            diff = f'dtypes {mod["dtypes"]} vs {real["dtypes"]}'
        else:
            addressed = set(cpos) if ascending and len(real['cols']) == m else set(range(len(real['cols'])))
            for j, (cm, cr) in enumerate(zip(mod['cols'], real['cols'])):
                ok = (len(cm) == len(cr) and all(same_value(g, w) for g, w in zip(cr, cm))) if j in addressed else cm == cr
                if not ok:
                    diff = f'column {j}: model {cm} vs real {cr}'
                    break
        if diff:
            fails.append(Failure('corr', f'{what}: {diff}', c))
        else:
            ctx.count('tbassignb_corr_agree')
    # ---------------- the property on the real code, for the inputs the theorem covers
    fitting = (c['fault'] == 'none' and not isinstance(cpos, tuple) and not isinstance(rpos, tuple)
               and all(a < b for a, b in zip(cpos, cpos[1:])) and m > 0)
    if fitting and c['rk'][0] == 'int':
        # an integer row key is refused on a 1-D target block (theorem hypothesis `IntRowOk`)
        j0, ok = 0, True
        for wdt, is2d in before['layout']:
            if not is2d and j0 in cpos:
                ok = False
            j0 += wdt
        if not ok:
            ctx.count('tbassignb_int_row_on_1d_block')
            fitting = False
    if fitting:
        ctx.count('tbassignb_fitting')
        if isinstance(real, tuple):
            fails.append(Failure('oracle', f'{what}: raised {real[2]}', c, detail={'exc': real[2]}))
            return fails
        vcols = []
        for v in vals:
            vcols += [array_toks(v)] if v.ndim == 1 else [array_toks(v[:, j]) for j in range(v.shape[1])]
        exp = [list(col) for col in before['cols']]
        rows_w = list(range(n)) if null_row else rpos
        for mth, j in enumerate(cpos):
            for ri, i in enumerate(rows_w):
                exp[j][i] = vcols[mth][ri]
        exp_dt = _oracle_dtypes(tb, vals, cpos, null_row)
        msg = None
        if real['rows'] != before['rows'] or len(real['cols']) != len(before['cols']):
            msg = f'shape ({real["rows"]}, {len(real["cols"])}) != ({before["rows"]}, {len(before["cols"])})'
        else:
            for j in range(len(exp)):
                got, want = real['cols'][j], exp[j]
                if j in exp_dt:
                    if not (len(got) == len(want) and all(same_value(g, w) for g, w in zip(got, want))):
                        msg = f'addressed column {j}: {got} != {want}'
                        break
                    if real['dtypes'][j] != exp_dt[j]:
                        msg = f'addressed column {j}: dtype {real["dtypes"][j]} != {exp_dt[j]} (resolved per target over its value blocks and the target block)'
                        break
                elif got != want or real['dtypes'][j] != before['dtypes'][j]:
                    msg = f'unaddressed column {j} changed: {got}/{real["dtypes"][j]} != {want}/{before["dtypes"][j]}'
                    break
        if msg:
            fails.append(Failure('oracle', f'{what}: {msg}', c, detail={'what': msg}))
        else:
            ctx.count('tbassignb_oracle_agree')
        # the Lean specification against the real result
        sp = outs[1]
        if not sp.startswith('ok '):
            fails.append(Failure('corr', f'{what}: specification answered {sp[:100]}', c))
        else:
            e = parse_sexp(sp[3:])
            sdt = [col[0] for col in e]
            scols = [[it.token(a) for a in col[1:]] for col in e]
            if sdt != real['dtypes'] or len(scols) != len(real['cols']) or not all(
                    len(a) == len(b) and all(same_value(g, w) for g, w in zip(b, a)) for a, b in zip(scols, real['cols'])):
                fails.append(Failure('corr', f'{what}: specification {sdt} {scols} vs real {real["dtypes"]} {real["cols"]}', c))
            else:
                ctx.count('tbassignb_spec_agree')
        # branch counters
        j0 = 0
        for wdt, is2d in before['layout']:
            inside = [j for j in cpos if j0 <= j < j0 + wdt]
            if wdt > 1 and 0 < len(inside) < wdt:
                ctx.count('tbassignb_block_split')
                if inside[0] != j0:
                    ctx.count('tbassignb_gap_before_target')
                if any(b - a > 1 for a, b in zip(inside, inside[1:])):
                    ctx.count('tbassignb_two_targets_in_block')
            j0 += wdt
        if len(set(exp_dt.values())) > 1 and not null_row:
            ctx.count('tbassignb_mixed_target_dtypes')
    return fails
