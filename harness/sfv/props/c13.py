"""C13 - grouping partitions the container; windows cover it as specified."""
from __future__ import annotations

import itertools

import numpy as np

from check import Failure
from sfv import gen
from sfv.canon import tok, untok, err_cat, hash_class
from sfv.ordutil import mtok, mtok_orderable, pyval, parse_answer, wire_list, label_toks, frame_cols
from sfv.props import c13_window_gen as wgen        # the window skeleton translated from the source (py2lean_window)

TARGETS = ['SFModel.Props.C13'] + wgen.TARGETS
THEOREMS = [
    'SF.C13.spec_partition', 'SF.C13.groups_partition_generic', 'SF.C13.groups_partition_sort',
    'SF.C13.group_paths_agree', 'SF.C13.selector_irrelevant', 'SF.C13.groups_ascending', 'SF.C13.apply_labels',
    'SF.C13.window_fuel', 'SF.C13.window_exact', 'SF.C13.window_rejects', 'SF.C13.window_in_range',
] + wgen.THEOREMS
PARTIAL = []
CORR_ONLY = [
    'np.unique (sorted distinct keys + inverse) is a parameter of the model, compared through util.array_to_groups_and_locations on every run',
    'label-depth grouping (iter_group_labels*) and multi-column keys: the model groups the key tuples; which tuple a row has is read by the harness',
    'the string fallback of array_to_groups_and_locations for non-comparable object keys is not modelled (oracle only; see finding F52; its axis-1 and flattened-inverse repairs 2295c49 / 60e8b9c are under the strict oracle)',
    'window contents (which labels / values a window holds) are read from the real sub-containers and compared with the positions the model yields',
] + wgen.CORR_ONLY
RULE = ('seeded Series / Frames (all block layouts, flat and hierarchical labels) with 1..n distinct key values (single group, all distinct), '
        'int / float / str / bool / date / object / mixed-type keys, single and multiple key columns, both axes, label-depth grouping, '
        'iter_group / iter_group_items / iter_group_labels(_items) / apply, both internal paths called directly; windows over every '
        'combination of size, step (incl. 0), window_sized, label_shift, start_shift, size_increment, window_valid on Series and Frames '
        '(both axes, container / array / apply routes); thorough adds all key vectors of length <= 6 over 3 values and all window '
        'parameter tuples with size <= 4, step <= 3, shifts in [-2,2], increments in [-1,1], n <= 6. non-trivial = >= 2 rows (groups) / n >= 1 (windows)')
TRUSTED = ['np.unique / np.argsort kernels (parameter)', "the driver's comparison leAtom on value tokens (see C12)"] + wgen.TRUSTED
ASSUMPTIONS = ['group keys are not NaN / NaT (equality-based grouping is undefined for them; the fast path makes every NaN its own group, np.unique merges them)',
               'keys of one non-object key column are mutually comparable']
BUDGET = {'quick': 60, 'thorough': 700}

INT_POOL = [-2, -1, 0, 1, 2, 3, 10, 9]
FLOAT_POOL = [-1.5, 0.0, 0.25, 2.0, 1.0]
STR_POOL = ['a', 'b', 'ab', '', 'a b', 'Z', 'a1', '1']   # 'a1' + 0 and 'a' + 10 run into each other when parts are concatenated
MIXED_POOL = ['i:1', 'i:2', 's:"a"', 's:"b"', 'f:2.5', 'b:1', 'N', 'i:10', 'i:9']
CONFLICT_POOL = ['i:1', 's:"1"', 'f:1.0', 'b:1', 's:"a"', 'i:2']
TUPLE_POOL = ['t:(i:1 i:2)', 't:(i:3 i:4)', 's:"a"', 'i:5', 't:(i:1)']
DT_OF = {'int': 'int64', 'float': 'float64', 'str': 'str', 'bool': 'bool', 'date': 'datetime64[D]',
         'objint': 'object', 'mixed': 'object', 'conflict': 'object', 'tuple': 'object', 'cstr': 'str', 'cint': 'int64'}


def rand_keys(rng, n, kind, distinct=None):
    distinct = distinct or rng.choice([1, 2, 2, 3, 3, 4, n or 1])
    if kind == 'int' or kind == 'objint':
        pool = [tok(v) for v in rng.sample(INT_POOL, min(distinct, len(INT_POOL)))]
    elif kind == 'float':
        pool = [tok(v) for v in rng.sample(FLOAT_POOL, min(distinct, len(FLOAT_POOL)))]
    elif kind == 'str':
        pool = [tok(v) for v in rng.sample(STR_POOL, min(distinct, len(STR_POOL)))]
    elif kind == 'cstr':
        pool = [tok(v) for v in ['x1', 'x11', 'a', 'a1']]       # with the 'cint' pool: ('x1', 10) and ('x11', 0) concatenate alike
    elif kind == 'cint':
        pool = [tok(v) for v in [0, 10, 1, 11]]
    elif kind == 'bool':
        pool = ['b:0', 'b:1'][:max(1, min(distinct, 2))]
    elif kind == 'date':
        pool = [tok(np.datetime64('2020-01-01', 'D') + np.timedelta64(d, 'D')) for d in rng.sample(range(-5, 6), min(distinct, 6))]
    elif kind == 'mixed':
        pool = rng.sample(MIXED_POOL, min(max(distinct, 2), len(MIXED_POOL)))
    elif kind == 'conflict':
        pool = rng.sample(CONFLICT_POOL, min(max(distinct, 2), len(CONFLICT_POOL)))
    elif kind == 'tuple':
        pool = rng.sample(TUPLE_POOL, min(max(distinct, 2), len(TUPLE_POOL)))
    else:
        raise ValueError(kind)
    return [rng.choice(pool) for _ in range(n)]


def flat_index(rng, n, kind=None):
    kind = kind or rng.choice(['int', 'str', 'auto', 'date'])
    if kind == 'year':
        return {'kind': 'year', 'labels': [tok(np.datetime64(str(y), 'Y')) for y in rng.sample(range(1990, 2030), n)]}
    if kind == 'auto':
        return {'kind': 'auto', 'labels': [f'i:{i}' for i in range(n)]}
    if kind == 'date':
        return {'kind': 'date', 'labels': gen.rand_labels(rng, n, 'date')}
    return {'kind': 'flat', 'labels': gen.rand_labels(rng, n, kind)}


def ih_index(rng, n):
    spec = gen.rand_index_spec(rng, n, kinds=('ih',))
    return spec


KEY_KINDS = ['int', 'int', 'float', 'str', 'bool', 'date', 'objint', 'mixed', 'mixed', 'conflict', 'tuple']


def sgroup_case(rng, n=None):
    n = rng.randint(0, 7) if n is None else n
    r = rng.random()
    if r < 0.3 and n > 0:
        # label-depth grouping on a hierarchical index
        index = ih_index(rng, n)
        depth = len(untok(index['labels'][0])) if index['kind'] == 'ih' else 1
        if depth > 1 and rng.random() < 0.35:
            lv = sorted(rng.sample(range(depth), rng.randint(1, depth)))
        else:
            lv = rng.randrange(depth)
        route = rng.choice(['labels_items', 'labels_items', 'labels', 'labels_apply'])
        return {'k': 'sgroup', 'dt': 'int64', 'v': [f'i:{10 * i}' for i in range(n)], 'index': index, 'name': tok('sn'),
                'route': route, 'depth': lv}
    kind = rng.choice(KEY_KINDS)
    r2 = rng.random()
    index = ih_index(rng, n) if (r2 < 0.15 and n > 0) else (flat_index(rng, n, 'year') if r2 < 0.27 else flat_index(rng, n))
    return {'k': 'sgroup', 'dt': DT_OF[kind], 'kind': kind, 'v': rand_keys(rng, n, kind), 'index': index, 'name': tok(rng.choice([None, 'sn'])),
            'route': rng.choice(['items', 'items', 'values', 'apply', 'apply_items']), 'depth': None}


def fgroup_spec(rng, n, m, keycols, kinds, layout_family='any'):
    """frame spec with key columns at positions keycols of the given key kinds; other columns payload."""
    cols = []
    for j in range(m):
        if j in keycols:
            kind = kinds[keycols.index(j)]
            cols.append({'dt': DT_OF[kind], 'v': rand_keys(rng, n, kind)})
        else:
            dt = rng.choice(['int64', 'float64', 'str', 'bool', 'object'])
            cols.append({'dt': dt, 'v': [gen.rand_value(rng, dt) for _ in range(n)]})
    dts = [c['dt'] for c in cols]
    return cols, gen.rand_layout(rng, dts)


def fgroup_case(rng, n=None, m=None):
    n = rng.randint(0, 7) if n is None else n
    m = rng.randint(1, 5) if m is None else m
    r = rng.random()
    axis = 0 if rng.random() < 0.7 else 1
    if r < 0.2 and (n if axis == 0 else m) > 0:
        # label-depth grouping
        ext = n if axis == 0 else m
        ih = ih_index(rng, ext)
        other = flat_index(rng, m if axis == 0 else n, rng.choice(['int', 'str', 'auto']))
        depth = len(untok(ih['labels'][0])) if ih['kind'] == 'ih' else 1
        if depth > 1 and rng.random() < 0.3:
            lv = sorted(rng.sample(range(depth), rng.randint(2, depth)))
        else:
            lv = rng.randrange(depth)
        cols, layout = fgroup_spec(rng, n, m, [], [])
        spec = {'index': ih if axis == 0 else other, 'columns': other if axis == 0 else ih, 'cols': cols, 'layout': layout, 'rows': n, 'name': 'N'}
        return {'k': 'fgroup', 'spec': spec, 'axis': axis, 'keys': [], 'single': False,
                'route': rng.choice(['labels_items', 'labels_items', 'labels', 'labels_apply']), 'depth': lv}
    if axis == 0:
        nk = min(m, rng.choice([1, 1, 1, 2, 2, 3]))
        keycols = sorted(rng.sample(range(m), nk))
        if nk == 1:
            kinds = [rng.choice(KEY_KINDS)]
        else:
            kinds = [rng.choice(['int', 'str', 'bool', 'float', 'objint', 'mixed']) for _ in range(nk)]
            if rng.random() < 0.5:
                kinds = [kinds[0]] * nk
            if rng.random() < 0.3:
                # a text key next to a number key whose parts run into each other when written side by side
                kinds = (['cstr', 'cint'] + ['cint'] * nk)[:nk]
        cols, layout = fgroup_spec(rng, n, m, keycols, kinds)
        hier = rng.random() < 0.12 and n > 0
        spec = {'index': ih_index(rng, n) if hier else flat_index(rng, n), 'columns': flat_index(rng, m, rng.choice(['int', 'str', 'auto'])),
                'cols': cols, 'layout': layout, 'rows': n, 'name': 'N'}
        keys = keycols if rng.random() < 0.7 else rng.sample(keycols, nk)
        single = nk == 1 and rng.random() < 0.75
    else:
        # group columns by the values of one or several rows: all columns of one comparable family
        family = rng.choice(['int', 'numf', 'numb', 'numb', 'str', 'bool', 'mixo'])
        fam_dts = {'int': ['int64'], 'numf': ['int64', 'float64'], 'numb': ['int64', 'bool'], 'str': ['str'], 'bool': ['bool'], 'mixo': ['int64', 'str']}[family]
        dts = []
        for j in range(m):
            dts.append(dts[-1] if dts and rng.random() < 0.5 else rng.choice(fam_dts))
        pools = {'int64': ['i:0', 'i:1', 'i:2'], 'float64': ['f:0.0', 'f:1.0', 'f:2.5'], 'bool': ['b:0', 'b:1'], 'str': ['s:"a"', 's:"b"', 's:""']}
        cols = [{'dt': dt, 'v': [rng.choice(pools[dt][:rng.choice([1, 2, 3])]) for _ in range(n)]} for dt in dts]
        spec = {'index': flat_index(rng, n, rng.choice(['int', 'str', 'auto'])), 'columns': flat_index(rng, m, rng.choice(['int', 'str', 'auto'])),
                'cols': cols, 'layout': gen.rand_layout(rng, dts), 'rows': n, 'name': 'N'}
        if n == 0:
            return None
        nk = min(n, rng.choice([1, 1, 1, 2, 2, 3]))
        keys = sorted(rng.sample(range(n), nk))
        single = nk == 1 and rng.random() < 0.6
    return {'k': 'fgroup', 'spec': spec, 'axis': axis, 'keys': keys, 'single': single,
            'route': rng.choice(['items', 'items', 'values', 'apply', 'apply_items', 'paths']), 'depth': None}


def window_case(rng, n=None):
    n = rng.choice([0, 1, 2, 3, 4, 5, 6, 7, 8, 9, 5, 6, 7]) if n is None else n
    cont = rng.choice(['series', 'series', 'frame'])
    c = {'k': 'window', 'cont': cont, 'n': n, 'axis': 0 if cont == 'series' else rng.choice([0, 1]),
         'size': rng.choice([0, -1]) if rng.random() < 0.04 else rng.choice([1, 1, 2, 2, 2, 3, 3, 4, 5]),
         'step': -1 if rng.random() < 0.03 else rng.choice([0, 1, 1, 1, 2, 3]),
         'sized': rng.random() < 0.6, 'ls': rng.choice([0, 0, 0, 0, -1, -1, -2, 1, 2, -3]), 'ss': rng.choice([0, 0, 0, 0, -1, -2, 1, 2, 3]),
         'inc': rng.choice([0, 0, 0, 1, -1, 2]), 'excl': rng.randrange(n) if (n and rng.random() < 0.25) else None,
         'route': rng.choice(['items', 'items', 'array_items', 'values', 'array', 'apply', 'func']),
         'ik': rng.choice(['int', 'str', 'auto', 'date'])}
    c['seed'] = rng.randrange(10 ** 6)
    return c


def gl_case(rng, n):
    kind = rng.choice(['int', 'float', 'str', 'bool', 'date'])
    return {'k': 'gl', 'dt': DT_OF[kind], 'v': rand_keys(rng, n, kind)}


VARIANTS = [('int64', ['i:0', 'i:-1', 'i:2'], 'int'), ('float64', ['f:0.5', 'f:-1.0', 'f:2.0'], 'float'), ('str', ['s:"b"', 's:"a"', 's:"ab"'], 'str'),
            ('object', ['i:10', 'i:9', 'i:2'], 'objint'), ('object', ['i:1', 's:"a"', 'f:2.5'], 'mixed')]


def exhaustive_groups(rng):
    for ln in range(0, 7):
        for vec in itertools.product(range(3), repeat=ln):
            dt, vals, kind = VARIANTS[rng.randrange(len(VARIANTS))]
            v = [vals[x] for x in vec]
            yield {'k': 'sgroup', 'dt': dt, 'kind': kind, 'v': v, 'index': {'kind': 'flat', 'labels': gen.rand_labels(rng, ln, 'str')}, 'name': 'N',
                   'route': rng.choice(['items', 'apply']), 'depth': None}
            if dt != 'object':
                yield {'k': 'gl', 'dt': dt, 'v': v}
            # frame: key column + payload, forced through both paths
            for (fdt, fvals, fkind) in (VARIANTS[rng.randrange(3)], VARIANTS[3 + rng.randrange(2)]):
                fv = [fvals[x] for x in vec]
                cols = [{'dt': fdt, 'v': fv}, {'dt': 'int64', 'v': [f'i:{i}' for i in range(ln)]}]
                pos = rng.choice([0, 1])
                if pos:
                    cols.reverse()
                spec = {'index': {'kind': 'flat', 'labels': gen.rand_labels(rng, ln, 'str')}, 'columns': {'kind': 'flat', 'labels': ['s:"p"', 's:"q"']},
                        'cols': cols, 'layout': gen.rand_layout(rng, [c['dt'] for c in cols]), 'rows': ln, 'name': 'N'}
                yield {'k': 'fgroup', 'spec': spec, 'axis': 0, 'keys': [pos], 'single': rng.random() < 0.8,
                       'route': rng.choice(['items', 'apply', 'paths'] if fdt != 'object' else ['items', 'apply']), 'depth': None}
            if ln:
                # axis 1: the vector is a row
                fdt, fvals, fkind = VARIANTS[rng.randrange(3)]
                cols = [{'dt': fdt, 'v': [fvals[x], 'i:0' if fdt == 'int64' else fvals[0]]} for x in vec]
                spec = {'index': {'kind': 'flat', 'labels': ['s:"k"', 's:"z"']}, 'columns': {'kind': 'flat', 'labels': gen.rand_labels(rng, ln, 'str')},
                        'cols': cols, 'layout': gen.rand_layout(rng, [fdt] * ln), 'rows': 2, 'name': 'N'}
                yield {'k': 'fgroup', 'spec': spec, 'axis': 1, 'keys': [0], 'single': True, 'route': rng.choice(['items', 'paths']), 'depth': None}


def exhaustive_windows():
    for n in range(0, 7):
        for size in range(1, 5):
            for step in range(0, 4):
                for ls in range(-2, 3):
                    for ss in range(-2, 3):
                        for inc in (-1, 0, 1):
                            for sized in (True, False):
                                yield {'k': 'window', 'cont': 'series', 'n': n, 'axis': 0, 'size': size, 'step': step, 'sized': sized,
                                       'ls': ls, 'ss': ss, 'inc': inc, 'excl': None, 'route': 'items', 'ik': 'str', 'seed': 0}


def cases(ctx):
    rng = ctx.rng('main')
    quick = ctx.tier == 'quick'
    yield from wgen.cases(ctx)      # translated window skeleton vs the real axis_window_items (grid) + its two primitives
    for _ in range(400 if quick else 3000):
        yield gl_case(rng, rng.choice([0, 1, 2, 3, 5, 8, 20]))
    for _ in range(14000 if quick else 350000):
        r = rng.random()
        if r < 0.22:
            c = sgroup_case(rng)
        elif r < 0.62:
            c = fgroup_case(rng)
        else:
            c = window_case(rng)
        if c is not None:
            yield c
    if not quick:
        yield from exhaustive_groups(ctx.rng('exh-groups'))
        yield from exhaustive_windows()


def search(ctx):
    yield from wgen.search(ctx)
    rng = ctx.rng('search')
    for _ in range(40000):
        r = rng.random()
        c = sgroup_case(rng) if r < 0.25 else (fgroup_case(rng) if r < 0.65 else window_case(rng))
        if c is not None:
            yield c


def nontrivial(c):
    if c['k'] in ('wgrid', 'wsem'):
        return wgen.nontrivial(c)
    if c['k'] == 'gl':
        return len(c['v']) >= 2
    if c['k'] == 'sgroup':
        return len(c['v']) >= 2
    if c['k'] == 'fgroup':
        return (c['spec']['rows'] if c['axis'] == 0 else len(c['spec']['cols'])) >= 2
    return c['n'] >= 1


# ------------------------------------------------------------------ model lines
def group_keys_ref(c):
    """Per row (axis 0) / column (axis 1): the python key value (tuple for several keys / depth levels)."""
    if c['k'] == 'sgroup':
        if c['depth'] is None:
            return [pyval(x) for x in gen.col_array(c['dt'], c['v'])], False
        labs = [untok(t) for t in c['index']['labels']]
        return depth_keys(labs, c['index'], c['depth'])
    spec = c['spec']
    n, m = spec['rows'], len(spec['cols'])
    if c['depth'] is not None:
        ispec = spec['index'] if c['axis'] == 0 else spec['columns']
        labs = [untok(t) for t in ispec['labels']]
        return depth_keys(labs, ispec, c['depth'])
    arrays = [gen.col_array(col['dt'], col['v']) for col in spec['cols']]
    multi = not c['single']
    if c['axis'] == 0:
        if multi:
            return [tuple(pyval(arrays[j][i]) for j in c['keys']) for i in range(n)], True
        return [pyval(arrays[c['keys'][0]][i]) for i in range(n)], False
    if multi and len(c['keys']) > 1:
        return [tuple(pyval(arrays[j][i]) for i in c['keys']) for j in range(m)], True
    # one row label, also when given as a one-element list: TypeBlocks.group keeps a one-row key array out of
    # np.unique(axis=1) (`shape[0] > 1` test), so the groups are the scalar values of that row
    return [pyval(arrays[j][c['keys'][0]]) for j in range(m)], False


def depth_keys(labs, ispec, lv):
    ih = ispec['kind'] == 'ih'
    if isinstance(lv, list):
        return [tuple((lab if ih else (lab,))[d] for d in lv) for lab in labs], True
    return [(lab if ih else (lab,))[lv] for lab in labs], False


def key_dtype_object(c):
    """dtype of the key array the code groups (True = object)."""
    if c['k'] == 'sgroup':
        return c['dt'] == 'object' if c['depth'] is None else False
    spec = c['spec']
    if c['depth'] is not None:
        return False
    if c['axis'] == 0:
        dts = {spec['cols'][j]['dt'] for j in c['keys']}
    else:
        dts = {col['dt'] for col in spec['cols']}
    if 'object' in dts:
        return True
    if len(dts) == 1:
        return False
    return not dts <= {'int64', 'float64'}


def model_key_toks(keys):
    """Model tokens of the key values as the code sees them: a row spanning int / float / bool columns is one coerced
    array (1, 1.0 and True are the same key), so numbers of several Python types are sent in one numeric form."""
    kinds = {type(k) for k in keys if isinstance(k, (bool, int, float))}
    if len(kinds) > 1:
        return [mtok(float(k)) if isinstance(k, (bool, int, float)) else mtok(k) for k in keys]
    return [mtok(k) for k in keys]


def model_lines(c):
    if c['k'] in ('wgrid', 'wsem'):
        return wgen.model_lines(c)
    if c['k'] == 'gl':
        ks = wire_list([mtok(x) for x in gen.col_array(c['dt'], c['v'])])
        return [f'group.locations {ks}', f'group.generic {ks}', f'group.sort {ks}', f'group.spec {ks}']
    if c['k'] == 'window':
        f = lambda v: 'N' if v is None else str(v)
        args = f'{c["n"]} {c["size"]} {c["step"]} {int(c["sized"])} {c["ls"]} {c["ss"]} {c["inc"]} {f(c["excl"])}'
        return [f'window.items {args}', f'window.spec {args}', wgen.gen_line(c)]
    keys, multi = group_keys_ref(c)
    if multi or key_dtype_object(c):
        return []
    toks = model_key_toks(keys)
    if not all(mtok_orderable(t) for t in toks) or 'nan' in toks:
        return []
    if c['k'] == 'sgroup' or c['depth'] is not None:
        return [f'group.generic {wire_list(toks)}', f'group.apply_len {wire_list(toks)}']
    spec = c['spec']
    cd = 2 if spec['columns']['kind'] == 'ih' else 1
    idp = 2 if spec['index']['kind'] == 'ih' else 1
    return [f'group.loc {cd} {idp} {int(not c["single"])} 0 {wire_list(toks)}', f'group.apply_len {wire_list(toks)}']


# ------------------------------------------------------------------ evaluation
def evaluate(ctx, c, outs):
    if c['k'] in ('wgrid', 'wsem'):
        return wgen.evaluate(ctx, c, outs)
    if c['k'] == 'gl':
        return eval_gl(ctx, c, outs)
    if c['k'] == 'window':
        return eval_window(ctx, c, outs)
    return eval_group(ctx, c, outs)


def eval_gl(ctx, c, outs):
    from static_frame.core.util import array_to_groups_and_locations
    fails = []
    arr = gen.col_array(c['dt'], c['v'])
    ctx.count('gl_cases')
    groups, locations = array_to_groups_and_locations(arr)
    real = [[mtok(g) for g in groups], [int(x) for x in locations]]
    # oracle: groups sorted distinct, groups[locations] == arr
    gl = [pyval(g) for g in groups]
    if len(set(map(tok, gl))) != len(gl) or any(tok(gl[locations[i]]) != tok(pyval(arr[i])) for i in range(len(arr))) \
            or set(map(tok, gl)) != set(tok(pyval(x)) for x in arr):
        fails.append(Failure('oracle', f'array_to_groups_and_locations({c["v"]}) = {groups!r}, {locations!r}: not distinct keys + inverse', c))
    if outs:
        st, val = parse_answer(outs[0])
        got = [list(val[0]), [int(x) for x in val[1]]] if st == 'ok' else val
        if got != real:
            fails.append(Failure('corr', f'groupsAndLocations model {got} vs real {real}', c))
        if not (outs[1] == outs[3] and outs[2] == outs[3]):
            fails.append(Failure('corr', f'model paths disagree: generic {outs[1]} sort {outs[2]} spec {outs[3]}', c))
    return fails


def build_index(spec):
    import static_frame as sf
    if spec['kind'] == 'year':
        return sf.IndexYear([untok(t) for t in spec['labels']])
    return gen.build_index(spec)


def build_series(c):
    import static_frame as sf
    return sf.Series(gen.col_array(c['dt'], c['v']), index=build_index(c['index']), name=untok(c['name']))


def norm_label(lab):
    if isinstance(lab, np.ndarray):
        return tuple(pyval(x) for x in lab)
    if isinstance(lab, tuple):
        return tuple(pyval(x) for x in lab)
    return pyval(lab)


def run_groups(c):
    """Run the real iteration. Returns dict(groups=[(label, sub)], applied=Series|None, src=container, paths=None|(fast, generic))."""
    import static_frame as sf
    route = c['route']
    out = {'applied': None, 'paths': None}
    if c['k'] == 'sgroup':
        s = build_series(c)
        out['src'] = s
        if route == 'items':
            out['groups'] = list(s.iter_group_items())
        elif route == 'values':
            out['groups'] = [(None, g) for g in s.iter_group()]
        elif route == 'apply':
            out['groups'] = list(s.iter_group_items())
            out['applied'] = s.iter_group().apply(lambda g: len(g))
        elif route == 'apply_items':
            out['groups'] = list(s.iter_group_items())
            out['applied'] = s.iter_group_items().apply(lambda k, g: len(g))
        elif route == 'labels_items':
            out['groups'] = list(s.iter_group_labels_items(c['depth']))
        elif route == 'labels':
            out['groups'] = [(None, g) for g in s.iter_group_labels(c['depth'])]
        elif route == 'labels_apply':
            out['groups'] = list(s.iter_group_labels_items(c['depth']))
            out['applied'] = s.iter_group_labels(c['depth']).apply(lambda g: len(g))
        return out
    f = gen.build_frame(c['spec'])
    out['src'] = f
    axis = c['axis']
    if c['depth'] is not None:
        if route == 'labels_items':
            out['groups'] = list(f.iter_group_labels_items(c['depth'], axis=axis))
        elif route == 'labels':
            out['groups'] = [(None, g) for g in f.iter_group_labels(c['depth'], axis=axis)]
        else:
            out['groups'] = list(f.iter_group_labels_items(c['depth'], axis=axis))
            out['applied'] = f.iter_group_labels(c['depth'], axis=axis).apply(lambda g: g.shape[axis])
        return out
    src = f.columns if axis == 0 else f.index
    labs = [src.values[p] if src.depth == 1 else tuple(src.values[p]) for p in c['keys']]
    key = labs[0] if c['single'] else labs
    out['key'] = key
    if route == 'items':
        out['groups'] = list(f.iter_group_items(key, axis=axis))
    elif route == 'values':
        out['groups'] = [(None, g) for g in f.iter_group(key, axis=axis)]
    elif route == 'apply':
        out['groups'] = list(f.iter_group_items(key, axis=axis))
        out['applied'] = f.iter_group(key, axis=axis).apply(lambda g: g.shape[axis])
    elif route == 'apply_items':
        out['groups'] = list(f.iter_group_items(key, axis=axis))
        out['applied'] = f.iter_group_items(key, axis=axis).apply(lambda k, g: g.shape[axis])
    elif route == 'paths':
        out['groups'] = list(f.iter_group_items(key, axis=axis))
        if not c['single'] or key_dtype_object(c) or f.index.depth > 1 or f.columns.depth > 1:
            return out  # the sort-and-slice path is only defined for one key of a non-object dtype on flat axes
        iloc_key = src._loc_to_iloc(key)
        fast = list(f._axis_group_sort_items(key=key, iloc_key=iloc_key, axis=axis))
        generic = list(f._axis_group_iloc_items(key=iloc_key, axis=axis))
        out['paths'] = (fast, generic)
    return out


def units_of(c, obj):
    """(label token, cells tuple) per grouped unit (row for Series / axis 0, column for axis 1) and the other-axis labels."""
    import static_frame as sf
    if isinstance(obj, sf.Series):
        vals = obj.values
        vt = [tok(x) for x in (vals if vals.dtype.kind in 'mM' else vals.tolist())]
        return list(zip(label_toks(obj.index), vt)), None
    cols = frame_cols(obj)
    if c['axis'] == 0:
        labs = label_toks(obj.index)
        return [(labs[i], tuple(col[i] for col in cols)) for i in range(obj.shape[0])], label_toks(obj.columns)
    labs = label_toks(obj.columns)
    return [(labs[j], tuple(cols[j])) for j in range(obj.shape[1])], label_toks(obj.index)


def str_conflict(keys):
    """object keys for which grouping by str() differs from grouping by ==."""
    flat = []
    for k in keys:
        flat.append(k)
    for a, b in itertools.combinations(flat, 2):
        try:
            eq = bool(a == b)
        except Exception:
            eq = False
        if (str(a) == str(b)) != eq:
            return True
    return False


def unsortable(keys):
    """True when NumPy cannot sort these (object) key values: np.unique raises TypeError and the string fallback runs."""
    try:
        sorted(k for k in keys)
        return False
    except TypeError:
        return True


def eval_group(ctx, c, outs):
    import static_frame as sf
    fails = []
    keys, multi = group_keys_ref(c)
    obj = key_dtype_object(c)
    ctx.count(f'{c["k"]}_{c["route"]}')
    ctx.count(f'axis{c.get("axis", 0)}')
    if c['k'] == 'fgroup' and c['depth'] is None:
        spec = c['spec']
        fast = spec['columns']['kind'] != 'ih' and spec['index']['kind'] != 'ih' and c['single'] and not obj
        ctx.count('path_fast' if fast else 'path_generic')
        ctx.count(f'layout_blocks_{min(len(spec["layout"]), 4)}')
    if c['k'] == 'sgroup' and c['depth'] is None and 'apply' in c['route'] and c['index']['kind'] in ('date', 'year', 'ih'):
        ctx.count('strict_series_apply_on_' + c['index']['kind'] + '_index')
    if c['k'] == 'fgroup' and isinstance(c['depth'], list) and c['route'] == 'labels_apply':
        ctx.count('strict_frame_labels_multi_depth_apply')
    if c['k'] == 'fgroup' and c['depth'] is None and c['axis'] == 1 and not c['single']:
        ctx.count('strict_axis1_one_label_list' if len(c['keys']) == 1 else ('strict_axis1_object_rows_multi' if obj else 'axis1_multi_rows'))
    if multi:
        ctx.count('multi_key')
    if obj:
        ctx.count('object_key')
    hk = [hash_class(k) for k in keys]
    ndist = len(set(hk))
    ctx.count('groups_1' if ndist == 1 else ('groups_all_distinct' if ndist == len(keys) and len(keys) > 1 else 'groups_some'))
    detail = {'object': obj, 'str_conflict': obj and str_conflict(keys if not multi else [x for k in keys for x in k]),
              'tuple_key': c.get('kind') == 'tuple' or (c['k'] == 'fgroup' and c['depth'] is None and c['axis'] == 0 and
                                                        any(t.startswith('t:') for j in c['keys'] for t in c['spec']['cols'][j]['v'])),
              'frame_labels_multi': c['k'] == 'fgroup' and isinstance(c['depth'], list),
              'unsortable': obj and not multi and unsortable(keys)}
    where = f'{c["k"]} {c["route"]} axis={c.get("axis", 0)} keys={c.get("keys")} depth={c["depth"]}'
    try:
        run = run_groups(c)
    except Exception as ex:
        detail['exc'] = type(ex).__name__
        fails.append(Failure('oracle', f'{where}: raised {type(ex).__name__}: {ex}', c, detail=detail))
        return fails
    src = run['src']
    groups = run['groups']
    src_units, src_other = units_of(c, src)
    pos_of = {u[0]: i for i, u in enumerate(src_units)}
    n = len(src_units)

    seen_units = []
    labels = []
    real_groups = []
    what = None
    for lab, sub in groups:
        if type(sub) is not type(src) and not (isinstance(src, sf.Frame) and isinstance(sub, sf.Frame)):
            what = f'group is a {type(sub).__name__}'
            break
        units, other = units_of(c, sub)
        if other != src_other:
            what = f'the other axis of a group differs: {other} vs {src_other}'
            break
        if not units:
            what = 'empty group yielded'
            break
        try:
            positions = [pos_of[u[0]] for u in units]
        except KeyError:
            what = f'group holds a label that is not in the input: {units}'
            break
        if positions != sorted(positions) or len(set(positions)) != len(positions):
            what = f'rows inside a group are not in their original order: positions {positions}'
            break
        member_keys = {hk[p] for p in positions}
        if len(member_keys) != 1:
            what = f'members of one group have different keys: {sorted(member_keys)} (group label {lab!r})'
            break
        if lab is not None or c['route'] not in ('values', 'labels'):
            if isinstance(lab, np.ndarray):
                what = f'group label {lab!r} is an (unhashable) ndarray, not the key value / tuple'
                break
            nl = norm_label(lab)
            if isinstance(nl, tuple) != isinstance(keys[positions[0]], tuple):
                what = f'group label {lab!r}: the key of this grouping is {"a tuple" if multi else "a scalar"} ({keys[positions[0]]!r})'
                break
            if hash_class(nl) not in member_keys:
                what = f'group labelled {lab!r} holds rows with key {sorted(member_keys)}'
                break
            labels.append(hash_class(nl))
        else:
            labels.append(next(iter(member_keys)))
        seen_units.extend(units)
        real_groups.append((lab, positions))
    if what is None:
        if sorted(map(repr, seen_units)) != sorted(map(repr, src_units)):
            what = f'groups do not partition the input: {len(seen_units)} grouped units vs {n} in the input'
        else:
            if len(set(labels)) != len(labels):
                what = f'two groups have the same key: {labels}'
    if what is None and run['applied'] is not None:
        ap = run['applied']
        exp = [(hash_class(norm_label(lab)), len(pos)) for lab, pos in real_groups]
        got = [(hash_class(norm_label(k)), int(v)) for k, v in zip(ap.index, ap.values)] if isinstance(ap, sf.Series) else None
        if got != exp:
            what = f'apply: result {got} is not one entry per group labelled by its key {exp}'
    if what is None and run['paths'] is not None:
        def sig(gs):
            return [(tok(norm_label(lab)), units_of(c, sub)) for lab, sub in gs]
        fa, ge = run['paths']
        if sig(fa) != sig(ge):
            what = f'fast path and generic path differ: {[(tok(norm_label(l)), label_toks(s.index if c["axis"] == 0 else s.columns)) for l, s in fa]} vs ' \
                   f'{[(tok(norm_label(l)), label_toks(s.index if c["axis"] == 0 else s.columns)) for l, s in ge]}'
    if what:
        fails.append(Failure('oracle', f'{where}: {what}', c, detail=detail))
        return fails

    # ---- model
    if outs:
        ctx.count('model_groups_compared')
        st, val = parse_answer(outs[0])
        if st != 'ok':
            fails.append(Failure('corr', f'{where}: model answered {outs[0]}', c))
            return fails
        got = [(g[0], [int(x) for x in g[1]]) for g in val]
        if c['route'] in ('values', 'labels'):
            real = [(mtok(keys[pos[0]]), pos) for _, pos in real_groups]
        else:
            real = [(mtok(norm_label(lab)), pos) for lab, pos in real_groups]
        # numeric labels may come back widened (1 -> 1.0): compare through the key of the first member
        mk = model_key_toks(keys)
        real = [(mk[pos[0]], pos) for _, pos in real_groups]
        if got != real:
            fails.append(Failure('corr', f'{where}: model groups {got} vs real {real}', c))
        if run['applied'] is not None and len(outs) > 1:
            st2, val2 = parse_answer(outs[1])
            ap = run['applied']
            realap = [(mk[pos[0]], str(len(pos))) for _, pos in real_groups]
            gotap = [(x[0], x[1]) for x in val2] if st2 == 'ok' else (st2, val2)
            if gotap != realap:
                fails.append(Failure('corr', f'{where}: model apply {gotap} vs real {realap}', c))
    return fails


# ------------------------------------------------------------------ windows
def ref_windows(n, size, step, sized, ls, ss, inc, excl):
    """Reference enumeration from the documented meaning of the arguments: candidate k starts at
    start_shift + k*step, spans size + k*size_increment positions (clipped to the axis), is labelled
    label_shift away from its right-most position; candidates are visited while the anchor is not past the
    last visited position, the size is not negative and at most n (+|start_shift|) + 1 candidates were tried."""
    return ref_windows_info(n, size, step, sized, ls, ss, inc, excl)[0]


def ref_windows_info(n, size, step, sized, ls, ss, inc, excl):
    """(reference windows, True when some visited candidate addresses no position at all)"""
    if size <= 0 or step < 0:
        return ('err', 'shape'), False
    any_empty = False
    extra = -ss if ss < 0 else 0
    last_anchor = n + extra - 1
    max_count = n + extra
    out = []
    k = 0
    while True:
        left = ss + k * step
        sz = size + k * inc
        if k > 0 and (k > max_count or left > last_anchor or sz < 0):
            break
        right = left + sz - 1
        lab = right + ls
        pos = [i for i in range(max(left, 0), right + 1) if i < n]
        any_empty = any_empty or not pos
        ok = 0 <= lab < n and (not sized or len(pos) == sz) and (excl is None or excl not in pos)
        if ok:
            out.append((lab, pos))
        k += 1
    return out, any_empty


def build_window_source(c):
    import static_frame as sf
    import random
    rng = random.Random(c['seed'])
    n = c['n']
    if c['ik'] == 'auto':
        ispec = {'kind': 'auto', 'labels': [f'i:{i}' for i in range(n)]}
    elif c['ik'] == 'date':
        ispec = {'kind': 'date', 'labels': gen.rand_labels(rng, n, 'date_sorted')}
    else:
        ispec = {'kind': 'flat', 'labels': gen.rand_labels(rng, n, c['ik'])}
    if c['cont'] == 'series':
        s = sf.Series(np.arange(n, dtype=np.int64) * 10, index=gen.build_index(ispec), name='w')
        return s, label_toks(s.index)
    # frame: the windowed axis has n entries, the other 2..3 with mixed dtypes and a random layout
    k = rng.choice([1, 2, 3])
    other = {'kind': 'flat', 'labels': gen.rand_labels(rng, k, 'str')}
    if c['axis'] == 0:
        dts = [rng.choice(['int64', 'float64', 'str']) for _ in range(k)]
        cols = [{'dt': dt, 'v': [tok(10 * i) if dt == 'int64' else (tok(float(i)) if dt == 'float64' else tok('r%d' % i)) for i in range(n)]} for dt in dts]
        spec = {'index': ispec, 'columns': other, 'cols': cols, 'layout': gen.rand_layout(rng, dts), 'rows': n}
    else:
        dt = rng.choice(['int64', 'int64', 'str'])
        dts = [dt if rng.random() < 0.7 else rng.choice(['int64', 'float64', 'str']) for _ in range(n)]
        cols = [{'dt': dts[j], 'v': [tok(10 * j + r) if dts[j] == 'int64' else (tok(float(10 * j + r)) if dts[j] == 'float64' else tok('c%d_%d' % (j, r))) for r in range(k)]}
                for j in range(n)]
        spec = {'index': other, 'columns': ispec, 'cols': cols, 'layout': gen.rand_layout(rng, dts), 'rows': k}
    f = gen.build_frame(spec)
    return f, label_toks(f.index if c['axis'] == 0 else f.columns)


def eval_window(ctx, c, outs):
    import static_frame as sf
    fails = []
    n = c['n']
    ref, any_empty = ref_windows_info(n, c['size'], c['step'], c['sized'], c['ls'], c['ss'], c['inc'], c['excl'])
    src, labs = build_window_source(c)
    axis = c['axis']
    route = c['route']
    ctx.count(f'window_{c["cont"]}_{route}')
    ctx.count(f'window_step_{min(c["step"], 3)}')
    if c['inc']:
        ctx.count('window_size_increment')
    if c['ss'] < 0:
        ctx.count('window_start_shift_neg')
    if not c['sized']:
        ctx.count('window_unsized')
    where = f'window {c["cont"]} {route} axis={axis} n={n} size={c["size"]} step={c["step"]} sized={c["sized"]} label_shift={c["ls"]} ' \
            f'start_shift={c["ss"]} size_increment={c["inc"]} excl={c["excl"]}'

    def unit_labels(w):
        """labels of the windowed axis inside a window container"""
        if isinstance(w, sf.Series):
            return label_toks(w.index)
        return label_toks(w.index if axis == 0 else w.columns)

    # reference cells of the source for array windows
    if isinstance(src, sf.Series):
        src_vals = [tok(x) for x in src.values.tolist()]
    else:
        src_cols = frame_cols(src)

    excl_lab = None
    if c['excl'] is not None:
        excl_lab = (src.index if (isinstance(src, sf.Series) or axis == 0) else src.columns).values[c['excl']]
    kw = dict(size=c['size'], step=c['step'], window_sized=c['sized'], label_shift=c['ls'], start_shift=c['ss'], size_increment=c['inc'])
    if isinstance(src, sf.Frame):
        kw['axis'] = axis
    arr_route = route in ('array_items', 'array')
    if excl_lab is not None:
        if arr_route:
            # arrays carry no labels: recognise the excluded position by its (unique) cells
            if isinstance(src, sf.Series):
                marker = src.values[c['excl']]
                kw['window_valid'] = lambda w: not bool((w == marker).any())
            else:
                first = src.iloc[c['excl'], 0] if axis == 0 else src.iloc[0, c['excl']]
                kw['window_valid'] = (lambda w: not any(x == first for x in (w[:, 0] if w.ndim == 2 else w).tolist())) if axis == 0 else \
                    (lambda w: not any(x == first for x in (w[0] if w.ndim == 2 else w).tolist()))
        else:
            kw['window_valid'] = lambda w: excl_lab not in (w.index if (isinstance(w, sf.Series) or axis == 0) else w.columns)
    if route == 'func':
        kw['window_func'] = lambda w: ('wrapped', w)
    try:
        if route in ('items', 'func'):
            real = list(src.iter_window_items(**kw))
        elif route == 'array_items':
            real = list(src.iter_window_array_items(**kw))
        elif route == 'values':
            real = [(None, w) for w in src.iter_window(**kw)]
        elif route == 'array':
            real = [(None, w) for w in src.iter_window_array(**kw)]
        elif route == 'apply':
            real = list(src.iter_window_items(**kw))
            applied = None
            try:
                applied = ('ok', src.iter_window(**kw).apply(lambda w: w.shape[axis] if isinstance(w, sf.Frame) else len(w)))
            except Exception as ex:
                applied = ('err', err_cat(ex), ex)
        real = ('ok', real)
    except Exception as ex:
        real = ('err', err_cat(ex), ex)

    if isinstance(ref, tuple):
        ctx.count('window_expected_error')
        if real[0] != 'err' or real[1] != ref[1]:
            fails.append(Failure('oracle', f'{where}: illegal size/step must raise RuntimeError, got {real[:2]}', c))
        if outs and parse_answer(outs[0]) != ref:
            fails.append(Failure('corr', f'{where}: model {outs[0]} vs expected {ref}', c))
        if len(outs) > 2:
            fails += wgen.check_gen(where, c, outs[2], ref)
        return fails
    if real[0] == 'err':
        fails.append(Failure('oracle', f'{where}: raised {type(real[2]).__name__}: {real[2]}', c,
                             detail={'exc': type(real[2]).__name__, 'msg': str(real[2])[:60], 'empty_candidate': any_empty}))
        return fails
    ctx.count(f'windows_yielded_{min(len(ref), 5)}')
    got = []
    for lab, w in real[1]:
        if route == 'func':
            if not (isinstance(w, tuple) and w[0] == 'wrapped'):
                fails.append(Failure('oracle', f'{where}: window_func not applied', c))
                return fails
            w = w[1]
        if arr_route:
            if not isinstance(w, np.ndarray):
                fails.append(Failure('oracle', f'{where}: array route yielded {type(w).__name__}', c))
                return fails
            content = ('arr', array_cells(w, axis, isinstance(src, sf.Series)))
        else:
            if not isinstance(w, type(src)) and not (isinstance(src, sf.Frame) and isinstance(w, sf.Frame)):
                fails.append(Failure('oracle', f'{where}: window is a {type(w).__name__}', c))
                return fails
            content = ('lab', unit_labels(w))
        got.append((None if lab is None else tok(lab), content))
    exp = []
    for labpos, pos in ref:
        if arr_route:
            if isinstance(src, sf.Series):
                content = ('arr', [src_vals[i] for i in pos])
            elif axis == 0:
                content = ('arr', [tuple(col[i] for col in src_cols) for i in pos])
            else:
                content = ('arr', [tuple(src_cols[j]) for j in pos])
        else:
            content = ('lab', [labs[i] for i in pos])
        exp.append((None if route in ('values', 'array') else labs[labpos], content))
    if arr_route:
        # arrays of mixed-dtype frames are coerced: compare by == on the python values
        same = len(got) == len(exp) and all(g[0] == e[0] and arr_equal(g[1][1], e[1][1]) for g, e in zip(got, exp))
    else:
        same = got == exp
    if not same:
        fails.append(Failure('oracle', f'{where}: windows {short(got)} differ from the reference enumeration {short(exp)}', c))
        return fails
    if route == 'apply':
        labels_ref = [labs[lp] for lp, _ in ref]
        if len(set(labels_ref)) == len(labels_ref):
            if applied[0] != 'ok':
                fails.append(Failure('oracle', f'{where}: apply raised {type(applied[2]).__name__}: {applied[2]}', c))
            else:
                ap = applied[1]
                ga = [(tok(k), int(v)) for k, v in zip(ap.index, ap.values)]
                ea = [(labs[lp], len(pos)) for lp, pos in ref]
                if ga != ea:
                    fails.append(Failure('oracle', f'{where}: apply result {ga} vs reference {ea}', c))
        else:
            ctx.count('window_apply_duplicate_labels')
            if applied[0] == 'ok':
                fails.append(Failure('oracle', f'{where}: apply over windows with repeated labels returned a Series with duplicate labels', c))
    if outs:
        ctx.count('model_windows_compared')
        st, val = parse_answer(outs[0])
        gotm = [(int(w[0]), int(w[1]), int(w[2])) for w in val] if st == 'ok' else (st, val)
        realm = [(lp, pos[0] if pos else None, len(pos)) for lp, pos in ref]
        ok = isinstance(gotm, list) and len(gotm) == len(realm) and all(g[0] == r[0] and g[2] == r[2] and (r[1] is None or g[1] == r[1]) for g, r in zip(gotm, realm))
        if not ok:
            fails.append(Failure('corr', f'{where}: model {gotm} vs real/reference {realm}', c))
        if outs[1] != outs[0]:
            fails.append(Failure('corr', f'{where}: model loop {outs[0]} vs model spec {outs[1]}', c))
        if len(outs) > 2:
            fails += wgen.check_gen(where, c, outs[2], realm)
    return fails


def array_cells(w, axis, is_series):
    if is_series or w.ndim == 1:
        return [tok(x) for x in w.tolist()]
    if axis == 0:
        return [tuple(tok(x) for x in row) for row in w.tolist()]
    return [tuple(tok(x) for x in w[:, j].tolist()) for j in range(w.shape[1])]


def arr_equal(a, b):
    if len(a) != len(b):
        return False
    for x, y in zip(a, b):
        xs = x if isinstance(x, tuple) else (x,)
        ys = y if isinstance(y, tuple) else (y,)
        if len(xs) != len(ys):
            return False
        for p, q in zip(xs, ys):
            if p == q:
                continue
            try:
                if hash_class(untok(p)) == hash_class(untok(q)):
                    continue
                if str(untok(p)) == str(untok(q)):
                    continue  # numbers coerced to str in an object/str consolidated array
            except Exception:
                pass
            return False
    return True


def short(ws):
    return str(ws)[:400]


def classify(f):
    d = f.detail or {}
    c = f.case
    if f.kind != 'oracle':
        return None
    if c.get('k') == 'window':
        if c['cont'] == 'frame' and c['axis'] == 1 and c['route'] in ('array', 'array_items') and d.get('empty_candidate') \
                and d.get('exc') == 'RuntimeError' and 'StopIteration' in d.get('msg', ''):
            return 'F55-window-array-axis1-empty-candidate'
        return None
    if d.get('tuple_key') and d.get('exc') in ('ValueError', 'IndexError'):
        return 'F23-group-object-tuple-keys'
    if c.get('k') == 'fgroup' and c['axis'] == 1 and c['depth'] is None and not c['single'] and len(c['keys']) == 1 \
            and d.get('unsortable') and d.get('exc') == 'IndexError':
        return 'F68-group-axis1-one-label-list-unsortable-row'
    if d.get('object') and d.get('str_conflict') and (not d.get('exc') or (d.get('exc') == 'ErrorInitIndexNonUnique' and 'apply' in c.get('route', ''))):
        return 'F52-group-object-keys-by-str'
    return None
