"""C13 (windows) - the skeleton of container_util.axis_window_items TRANSLATED from the source
(tools/py2lean_window.py -> lean/SFModel/Gen/Window.lean, bridge lemmas lean/SFModel/BridgeWindow.lean).

This module holds what harness/sfv/props/c13.py needs for it:
  * the extra lake targets / audited theorems,
  * `gen_line` / `check_gen`: every 'window' case of c13.py also runs the translated generator through the
    driver (`wgen.items`) and compares it with the real windows,
  * case kind 'wgrid': the REAL function `container_util.axis_window_items` called directly on a grid of
    argument tuples (all guards, window_valid None / accepting / rejecting, every source routing the
    function knows: Series, Frame rows, Frame columns, arrays) and compared with the translated generator,
  * case kind 'wsem': the two primitives of the translation (SFModel/WindowSem.lean) against the real
    `Index.iloc[i]` of every index class and the real extraction calls the loop body uses on `slice(a, b)`.
"""
from __future__ import annotations

import itertools

import numpy as np

from check import Failure
from sfv.ordutil import parse_answer

TARGETS = ['SFModel.BridgeWindow', 'SFModel.Props.C13Window']
THEOREMS = [
    'SF.BridgeWindow.defaults_bridge', 'SF.BridgeWindow.init_bridge', 'SF.BridgeWindow.yield_bridge',
    'SF.BridgeWindow.update_bridge', 'SF.BridgeWindow.step_bridge', 'SF.BridgeWindow.body_bridge',
    'SF.BridgeWindow.exit_bridge', 'SF.BridgeWindow.loop_bridge', 'SF.BridgeWindow.windows_bridge',
    'SF.BridgeWindow.ilocPos_normPos', 'SF.BridgeWindow.sliceWindow_indices',
    'SF.C13.window_exact_translated', 'SF.C13.window_rejects_translated', 'SF.C13.window_fuel_translated',
]
TRUSTED = ['tools/py2lean_window.py (translator of the arithmetic / decision skeleton of container_util.axis_window_items; its reading of '
           '`labels.iloc[i]` and of the extraction calls on `slice(a, b)` is SFModel/WindowSem.lean); cross-checked against the real function on a '
           'grid each run (cases wgrid, wsem, and every window case)']
CORR_ONLY = ['which labels / which extraction call belong to which axis and source kind in axis_window_items (the data-only statements the translator '
             'abstracts): compared on every run through the labels and contents of the real windows']

SOURCES = ['series', 'series_arr', 'frame0', 'frame1', 'frame0_arr', 'frame0_arr_blocks']


def fuel(n, ss):
    return 3 * (n + abs(ss)) + 20


def wv_atom(wv):
    return wv if wv in ('-', 'N') else str(int(wv))


def items_line(n, size, step, sized, ls, ss, inc, wv):
    return f'wgen.items {fuel(n, ss)} {n} {size} {step} {int(sized)} {ls} {ss} {inc} {wv_atom(wv)}'


def gen_line(c):
    """the translated generator on a 'window' case of c13.py (no callback is passed there unless a position is excluded)"""
    return items_line(c['n'], c['size'], c['step'], c['sized'], c['ls'], c['ss'], c['inc'], '-' if c['excl'] is None else c['excl'])


def same_windows(got, real):
    """got: [(label, first, len)] of the model; real: [(label, first or None when the window is empty, len)]"""
    return isinstance(got, list) and len(got) == len(real) and all(
        g[0] == r[0] and g[2] == r[2] and (r[1] is None or g[1] == r[1]) for g, r in zip(got, real))


def parse_windows(out):
    st, val = parse_answer(out)
    return [(int(w[0]), int(w[1]), int(w[2])) for w in val] if st == 'ok' else (st, val)


def check_gen(where, c, out, realm):
    """`realm`: [(label position, first position or None, length)] of the real run, or ('err', category)"""
    got = parse_windows(out)
    if isinstance(realm, tuple):
        return [] if got == realm else [Failure('corr', f'{where}: translated axis_window_items answers {out}, the real function {realm}', c)]
    if not same_windows(got, realm):
        return [Failure('corr', f'{where}: translated axis_window_items yields {got}, the real function {realm}', c)]
    return []


# ------------------------------------------------------------------ wgrid: the real function, called directly
def wgrid_case(n, size, step, sized, ls, ss, inc, wv, src):
    return {'k': 'wgrid', 'n': n, 'size': size, 'step': step, 'sized': sized, 'ls': ls, 'ss': ss, 'inc': inc, 'wv': wv, 'src': src}


def wgrid_random(rng):
    n = rng.choice([0, 1, 2, 3, 3, 4, 5, 6, 8])
    return wgrid_case(n, rng.choice([-1, 0, 1, 1, 2, 2, 3, 4, n, n + 1]), rng.choice([-1, 0, 1, 1, 1, 2, 3, n]), rng.random() < 0.5,
                      rng.choice([0, 0, -1, -2, -3, 1, 2, -n, n]), rng.choice([0, 0, -1, -2, -3, 1, 2, n - 1, n, -n]),
                      rng.choice([0, 0, 1, -1, 2, -2]), rng.choice(['-', '-', 'N', rng.randrange(n) if n else 'N']),
                      rng.choice(SOURCES))


def wgrid_boundary():
    """every guard / comparison of the skeleton at its boundary: size and step around 0, label positions -1 / 0 / n-1 / n,
    left and right floors at 0 / -1, the count / idx_left / size exit bounds, window length = size exactly and off by one"""
    for n in (0, 1, 2, 3, 5):
        for size in (-1, 0, 1, 2, n, n + 1):
            for step in (-1, 0, 1, 2):
                yield wgrid_case(n, size, step, True, 0, 0, 0, '-', 'series')
        for ls in (-n - 1, -n, -2, -1, 0, 1, n - 1, n):
            for sized in (True, False):
                yield wgrid_case(n, 1, 1, sized, ls, 0, 0, '-', 'series')
                yield wgrid_case(n, 2, 1, sized, ls, -1, 0, 'N', 'frame0')
        for ss in (-n - 1, -n, -2, -1, 0, 1, n - 1, n, n + 1):
            for inc in (-1, 0, 1):
                for step in (0, 1, 2):
                    yield wgrid_case(n, 2, step, False, 0, ss, inc, '-', 'series')
                    yield wgrid_case(n, 2, step, True, -1, ss, inc, (n - 1) if n else 'N', 'frame1')
        for inc in (-3, -2, -1):
            yield wgrid_case(n, 3, 0, False, 0, 0, inc, '-', 'series')      # the `size < 0` exit
            yield wgrid_case(n, 3, 1, False, 1, 0, inc, '-', 'series_arr')


def wgrid_exhaustive():
    for n in range(0, 5):
        for size in range(0, 4):
            for step in range(-1, 3):
                for ls in range(-2, 4):
                    for ss in range(-3, 3):
                        for inc in (-1, 0, 1):
                            for sized in (True, False):
                                for wv in ('-', 1 if n > 1 else 'N'):
                                    yield wgrid_case(n, size, step, sized, ls, ss, inc, wv, 'series')


def wgrid_source(c):
    """(source, axis, as_array, positions-of-window function); labels of the windowed axis are the positions themselves"""
    import static_frame as sf
    n = c['n']
    src = c['src']
    if src.startswith('series'):
        s = sf.Series(np.arange(n, dtype=np.int64) * 7, index=sf.Index(np.arange(n, dtype=np.int64)))
        if src == 'series':
            return s, 0, False, lambda w: [int(x) for x in w.index.values]
        return s, 0, True, lambda w: [int(x) // 7 for x in w.tolist()]
    if src == 'frame1':
        f = sf.Frame(np.arange(2 * n, dtype=np.int64).reshape(2, n), index=('p', 'q'), columns=sf.Index(np.arange(n, dtype=np.int64)))
        return f, 1, False, lambda w: [int(x) for x in w.columns.values]
    if src == 'frame0_arr_blocks':
        f = sf.Frame.from_fields([np.arange(n, dtype=np.int64) * 7, np.arange(n, dtype=np.float64)], columns=('a', 'b'),
                                 index=sf.Index(np.arange(n, dtype=np.int64)))
    else:
        f = sf.Frame((np.arange(2 * n, dtype=np.int64).reshape(n, 2) // 2) * 7, index=sf.Index(np.arange(n, dtype=np.int64)), columns=('a', 'b'))
    if src == 'frame0':
        return f, 0, False, lambda w: [int(x) for x in w.index.values]
    return f, 0, True, lambda w: [int(round(float(x))) // 7 for x in w[:, 0].tolist()]


def wgrid_real(c):
    """the real generator; returns [(label position, first position or None, length)] or ('err', category)"""
    from static_frame.core.container_util import axis_window_items
    source, axis, as_array, positions = wgrid_source(c)
    wv = c['wv']
    if wv == '-':
        cb = None
    elif wv == 'N':
        cb = lambda w: True
    else:
        cb = lambda w: int(wv) not in positions(w)
    try:
        out = []
        for lab, w in axis_window_items(source=source, size=c['size'], axis=axis, step=c['step'], window_sized=c['sized'], window_func=None,
                                        window_valid=cb, label_shift=c['ls'], start_shift=c['ss'], size_increment=c['inc'], as_array=as_array):
            pos = positions(w)
            if pos != list(range(pos[0], pos[0] + len(pos))) if pos else False:
                return ('err', f'window positions {pos} are not contiguous')
            out.append((int(lab), pos[0] if pos else None, len(pos)))
        return out
    except RuntimeError as ex:
        return ('err', 'shape') if 'window' in str(ex) else ('err', f'RuntimeError {ex}')
    except Exception as ex:
        return ('err', f'{type(ex).__name__} {ex}')


# ------------------------------------------------------------------ wsem: the two primitives
INDEX_KINDS = ['Index', 'IndexGO', 'IndexAuto', 'IndexDate', 'IndexHierarchy']
EXTRACTS = ['ndarray1', 'ndarray2', 'series_iloc', 'frame_rows', 'frame_cols', 'frame_array_rows', 'frame_array_cols']


def wsem_cases(ns):
    for n in ns:
        for i in range(-n - 2, n + 3):
            for kind in INDEX_KINDS:
                yield {'k': 'wsem', 'sub': 'iloc', 'n': n, 'i': i, 'kind': kind}
        for a in range(-n - 2, n + 3):
            for b in range(-n - 2, n + 3):
                for how in EXTRACTS:
                    yield {'k': 'wsem', 'sub': 'slice', 'n': n, 'a': a, 'b': b, 'how': how}


def build_index(kind, n):
    import static_frame as sf
    if kind == 'Index':
        return sf.Index([f'l{i}' for i in range(n)])
    if kind == 'IndexGO':
        return sf.IndexGO([f'l{i}' for i in range(n)])
    if kind == 'IndexAuto':
        return sf.Series(np.arange(n)).index
    if kind == 'IndexDate':
        return sf.IndexDate([np.datetime64('2020-01-01') + np.timedelta64(i, 'D') for i in range(n)])
    if n == 0:
        return None             # (an IndexHierarchy needs a label to know its depth)
    return sf.IndexHierarchy.from_labels([(i // 2, f'l{i}') for i in range(n)])


def wsem_real(c):
    import static_frame as sf
    from static_frame.core.util import NULL_SLICE
    n = c['n']
    if c['sub'] == 'iloc':
        ix = build_index(c['kind'], n)
        if ix is None:
            return None
        labels = [tuple(x) if isinstance(x, (tuple, np.ndarray)) else x for x in ix]
        try:
            lab = ix.iloc[c['i']]
        except IndexError:
            return 'err lookup'
        lab = tuple(lab) if isinstance(lab, (tuple, np.ndarray)) else lab
        return f'ok {labels.index(lab)}'
    key = slice(c['a'], c['b'])
    how = c['how']
    if how == 'ndarray1':
        pos = [int(x) for x in np.arange(n)[key]]
    elif how == 'ndarray2':
        pos = [int(x) for x in np.arange(2 * n).reshape(n, 2)[key][:, 0] // 2]
    elif how == 'series_iloc':
        pos = [int(x) for x in sf.Series(np.arange(n) * 3, index=np.arange(n))._extract_iloc(key).index.values]
    else:
        f = sf.Frame.from_fields([np.arange(n), np.arange(n, dtype=float), np.arange(n) * 2], columns=(0, 1, 2), index=np.arange(n))
        if how == 'frame_rows':
            pos = [int(x) for x in f._extract(row_key=key).index.values]
        elif how == 'frame_array_rows':
            pos = [int(x) for x in f._extract_array(key)[:, 0]]
        else:
            g = sf.Frame(np.arange(2 * n).reshape(2, n), columns=np.arange(n))
            if how == 'frame_cols':
                pos = [int(x) for x in g._extract(column_key=key).columns.values]
            else:
                if not list(range(n))[key]:
                    return None        # finding F55: _extract_array(NULL_SLICE, <empty slice>) raises StopIteration
                pos = [int(x) for x in g._extract_array(NULL_SLICE, key)[0]]
    if pos != list(range(pos[0], pos[0] + len(pos))) if pos else False:
        return f'positions {pos} not contiguous'
    return (pos[0] if pos else None, len(pos))


# ------------------------------------------------------------------ API used by c13.py
def cases(ctx):
    quick = ctx.tier == 'quick'
    rng = ctx.rng('wgrid')
    yield from wgrid_boundary()
    for _ in range(1500 if quick else 20000):
        yield wgrid_random(rng)
    yield from wsem_cases((0, 1, 3) if quick else (0, 1, 2, 3, 4, 5))
    yield {'k': 'wsem', 'sub': 'defaults'}
    if not quick:
        yield from wgrid_exhaustive()


def search(ctx):
    rng = ctx.rng('wgrid-search')
    for _ in range(6000):
        yield wgrid_random(rng)


def model_lines(c):
    if c['k'] == 'wgrid':
        return [items_line(c['n'], c['size'], c['step'], c['sized'], c['ls'], c['ss'], c['inc'], c['wv'])]
    if c['sub'] == 'iloc':
        return [f'wsem.iloc {c["n"]} {c["i"]}']
    if c['sub'] == 'defaults':
        return ['wgen.defaults']
    return [f'wsem.slice {c["a"]} {c["b"]} {c["n"]}']


def evaluate(ctx, c, outs):
    if c['k'] == 'wgrid':
        ctx.count('wgrid_cases')
        ctx.count('wgrid_src_' + c['src'])
        real = wgrid_real(c)
        where = f'wgrid {c["src"]} n={c["n"]} size={c["size"]} step={c["step"]} sized={c["sized"]} label_shift={c["ls"]} start_shift={c["ss"]} ' \
                f'size_increment={c["inc"]} window_valid={c["wv"]}'
        if isinstance(real, tuple):
            ctx.count('wgrid_guard_error' if real[1] == 'shape' else 'wgrid_other_error')
            if (c['size'] <= 0 or c['step'] < 0) != (real[1] == 'shape'):
                return [Failure('oracle', f'{where}: RuntimeError exactly for size <= 0 or step < 0 expected, got {real}', c)]
        else:
            ctx.count(f'wgrid_yielded_{min(len(real), 4)}')
            if any(w[2] == 0 for w in real):
                ctx.count('wgrid_empty_window')
        return check_gen(where, c, outs[0], real) if outs else []
    ctx.count('wsem_' + c['sub'])
    if c['sub'] == 'defaults':
        import inspect
        from static_frame.core.container_util import axis_window_items
        d = {k: p.default for k, p in inspect.signature(axis_window_items).parameters.items()}
        real = f'ok (({d["step"]}) {int(d["window_sized"])} ({d["label_shift"]} {d["start_shift"]} {d["size_increment"]}) {int(d["window_valid"] is None)})'
        if outs and outs[0] != real:
            return [Failure('corr', f'translated defaults {outs[0]} vs real {real}', c)]
        return []
    real = wsem_real(c)
    if real is None or not outs:
        return []
    if c['sub'] == 'iloc':
        if outs[0] != real:
            return [Failure('corr', f'WindowSem.ilocPos {c["n"]} {c["i"]} = {outs[0]}, {c["kind"]}.iloc[{c["i"]}] on {c["n"]} labels: {real}', c)]
        return []
    st, val = parse_answer(outs[0])
    got = (int(val[0]), int(val[1])) if st == 'ok' else None
    if isinstance(real, str) or got is None or got[1] != real[1] or (real[0] is not None and got[0] != real[0]):
        return [Failure('corr', f'WindowSem.sliceWindow {c["a"]} {c["b"]} {c["n"]} = {outs[0]}, {c["how"]} on slice({c["a"]}, {c["b"]}): (first, length) = {real}', c)]
    return []


def nontrivial(c):
    return c.get('n', 1) >= 1
