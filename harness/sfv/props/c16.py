"""C16 - single-table export/import round trips reproduce the Frame."""
from __future__ import annotations

import csv
import io
import itertools
import json
import math
import os
import pickle
import tempfile

import numpy as np

from check import Failure
from sfv.canon import tok, untok, dtype_tok

TARGETS = ['SFModel.Props.C16']
THEOREMS = [
    'SF.C16.csv_roundtrip', 'SF.C16.unquoted_specials_do_not_roundtrip', 'SF.C16.rejoin_roundtrip',
    'SF.C16.rejoin_counterexamples', 'SF.C16.tsv_roundtrip', 'SF.C16.tsv_tab_cell_counterexample',
    'SF.C16.importTsvOld_quote_free_roundtrip', 'SF.C16.importTsvOld_quote_counterexample',
    'SF.C16.storefilter_inverse', 'SF.C16.storefilter_default_inverse', 'SF.C16.storefilter_default_counterexamples',
    'SF.C16.storeFilterWithNat_wellFormed',
    'SF.C16.records_layout_inverse', 'SF.C16.layout_depth_mismatch_counterexample',
]
PARTIAL = []
CORR_ONLY = [
    'np.genfromtxt type inference (a parameter on the unambiguous domain), apex_to_name; StoreFilter with value_format_* options and its array forms (the default table is modelled and proved)',
    'to_pairs / from_items / from_records / from_dict_records / from_records_items and pickle round trips (oracle only)',
    'file encodings and the splitting of a file into physical lines (cells are free of CR/LF)',
]
RULE = ('(i) rows of fields over the alphabet {delimiter, quote, space, tab, digits, letters, -, .} (thorough: every row of <=3 fields of '
        'length <=3 over a 5-symbol alphabet) written by csv.writer / the model and parsed by csv.reader / the model, plus raw lines '
        '(malformed quoting, CR/LF) through both parsers and through the tab re-join + genfromtxt splitter; (ii) Frames of bool/int/float/str '
        'columns (random block layouts), index depth 1..3, columns depth 1..2, str or int labels, named or unnamed axes, cell texts '
        'restricted to the unambiguous domain, through to_csv/to_tsv/to_delimited -> from_csv/from_tsv/from_delimited with the inverse '
        'configuration (include_index/include_columns/depths/name levels, quote char, store filter, StringIO or file); (iii) to_pairs + '
        'from_items/from_dict/from_records/from_dict_records/from_records_items and pickle; non-trivial = a row with >=2 fields or a '
        'frame with >=2 cells; distinct = distinct canonical case JSON')
TRUSTED = ['the Python reference for cell texts (str(int), repr-shortest float, True/False, NaN -> empty) used to feed the layout model']
ASSUMPTIONS = ['cells and labels contain no CR/LF/tab and no leading/trailing whitespace; str cells/labels are not number-, bool- or missing-looking in the sense of the generator predicate `unambiguous_*` (the property statement restricts to unambiguous texts)',
               'the CPython csv module is the reference for the Lean writer/parser (compared on every run)']
BUDGET = {'quick': 75, 'thorough': 800}
SEARCH_BUDGET = {'quick': 30, 'thorough': 200}

STORE_TOKENS = {'', 'nan', 'NaN', 'NAN', 'NULL', '#N/A', 'None', 'inf', '-inf'}

# ------------------------------------------------------------------ text predicates


def numericish(s):
    """Would numpy's StringConverter read this text as bool / int / float / complex?"""
    if s.upper() in ('TRUE', 'FALSE'):
        return True
    for conv in (int, float, complex, np.longdouble):   # the converter ladder of numpy.lib._iotools.StringConverter
        try:
            conv(s)
            return True
        except (ValueError, TypeError):
            pass
    return False


def intish(s):
    try:
        int(s)
        return True
    except ValueError:
        return False


def cell_ok(s, allow_empty=False):
    """Per-cell part of the unambiguity predicate (decidable): no tab/CR/LF, no edge whitespace, not a
    token the StoreFilter decodes to NaN/None/inf."""
    if s == '':
        return allow_empty
    if any(ch in s for ch in '\t\r\n\x00'):
        return False
    if s != s.strip():
        return False
    if s in STORE_TOKENS:
        return False
    return True


def column_ok(cells, allow_empty=False):
    """A str column keeps its type iff some cell is not number-looking; additionally (NumPy 2.x
    StringConverter defect, finding F43) no int-looking cell may precede the first textual cell."""
    if not all(cell_ok(c, allow_empty) for c in cells):
        return False
    if not cells:
        return True
    return any(not numericish(c) and c != '' for c in cells)


def f31_trigger(cells):
    """int-looking text before the first textual cell of a str column."""
    for c in cells:
        if c == '':
            continue
        if not numericish(c):
            return False
        if intish(c):
            return True
    return False


ALPHA_WORD = 'abxyzQ'


def rand_text(rng, specials):
    n = rng.choice([1, 1, 2, 2, 3, 4, 6])
    pool = ALPHA_WORD * 2 + '0123456789' + ' ' * 3 + '-.' + specials * 3
    return ''.join(rng.choice(pool) for _ in range(n))


def rand_str_cell(rng, specials, textual=False):
    for _ in range(200):
        s = rand_text(rng, specials)
        if cell_ok(s) and (not textual or not numericish(s)):
            return s
    return 'x'


def rand_str_column(rng, n, specials, allow_f31=False):
    for _ in range(100):
        cells = [rand_str_cell(rng, specials) for _ in range(n)]
        if n and rng.random() < 0.15:
            cells[rng.randrange(n)] = rng.choice(['12', '-3', '1.5', '007', '1e3', 'True', '-.5', '+4'])
        if column_ok(cells) and (allow_f31 or not f31_trigger(cells)):
            return cells
    return [f'x{i}' for i in range(n)]


INT_POOL = [0, 1, -1, 2, 7, -42, 100, 2**31, 2**53 + 1, -2**63, 2**63 - 1, 123456789012]
FLOAT_POOL = [0.0, -0.0, 1.0, -1.0, 0.5, 2.5, -3.25, 1e10, 1e-10, 1.7976931348623157e308, 5e-324, 0.1, 3.0, -32500000000.0,
              float('inf'), float('-inf')]


def rand_column(rng, dt, n, specials):
    if dt == 'int':
        return [tok(rng.choice(INT_POOL) if rng.random() < 0.5 else rng.randint(-99, 99)) for _ in range(n)]
    if dt == 'bool':
        return [tok(bool(rng.randint(0, 1))) for _ in range(n)]
    if dt == 'float':
        vals = [rng.choice(FLOAT_POOL) if rng.random() < 0.6 else round(rng.uniform(-100, 100), rng.randint(0, 6)) for _ in range(n)]
        for i in range(n):
            if rng.random() < 0.2:
                vals[i] = float('nan')
        if n and all(isinstance(v, float) and math.isnan(v) for v in vals):
            vals[0] = 1.5      # an all-missing column has no type in the text
        return [tok(v) for v in vals]
    return [tok(s) for s in rand_str_column(rng, n, specials)]


STR_LABELS = ['a', 'b', 'cd', 'x y', 'k9', 'A-1', 'v.2', 'zz', 'Q', 'e5x', 'ab', 'x-', 'b.b']
SPECIAL_LABELS = {',': ['x,y', ',q'], '|': ['p|q'], ';': ['s;t'], '"': ['q"r', '"w"'], "'": ["it's"], ' ': ['m n']}


def label_pool(rng, kind, specials, k):
    if kind == 'int':
        pool = rng.sample([0, 1, 2, 3, 5, 8, 10, 21, -4, 100, 2020], k)
        return [tok(v) for v in pool]
    pool = list(STR_LABELS)
    for ch in specials:
        pool += SPECIAL_LABELS.get(ch, [])
    rng.shuffle(pool)
    # a str level is read back as text iff some label is textual: all pool members are
    return [tok(s) for s in pool[:k]]


def rand_axis(rng, n, depth, specials, named):
    """`depth` levels of n labels each (tokens), unique as tuples, tree form for depth > 1."""
    kinds = [rng.choice(['str', 'str', 'int']) for _ in range(depth)]
    if depth == 1:
        pool = label_pool(rng, kinds[0], specials, min(max(n, 1), 11))
        while len(pool) < n:
            pool.append(tok(f'L{len(pool)}') if kinds[0] == 'str' else tok(1000 + len(pool)))
        levels = [pool[:n]]
    else:
        pools = [label_pool(rng, k, specials, rng.randint(1, 3) if i < depth - 1 else rng.randint(2, 4)) for i, k in enumerate(kinds)]
        combos = list(itertools.product(*[range(len(p)) for p in pools]))
        if len(combos) < n:
            pools[-1] = pools[-1] + [tok(f'M{i}') if kinds[-1] == 'str' else tok(500 + i) for i in range(n)]
            combos = list(itertools.product(*[range(len(p)) for p in pools]))
        chosen = sorted(rng.sample(combos, n))
        levels = [[pools[lv][c[lv]] for c in chosen] for lv in range(depth)]
    names = None
    if named:
        names = [tok(rng.choice(['ix', 'key', 'n 1', 'lvl', 'the,name', 'u'])) + '' for _ in range(depth)]
        names = [tok(untok(nm) + str(i)) for i, nm in enumerate(names)]
    return {'depth': depth, 'levels': levels, 'names': names}


def rand_frame_spec(rng, specials, max_rows=4, max_cols=4, min_rows=0):
    n = rng.choice([r for r in [0, 1, 1, 2, 2, 3, 3, 4] if min_rows <= r <= max_rows])
    m = rng.randint(1, max_cols)
    idepth = rng.choice([1, 1, 2, 3])
    cdepth = rng.choice([1, 1, 2])
    cols = []
    for _ in range(m):
        dt = rng.choice(['int', 'float', 'bool', 'str', 'str'])
        cols.append({'dt': dt, 'vals': rand_column(rng, dt, n, specials)})
    spec = {'rows': n, 'cols': cols,
            'index': rand_axis(rng, n, idepth, specials, rng.random() < 0.6),
            'columns': rand_axis(rng, m, cdepth, specials, rng.random() < 0.4),
            'name': tok(rng.choice([None, 'nm', 3])),
            'consolidate': rng.random() < 0.4}
    return spec


NP_DT = {'int': np.int64, 'float': np.float64, 'bool': np.bool_}


def build_axis(ax, cls_flat, cls_h):
    depth = ax['depth']
    if depth == 1:
        labels = [untok(t) for t in ax['levels'][0]]
        name = untok(ax['names'][0]) if ax['names'] else None
        if labels and isinstance(labels[0], str):
            return cls_flat(np.array(labels, dtype=str), name=name)
        return cls_flat(np.array(labels, dtype=np.int64) if labels else (), name=name)
    tuples = list(zip(*[[untok(t) for t in lv] for lv in ax['levels']]))
    name = tuple(untok(t) for t in ax['names']) if ax['names'] else None
    return cls_h.from_labels(tuples, name=name) if tuples else None


def build_frame(spec):
    import static_frame as sf
    arrays = []
    for c in spec['cols']:
        vals = [untok(t) for t in c['vals']]
        if c['dt'] == 'obj':
            a = np.empty(len(vals), dtype=object)
            for i, v in enumerate(vals):
                a[i] = v
        elif c['dt'] == 'str':
            a = np.array(vals, dtype=str) if vals else np.array([], dtype='<U1')
        else:
            a = np.array(vals, dtype=NP_DT[c['dt']])
        a.flags.writeable = False
        arrays.append(a)
    blocks = arrays
    if spec.get('consolidate'):
        blocks = list(sf.TypeBlocks.consolidate_blocks(arrays))
    index = build_axis(spec['index'], sf.Index, sf.IndexHierarchy)
    columns = build_axis(spec['columns'], sf.Index, sf.IndexHierarchy)
    if index is None or columns is None:
        return None
    return sf.Frame(sf.TypeBlocks.from_blocks(blocks), index=index, columns=columns, name=untok(spec['name']), own_data=True)


# ------------------------------------------------------------------ reference texts (independent of _to_str_records)

def cell_text(t, store_filter=True):
    v = untok(t)
    if isinstance(v, bool):
        return 'True' if v else 'False'
    if isinstance(v, int):
        return str(v)
    if isinstance(v, float):
        if math.isnan(v):
            return '' if store_filter else 'nan'
        if math.isinf(v):
            return 'inf' if v > 0 else '-inf'
        return repr(v)
    if v is None:
        return 'None'
    return str(v)


def ref_table(spec, store_filter=True):
    n, m = spec['rows'], len(spec['cols'])
    ix, cx = spec['index'], spec['columns']
    names = [cell_text(t) for t in ix['names']] if ix['names'] else (['__index0__'] if ix['depth'] == 1 else [f'__index{i}__' for i in range(ix['depth'])])
    columns = [[cell_text(t, store_filter) for t in lv] for lv in cx['levels']]
    index = [[cell_text(ix['levels'][lv][i], store_filter) for lv in range(ix['depth'])] for i in range(n)]
    cells = [[cell_text(spec['cols'][j]['vals'][i], store_filter) for j in range(m)] for i in range(n)]
    return names, columns, index, cells


def ref_records(spec, include_index, include_columns, names_mode, store_filter=True):
    """Python reference of the record layout (include_index_name xor include_columns_name xor neither)."""
    names, columns, index, cells = ref_table(spec, store_filter)
    cx = spec['columns']
    cnames = [cell_text(t) for t in cx['names']] if cx['names'] else (['__index0__'] if cx['depth'] == 1 else [f'__index{i}__' for i in range(cx['depth'])])
    idepth = spec['index']['depth']
    rows = []
    if include_columns:
        for r, crow in enumerate(columns):
            row = []
            if include_index:
                if names_mode == 'index':
                    row += [nm if r == 0 else '' for nm in names]
                elif names_mode == 'columns':
                    row += [cnames[r] if k == 0 else '' for k in range(idepth)]
                else:
                    row += [''] * idepth
            rows.append(row + crow)
    for ixrow, crow in zip(index, cells):
        rows.append((ixrow if include_index else []) + crow)
    return rows


# ------------------------------------------------------------------ wire helpers

def qatom(s):
    return '"' + s.replace('\\', '\\\\').replace('"', '\\"').replace('\n', '\\n').replace('\t', '\\t').replace('\r', '\\r') + '"'


def wire_texts(fs):
    return '(' + ' '.join(qatom(f) for f in fs) + ')'


def wire_rows(rows):
    return '(' + ' '.join(wire_texts(r) for r in rows) + ')'


def wire_or_err(v):
    return f'err:{v[1]}' if isinstance(v, tuple) else wire_texts(v)


def block_texts(alpha, maxlen):
    return [''.join(p) for ln in range(0, maxlen + 1) for p in itertools.product(alpha, repeat=ln)]


def block_rows(c):
    """Rows number start..start+count-1 of the enumeration of all rows of exactly nf fields over the texts."""
    texts = block_texts(c['alpha'], c['maxlen'])
    base, nf = len(texts), c['nf']
    out = []
    for i in range(c['start'], min(c['start'] + c['count'], base ** nf)):
        fs = []
        for _ in range(nf):
            i, r = divmod(i, base)
            fs.append(texts[r])
        out.append(fs[::-1])
    return out


def parse_qatoms(s):
    """Parse a sequence of quoted atoms / parens into nested lists of str."""
    pos = 0
    n = len(s)

    def parse():
        nonlocal pos
        out = []
        while pos < n:
            ch = s[pos]
            if ch == ' ':
                pos += 1
            elif ch == '(':
                pos += 1
                out.append(parse())
            elif ch == ')':
                pos += 1
                return out
            elif ch == '"':
                pos += 1
                buf = []
                while s[pos] != '"':
                    if s[pos] == '\\':
                        pos += 1
                        buf.append({'n': '\n', 't': '\t', 'r': '\r', '"': '"', '\\': '\\'}[s[pos]])
                    else:
                        buf.append(s[pos])
                    pos += 1
                pos += 1
                out.append(''.join(buf))
            else:
                raise ValueError(f'bad answer {s!r} at {pos}')
        return out
    return parse()


def parse_answer(out):
    if out.startswith('err'):
        return ('err', out.split()[1])
    if not out.startswith('ok'):
        return ('bad', out)
    r = parse_qatoms(out[3:])
    return r[0] if r else None


def real_write(d, q, fs):
    s = io.StringIO()
    csv.writer(s, delimiter=d, quotechar=q, lineterminator='\n', quoting=csv.QUOTE_MINIMAL, doublequote=True, escapechar=None).writerow(fs)
    return s.getvalue()


def real_parse(d, q, line):
    try:
        rows = list(csv.reader([line], delimiter=d, quotechar=q))
    except csv.Error:
        return ('err', 'value')
    return rows[0] if rows else []


def real_split(line):
    from numpy.lib._iotools import LineSplitter
    return list(LineSplitter('\t', comments=None, autostrip=False, encoding=None)(line))


# ------------------------------------------------------------------ cases

DIALECTS = [(',', '"'), (',', '"'), ('\t', '"'), ('|', '"'), (';', "'"), (',', "'"), (' ', '"'), ('|', '$')]


def row_alphabet(d, q):
    return [d, q, ' ', '\t', '0', '7', 'a', 'b', '-', '.']


def nontrivial(c):
    if c['k'] == 'nonecol':
        return True
    if c['k'] == 'sf':
        return len(c['cells']) >= 2
    if c['k'] == 'row':
        return len(c['fs']) >= 2
    if c['k'] == 'rowblock':
        return c['nf'] >= 2
    if c['k'] == 'line':
        return len(c['line']) >= 2
    return c['spec']['rows'] * len(c['spec']['cols']) >= 2


def frame_cfg(rng, spec, fmt=None):
    fmt = fmt or rng.choice(['csv', 'csv', 'tsv', 'delim', 'delim'])
    d, q = {'csv': (',', '"'), 'tsv': ('\t', '"')}.get(fmt) or rng.choice([('|', '"'), (';', '"'), ('|', "'"), (' ', '"'), (';', "'")])
    if fmt == 'csv' and rng.random() < 0.2:
        q = "'"
    include_index = rng.random() < 0.85
    include_columns = rng.random() < 0.85
    names = 'none'
    if include_index and include_columns:
        if spec['index']['names'] and rng.random() < 0.7:
            names = 'index'
        elif spec['columns']['names'] and rng.random() < 0.7:
            names = 'columns'
    return {'fmt': fmt, 'd': d, 'q': q, 'include_index': include_index, 'include_columns': include_columns,
            'names': names, 'store_filter': 'default', 'io': rng.choice(['stringio', 'stringio', 'file'])}


def specials_for(rng):
    return ''.join(rng.sample([',', '|', ';', '"', "'", ' '], rng.randint(2, 4)))


def cases(ctx):
    rng = ctx.rng('main')
    quick = ctx.tier == 'quick'
    # (i) rows and raw lines
    if quick:
        for _ in range(4000):
            d, q = rng.choice(DIALECTS)
            al = row_alphabet(d, q) + (['\n', '\r'] if rng.random() < 0.15 else [])   # CR/LF: writer rule only
            nf = rng.choice([0, 1, 1, 2, 2, 3, 4])
            fs = [''.join(rng.choice(al) for _ in range(rng.choice([0, 0, 1, 1, 2, 3, 4]))) for _ in range(nf)]
            yield {'k': 'row', 'd': d, 'q': q, 'fs': fs}
        for _ in range(1500):
            d, q = rng.choice(DIALECTS)
            al = row_alphabet(d, q) + [q, q, d, '\n', '\r']
            line = ''.join(rng.choice(al) for _ in range(rng.randint(0, 8))) + rng.choice(['\n', '\n', '', '\r\n', '\r'])
            yield {'k': 'line', 'd': d, 'q': q, 'line': line}
    else:
        for _ in range(20000):
            d, q = rng.choice(DIALECTS)
            al = row_alphabet(d, q) + (['\n', '\r'] if rng.random() < 0.15 else [])
            fs = [''.join(rng.choice(al) for _ in range(rng.choice([0, 1, 2, 3, 5]))) for _ in range(rng.choice([1, 2, 3, 4, 6]))]
            yield {'k': 'row', 'd': d, 'q': q, 'fs': fs}
        for d, q in [(',', '"'), ('\t', '"'), ('|', "'")]:
            al2 = [d, q, 'a', '\n', '\r', ' ']
            for ln in range(0, 6):
                for p in itertools.product(al2, repeat=ln):
                    yield {'k': 'line', 'd': d, 'q': q, 'line': ''.join(p)}
    # StoreFilter encode / decode table: every special, every decode token, plain values, random texts
    yield {'k': 'sf', 'cells': SF_SPECIALS + [qatom(t) for t in SF_TEXTS] + ['p:' + t for t in SF_PLAIN]}
    for _ in range(20 if quick else 300):
        cells = [rng.choice(SF_SPECIALS + ['p:' + t for t in SF_PLAIN]) if rng.random() < 0.4 else
                 qatom(rng.choice(SF_TEXTS) if rng.random() < 0.5 else rand_text(rng, ',"')) for _ in range(rng.randint(1, 6))]
        yield {'k': 'sf', 'cells': cells}
    # a str column with missing values (None): object dtype, exported as the token `None`, decoded back by the StoreFilter
    for _ in range(150 if quick else 2500):
        n = rng.randint(2, 5)
        words = [''.join(rng.choice(ALPHA_WORD) for _ in range(rng.choice([1, 2, 2, 3, 3, 4, 4, 5, 7]))) for _ in range(n)]
        holes = rng.sample(range(n), rng.randint(1, n - 1))
        yield {'k': 'nonecol', 'words': words, 'holes': sorted(holes), 'd': rng.choice([',', '\t', '|', ';']),
               'extra': rng.choice(['int', 'float', 'none']), 'pos': rng.randint(0, 1)}
    # (ii) frames through delimited text, (iii) structural routes
    nframes = 900 if quick else 8000
    for i in range(nframes):
        specials = specials_for(rng)
        spec = rand_frame_spec(rng, specials)
        cfg = frame_cfg(rng, spec)
        yield {'k': 'frame', 'spec': spec, 'cfg': cfg}
        if i % 3 == 0:
            yield {'k': 'struct', 'spec': spec, 'route': rng.choice(STRUCT_ROUTES)}
        if i % 6 == 1 and spec['rows'] >= 2:
            # one column of mixed Python values (object dtype): texts that LOOK like numbers next to numbers, a missing float or
            # None at the head - what a records / pairs export hands to the per-column array builder of the import
            import copy
            spec2 = copy.deepcopy(spec)
            j = rng.randrange(len(spec2['cols']))
            # floats, texts and None only: Booleans / ints next to floats are merged by NumPy's own rules (finding F25 of C07)
            pool = ['s:"12"', 's:"-3"', 's:" 7"', 's:"1e3"', 's:"x"', 's:""', 's:"nan"', 'f:2.5', 'N', 'nan', 's:"True"']
            head = rng.choice(['nan', 'nan', 'f:1.5', 'N', 's:"12"'])
            spec2['cols'][j] = {'dt': 'obj', 'vals': [head] + [rng.choice(pool[:4] if rng.random() < 0.5 else pool) for _ in range(spec2['rows'] - 1)]}
            spec2['consolidate'] = False
            yield {'k': 'struct', 'spec': spec2, 'route': rng.choice(STRUCT_ROUTES)}
            yield {'k': 'struct', 'spec': spec2, 'route': 'pickle', 'proto': rng.choice([2, 4, 5, 5])}
    # boundary shapes and special configurations
    for i in range(120 if quick else 600):
        specials = specials_for(rng)
        spec = rand_frame_spec(rng, specials, min_rows=1)
        cfg = frame_cfg(rng, spec)
        if cfg['include_index'] and spec['rows'] and i % 2 == 0:
            # store_filter disabled on both sides: empty strings are representable
            cfg['store_filter'] = 'none'
            for c in spec['cols']:
                if c['dt'] == 'str' and rng.random() < 0.7:
                    j = rng.randrange(spec['rows'])
                    cells = [untok(t) for t in c['vals']]
                    cells[j] = ''
                    if column_ok(cells, allow_empty=True) and not f31_trigger(cells):
                        c['vals'] = [tok(s) for s in cells]
        yield {'k': 'frame', 'spec': spec, 'cfg': cfg}
    for i in range(12 if quick else 60):
        # known-defect probes (kept rare): int-looking text first in a str column
        specials = specials_for(rng)
        spec = rand_frame_spec(rng, specials, min_rows=2)
        strs = [c for c in spec['cols'] if c['dt'] == 'str']
        if strs:
            cells = [untok(t) for t in strs[0]['vals']]
            cells[0] = rng.choice(['12', '-3', '007'])
            cells[1] = 'x' + cells[1] if numericish(cells[1]) else cells[1]
            strs[0]['vals'] = [tok(s) for s in cells]
        yield {'k': 'frame', 'spec': spec, 'cfg': frame_cfg(rng, spec)}
    if not quick:
        # exhaustive scope: every row of <= 3 fields of length <= 3 over {delimiter, quote, space, a, 1} for the CSV
        # dialect; length <= 2 for the tab and pipe dialects (blocks of rows: one case = up to 250 rows)
        for (d, q), maxlen in (((',', '"'), 3), (('\t', '"'), 2), (('|', "'"), 2)):
            alpha = d + q + ' a1'
            base = len(block_texts(alpha, maxlen))
            for nf in (0, 1, 2, 3):
                total = base ** nf
                for start in range(0, total, 250):
                    yield {'k': 'rowblock', 'd': d, 'q': q, 'alpha': alpha, 'maxlen': maxlen, 'nf': nf, 'start': start, 'count': 250}


STRUCT_ROUTES = ['pairs0_from_items', 'pairs0_from_dict', 'pairs1_from_records', 'pairs1_from_dict_records',
                 'pairs1_from_records_items', 'pickle', 'pickle', 'deepcopy']


def search(ctx):
    rng = ctx.rng('search')
    for _ in range(3000):
        specials = specials_for(rng)
        spec = rand_frame_spec(rng, specials, max_rows=3, max_cols=3)
        yield {'k': 'frame', 'spec': spec, 'cfg': frame_cfg(rng, spec)}


# ------------------------------------------------------------------ model lines

def model_lines(c):
    if c['k'] == 'nonecol':
        return []
    if c['k'] == 'row':
        return [f'csv.rt {qatom(c["d"])} {qatom(c["q"])} {wire_texts(c["fs"])}']
    if c['k'] == 'rowblock':
        d, q = qatom(c['d']), qatom(c['q'])
        return [f'csv.rt {d} {q} {wire_texts(fs)}' for fs in block_rows(c)]
    if c['k'] == 'line':
        d, q, line = c['d'], c['q'], c['line']
        return [f'csv.parse {qatom(d)} {qatom(q)} {qatom(line)}',
                f'csv.importtsv {qatom(q)} {qatom(line)}' if d == '\t' else f'csv.import {qatom(d)} {qatom(q)} {qatom(line)}']
    if c['k'] == 'sf':
        return [f'csv.sfenc {w}' for w in c['cells']] + [f'csv.sfdec {w}' for w in c['cells']]
    if c['k'] == 'frame':
        spec, cfg = c['spec'], c['cfg']
        if cfg['names'] == 'columns':
            return []    # the layout model covers include_index_name (the default) and no-name layouts
        sfilt = cfg['store_filter'] == 'default'
        names, columns, index, cells = ref_table(spec, sfilt)
        if cfg['names'] == 'none':
            names = [''] * len(names)
        ii, ic = int(cfg['include_index']), int(cfg['include_columns'])
        rows = ref_records(spec, cfg['include_index'], cfg['include_columns'], cfg['names'], sfilt)
        idepth = spec['index']['depth'] if cfg['include_index'] else 0
        cdepth = spec['columns']['depth'] if cfg['include_columns'] else 0
        return [f'csv.layout {ii} {ic} {wire_texts(names)} {wire_rows(columns)} {wire_rows(index)} {wire_rows(cells)}',
                f'csv.unlayout {idepth} {cdepth} {wire_rows(rows)}'] + \
               [f'csv.write {qatom(cfg["d"])} {qatom(cfg["q"])} {wire_texts(r)}' for r in rows]
    return []


# ------------------------------------------------------------------ evaluation

def evaluate(ctx, c, outs):
    if c['k'] == 'row':
        return eval_row(ctx, c, outs)
    if c['k'] == 'rowblock':
        fails = []
        for i, fs in enumerate(block_rows(c)):
            fails += eval_row(ctx, {'k': 'row', 'd': c['d'], 'q': c['q'], 'fs': fs}, outs[i:i + 1])
            if len(fails) > 5:
                break
        return fails
    if c['k'] == 'line':
        return eval_line(ctx, c, outs)
    if c['k'] == 'frame':
        return eval_frame(ctx, c, outs)
    if c['k'] == 'sf':
        return eval_sf(ctx, c, outs)
    if c['k'] == 'nonecol':
        return eval_nonecol(ctx, c)
    return eval_struct(ctx, c)


def eval_nonecol(ctx, c):
    """missing values in a str column: None cells are written as the token `None` and must come back as None,
    the other cells as the same texts, whatever the width of the texts around them"""
    import io
    import static_frame as sf
    fails = []
    n = len(c['words'])
    vals = [None if i in c['holes'] else w for i, w in enumerate(c['words'])]
    col = np.array(vals, dtype=object)
    items = [('s', col)]
    if c['extra'] == 'int':
        items.insert(c['pos'], ('n', np.arange(n) * 3 - 2))
    elif c['extra'] == 'float':
        items.insert(c['pos'], ('n', np.arange(n) * 1.5))
    else:
        items.insert(c['pos'], ('t', np.array([f'w{i}x' for i in range(n)])))
    f = sf.Frame.from_items(items, index=[f'r{i}' for i in range(n)])
    ctx.count('nonecol_frames')
    ctx.count(f'nonecol_maxlen_{min(max(len(w) for i, w in enumerate(c["words"]) if i not in c["holes"]), 5)}')
    buf = io.StringIO()
    try:
        f.to_delimited(buf, delimiter=c['d'])
        buf.seek(0)
        g = sf.Frame.from_delimited(buf, delimiter=c['d'], index_depth=1)
    except Exception as ex:
        return [Failure('oracle', f'str column with None {vals} (delimiter {c["d"]!r}): round trip raised {type(ex).__name__}: {ex}', c)]
    back = g['s'].values
    if back.dtype.kind != 'O' or back.tolist() != vals:
        fails.append(Failure('oracle', f'str column with None {vals} (delimiter {c["d"]!r}, next to a {c["extra"]} column) came back as {back!r}', c))
    other = [k for k, _ in items if k != 's'][0]
    if g[other].values.dtype.kind != f[other].values.dtype.kind or g.index.values.dtype.kind != f.index.values.dtype.kind:
        fails.append(Failure('oracle', f'frame with a None-holding str column (delimiter {c["d"]!r}): the kind of column {other!r} / of the index changed from '
                                       f'{f[other].values.dtype.kind}/{f.index.values.dtype.kind} to {g[other].values.dtype.kind}/{g.index.values.dtype.kind} '
                                       f'although they hold no missing value', c))
    if g[other].values.tolist() != f[other].values.tolist() or g.index.values.tolist() != f.index.values.tolist():
        fails.append(Failure('oracle', f'frame with a None-holding str column: column {other!r} / index came back as {g[other].values.tolist()} / {g.index.values.tolist()}', c))
    return fails


def clean_field(f):
    return '\n' not in f and '\r' not in f


def eval_row(ctx, c, outs):
    fails = []
    d, q, fs = c['d'], c['q'], c['fs']
    line = real_write(d, q, fs)
    back = real_parse(d, q, line)
    ctx.count('rows')
    if any(ch in f for f in fs for ch in (d, q)):
        ctx.count('rows_with_quoted_field')
    if fs == ['']:
        ctx.count('rows_lone_empty_field')
    # oracle (CPython csv module itself): the round trip of the theorem
    if all(clean_field(f) for f in fs) and back != fs:
        fails.append(Failure('oracle', f'csv.reader(csv.writer({fs!r})) with delimiter {d!r} quote {q!r} gave {back!r}', c))
    # from_delimited (every delimiter, tab included): csv.reader row -> tab join -> genfromtxt splitter
    imp = real_split('\t'.join(back)) if isinstance(back, list) else back
    if outs:
        expect = 'ok (' + qatom(line) + ' ' + wire_or_err(back) + ' ' + wire_or_err(imp) + ')'
        if outs[0] != expect:
            fails.append(Failure('corr', f'row {fs!r} d={d!r} q={q!r}: model (line, parsed, imported) {outs[0]} vs csv.writer/csv.reader/genfromtxt splitter {expect}', c))
    # the rejoin theorem on the real pipeline pieces
    hyp = (fs and fs != [''] and all(clean_field(f) and '\t' not in f and not f.startswith(' ') and not f.endswith(' ') for f in fs))
    if hyp:
        ctx.count('rows_rejoin_hypotheses_hold')
        if d == '\t':
            ctx.count('rows_tsv_hypotheses_hold')
            if any(q in f for f in fs):
                ctx.count('rows_tsv_with_quote_char')
        if imp != fs:
            fails.append(Failure('oracle', f'reader + tab re-join + genfromtxt splitter changed the row {fs!r} -> {imp!r} (d={d!r} q={q!r})', c))
    return fails


# ---- StoreFilter table -------------------------------------------------------------------------

SF_SPECIALS = ['N', 'nan', 'nat', 'pinf', 'ninf']
SF_TEXTS = ['', 'nan', 'NaN', 'NAN', 'NULL', '#N/A', 'None', 'inf', '-inf', 'NaT', 'none', 'Inf', 'x', 'a b', '0', '1.5', 'True', ' ', 'nan ']
SF_PLAIN = ['i:0', 'i:-7', 'f:1.5', 'f:-0.0', 'b:1', 'b:0', 'i:9007199254740993']


def sf_from_wire(w):
    if w == 'N':
        return None
    if w == 'nan':
        return float('nan')
    if w == 'nat':
        return np.datetime64('NaT')
    if w == 'pinf':
        return float('inf')
    if w == 'ninf':
        return float('-inf')
    if w.startswith('p:'):
        return untok(w[2:])
    return parse_qatoms(w)[0]


def sf_to_wire(v):
    if v is None:
        return 'N'
    if isinstance(v, (str, np.str_)):
        return qatom(str(v))
    if isinstance(v, (np.datetime64,)) and np.isnat(v):
        return 'nat'
    if isinstance(v, (float, np.floating)):
        if math.isnan(v):
            return 'nan'
        if math.isinf(v):
            return 'pinf' if v > 0 else 'ninf'
    return 'p:' + tok(v)


def eval_sf(ctx, c, outs):
    from static_frame.core.store_filter import STORE_FILTER_DEFAULT as SFD
    fails = []
    cells = c['cells']
    vals = [sf_from_wire(w) for w in cells]
    ctx.count('storefilter_cells', len(cells))
    enc = [sf_to_wire(SFD.from_type_filter_element(v)) for v in vals]
    dec = [sf_to_wire(SFD.to_type_filter_element(v)) for v in vals]
    # the array forms apply the same table
    obj = np.empty(len(vals), dtype=object)
    obj[:] = vals
    dec_arr = [sf_to_wire(x) for x in SFD.to_type_filter_array(obj).tolist()] if len(vals) else []
    if dec_arr != dec:
        fails.append(Failure('corr', f'StoreFilter.to_type_filter_array {dec_arr} != element-wise {dec} on {cells}', c))
    # the same table on fixed-width str arrays (what genfromtxt hands to from_delimited): every width from the
    # longest text of the group up, so that a token exactly as wide as the array is exercised
    strs = [v for v in vals if isinstance(v, str)]
    if strs:
        wmax = max(1, max(len(x) for x in strs))
        for width in (wmax, wmax + 1, wmax + 3):
            arr = np.array(strs, dtype=f'<U{width}')
            got = [sf_to_wire(x) for x in SFD.to_type_filter_array(arr).tolist()]
            exp = [sf_to_wire(SFD.to_type_filter_element(x)) for x in strs]
            ctx.count('storefilter_str_arrays')
            if got != exp:
                fails.append(Failure('oracle', f'StoreFilter.to_type_filter_array on a <U{width} array {strs} gave {got}, element-wise decoding gives {exp}', c))
    tokens = set().union(SFD.to_nan, SFD.to_nat, SFD.to_none, SFD.to_posinf, SFD.to_neginf)
    for w, v in zip(cells, vals):
        # oracle: decode(encode(v)) == v on the domain of storefilter_default_inverse (not NaT, strings that are no tokens)
        if w == 'nat' or (isinstance(v, str) and v in tokens):
            ctx.count('storefilter_outside_domain')
            continue
        back = sf_to_wire(SFD.to_type_filter_element(SFD.from_type_filter_element(v)))
        if back != w:
            fails.append(Failure('oracle', f'StoreFilter: to_type_filter_element(from_type_filter_element({v!r})) gave {back}', c))
    if outs:
        k = len(cells)
        menc = [o[3:] if o.startswith('ok ') else o for o in outs[:k]]
        mdec = [o[3:] if o.startswith('ok ') else o for o in outs[k:2 * k]]
        if menc != enc:
            fails.append(Failure('corr', f'StoreFilter encode: model {menc} vs real {enc} on {cells}', c))
        if mdec != dec:
            fails.append(Failure('corr', f'StoreFilter decode: model {mdec} vs real {dec} on {cells}', c))
    return fails


def eval_line(ctx, c, outs):
    fails = []
    d, q, line = c['d'], c['q'], c['line']
    back = real_parse(d, q, line)
    ctx.count('raw_lines')
    if isinstance(back, tuple):
        ctx.count('raw_lines_rejected')
    imp = real_split('\t'.join(back)) if isinstance(back, list) else back
    if outs:
        mp, mi = parse_answer(outs[0]), parse_answer(outs[1])
        if mp != back:
            fails.append(Failure('corr', f'parser: model {mp!r} vs csv.reader {back!r} for line {line!r} d={d!r} q={q!r}', c))
        if mi != imp:
            fails.append(Failure('corr', f'import split: model {mi!r} vs real {imp!r} for line {line!r} d={d!r}', c))
    return fails


def snapshot(f):
    cols = []
    for j in range(f.shape[1]):
        a = f._blocks._extract_array(column_key=j)
        cols.append({'kind': a.dtype.kind, 'vals': [tok(x) for x in a.tolist()]})
    return {'shape': list(f.shape), 'index': [tok(x) for x in f.index], 'columns': [tok(x) for x in f.columns],
            'cols': cols, 'index_name': tok(f.index.name), 'columns_name': tok(f.columns.name),
            'icls': type(f.index).__name__, 'ccls': type(f.columns).__name__}


def expected_snapshot(spec, cfg):
    """What the inverse import must return: the original, with an axis that was not written replaced by
    the automatic integer axis, and names only where a name level was written."""
    n, m = spec['rows'], len(spec['cols'])
    ix, cx = spec['index'], spec['columns']

    def labels(ax, k):
        if ax['depth'] == 1:
            return list(ax['levels'][0])
        return ['t:(' + ' '.join(ax['levels'][lv][i] for lv in range(ax['depth'])) + ')' for i in range(k)]
    kind = {'int': 'i', 'float': 'f', 'bool': 'b', 'str': 'U'}
    exp = {'shape': [n, m],
           'index': labels(ix, n) if cfg['include_index'] else [tok(i) for i in range(n)],
           'columns': labels(cx, m) if cfg['include_columns'] else [tok(j) for j in range(m)],
           'cols': [{'kind': kind[c['dt']], 'vals': list(c['vals'])} for c in spec['cols']],
           'icls': 'IndexHierarchy' if cfg['include_index'] and ix['depth'] > 1 else 'Index',
           'ccls': 'IndexHierarchy' if cfg['include_columns'] and cx['depth'] > 1 else 'Index'}

    def nm(ax):
        if not ax['names']:
            return 'N'
        return ax['names'][0] if ax['depth'] == 1 else 't:(' + ' '.join(ax['names']) + ')'
    exp['index_name'] = nm(ix) if cfg['names'] == 'index' else 'N'
    exp['columns_name'] = nm(cx) if cfg['names'] == 'columns' else 'N'
    return exp


def all_texts(spec):
    out = []
    for c in spec['cols']:
        if c['dt'] == 'str':
            out += [untok(t) for t in c['vals']]
    for ax in (spec['index'], spec['columns']):
        for lv in ax['levels']:
            out += [untok(t) for t in lv if t.startswith('s:')]
        if ax['names']:
            out += [untok(t) for t in ax['names']]
    return out


def export_import(f, spec, cfg):
    import static_frame as sf
    from static_frame.core.store_filter import STORE_FILTER_DEFAULT
    sfilt = STORE_FILTER_DEFAULT if cfg['store_filter'] == 'default' else None
    wkw = dict(include_index=cfg['include_index'], include_columns=cfg['include_columns'],
               include_index_name=cfg['names'] == 'index', include_columns_name=cfg['names'] == 'columns',
               quote_char=cfg['q'], store_filter=sfilt)
    if cfg['names'] == 'none':
        wkw['include_index_name'] = False
    rkw = dict(index_depth=spec['index']['depth'] if cfg['include_index'] else 0,
               columns_depth=spec['columns']['depth'] if cfg['include_columns'] else 0,
               quote_char=cfg['q'], store_filter=sfilt, name=f.name)
    if cfg['names'] == 'index':
        rkw['index_name_depth_level'] = 0
    if cfg['names'] == 'columns':
        rkw['columns_name_depth_level'] = 0
    path = None
    if cfg['io'] == 'file':
        fd, path = tempfile.mkstemp(prefix='sfv_c16_', suffix='.txt')
        os.close(fd)
        dst = path
    else:
        dst = io.StringIO()
    try:
        if cfg['fmt'] == 'csv':
            f.to_csv(dst, **wkw)
        elif cfg['fmt'] == 'tsv':
            f.to_tsv(dst, **wkw)
        else:
            f.to_delimited(dst, delimiter=cfg['d'], **wkw)
        if path:
            text = open(path).read()
            src = path
        else:
            text = dst.getvalue()
            src = io.StringIO(text)
        try:
            if cfg['fmt'] == 'csv':
                g = sf.Frame.from_csv(src, **rkw)
            elif cfg['fmt'] == 'tsv':
                g = sf.Frame.from_tsv(src, **rkw)
            else:
                g = sf.Frame.from_delimited(src, delimiter=cfg['d'], **rkw)
            return text, ('ok', g)
        except Exception as ex:
            return text, ('err', ex)
    finally:
        if path and os.path.exists(path):
            os.unlink(path)


def eval_frame(ctx, c, outs):
    fails = []
    spec, cfg = c['spec'], c['cfg']
    f = build_frame(spec)
    if f is None:
        return fails
    n, m = spec['rows'], len(spec['cols'])
    ctx.count(f'fmt_{cfg["fmt"]}')
    ctx.count(f'index_depth_{spec["index"]["depth"]}')
    ctx.count(f'columns_depth_{spec["columns"]["depth"]}')
    ctx.count(f'names_{cfg["names"]}')
    ctx.count(f'rows_{n}')
    ctx.count(f'include_index_{int(cfg["include_index"])}_columns_{int(cfg["include_columns"])}')
    ctx.count(f'store_filter_{cfg["store_filter"]}')
    text, res = export_import(f, spec, cfg)
    sfilt = cfg['store_filter'] == 'default'
    desc = (f'{cfg["fmt"]}(d={cfg["d"]!r}, q={cfg["q"]!r}, include_index={cfg["include_index"]}, include_columns={cfg["include_columns"]}, '
            f'names={cfg["names"]}, store_filter={cfg["store_filter"]}) frame {n}x{m} index_depth={spec["index"]["depth"]} columns_depth={spec["columns"]["depth"]}')
    # correspondence: layout model and writer model vs the real export
    ref_rows = ref_records(spec, cfg['include_index'], cfg['include_columns'], cfg['names'], sfilt)
    real_rows = [list(r) for r in f._to_str_records(include_index=cfg['include_index'], include_columns=cfg['include_columns'],
                                                      include_index_name=cfg['names'] == 'index', include_columns_name=cfg['names'] == 'columns',
                                                      **({} if sfilt else {'store_filter': None}))]
    if real_rows != ref_rows:
        fails.append(Failure('corr', f'{desc}: _to_str_records rows {real_rows} != reference layout {ref_rows}', c))
    if outs:
        mrows = parse_answer(outs[0])
        if mrows != ref_rows and not (mrows in (None, []) and ref_rows == []):
            fails.append(Failure('corr', f'{desc}: model layout {mrows} != reference layout {ref_rows}', c))
        ms = parse_answer(outs[1])
        names, columns, index, cells = ref_table(spec, sfilt)
        if isinstance(ms, list) and len(ms) == 4:
            exp_cols = columns if cfg['include_columns'] else []
            exp_index = index if cfg['include_index'] else [[] for _ in range(n)]
            if (ms[1] or []) != exp_cols or (ms[3] or []) != (cells if cells else []) or (ms[2] or []) != exp_index:
                fails.append(Failure('corr', f'{desc}: model split {ms} != texts {exp_cols} {exp_index} {cells}', c))
        mtext = ''.join(parse_answer(o) for o in outs[2:])
        if mtext != text:
            fails.append(Failure('corr', f'{desc}: model file text {mtext!r} != real {text!r}', c))
    # oracle: strict equality with the original
    exp = expected_snapshot(spec, cfg)
    det = {'fmt': cfg['fmt'], 'text': text[:400]}
    if res[0] == 'err':
        ex = res[1]
        det.update({'exc': type(ex).__name__, 'msg': str(ex)[:200]})
        fails.append(Failure('oracle', f'{desc}: import raised {type(ex).__name__}: {ex}', c, detail=det))
        return fails
    got = snapshot(res[1])
    det['got'] = got
    if n == 0:
        # no cells: the column types are not in the text; labels only
        ctx.count('zero_row_frames_labels_only')
        for k in ('index', 'columns', 'index_name', 'columns_name'):
            if k in ('columns', 'columns_name') and not cfg['include_columns']:
                continue      # nothing at all was written: the width is not in the (empty) file
            if got[k] != exp[k]:
                fails.append(Failure('oracle', f'{desc}: {k} {got[k]} != {exp[k]}', c, detail=det))
        return fails
    for k in ('shape', 'index', 'columns', 'icls', 'ccls', 'index_name', 'columns_name'):
        if got[k] != exp[k]:
            fails.append(Failure('oracle', f'{desc}: {k} {got[k]} != {exp[k]}', c, detail=dict(det, field=k)))
            return fails
    for j, (gc, ec) in enumerate(zip(got['cols'], exp['cols'])):
        if gc != ec:
            fails.append(Failure('oracle', f'{desc}: column {j} {gc} != {ec}', c, detail=dict(det, field='cols', col=j)))
            break
    return fails


def eval_struct(ctx, c):
    import copy
    import static_frame as sf
    fails = []
    spec, route = c['spec'], c['route']
    f = build_frame(spec)
    if f is None:
        return fails
    ctx.count(f'route_{route}')
    n, m = f.shape
    ikw = {}
    if spec['index']['depth'] > 1:
        ikw['index_constructor'] = sf.IndexHierarchy.from_labels
    ckw = {}
    if spec['columns']['depth'] > 1:
        ckw['columns_constructor'] = sf.IndexHierarchy.from_labels
    try:
        if route in ('pickle', 'deepcopy'):
            # every pickle protocol: protocol 5 hands contiguous non-object arrays back as read-only buffers and the others not
            proto = [None, 2, 3, 4, 5, pickle.HIGHEST_PROTOCOL][(n * 7 + m * 3 + len(spec['cols'][0]['vals'])) % 6] if c.get('proto') is None else c['proto']
            ctx.count(f'pickle_protocol_{proto}')
            g = (pickle.loads(pickle.dumps(f, protocol=proto)) if proto is not None else pickle.loads(pickle.dumps(f))) if route == 'pickle' else copy.deepcopy(f)
        elif route.startswith('pairs0'):
            pairs = f.to_pairs(0)
            ilabels = list(f.index) if not pairs else [k for k, _ in pairs[0][1]]
            if route == 'pairs0_from_items':
                g = sf.Frame.from_items(((col, tuple(v for _, v in p)) for col, p in pairs), index=ilabels, name=f.name, **ikw, **ckw)
            else:
                g = sf.Frame.from_dict({col: tuple(v for _, v in p) for col, p in pairs}, index=ilabels, name=f.name, **ikw, **ckw)
        else:
            pairs = f.to_pairs(1)
            ilabels = [r for r, _ in pairs]
            clabels = [col for col, _ in pairs[0][1]] if pairs else list(f.columns)
            if route == 'pairs1_from_records':
                g = sf.Frame.from_records([tuple(v for _, v in p) for _, p in pairs], index=ilabels, columns=clabels, name=f.name, **ikw, **ckw)
            elif route == 'pairs1_from_dict_records':
                g = sf.Frame.from_dict_records([dict(p) for _, p in pairs], index=ilabels, name=f.name, **ikw, **ckw)
            else:
                g = sf.Frame.from_records_items(((r, tuple(v for _, v in p)) for r, p in pairs), columns=clabels, name=f.name, **ikw, **ckw)
    except Exception as ex:
        if n == 0 or m == 0:
            ctx.count('struct_empty_refused')
            return fails
        return [Failure('oracle', f'{route} on {n}x{m} raised {type(ex).__name__}: {ex}', c, detail={'exc': type(ex).__name__})]
    a, b = snapshot(f), snapshot(g)
    desc = f'{route} on frame {n}x{m} dtypes {[c_["dt"] for c_ in spec["cols"]]}'
    if route in ('pickle', 'deepcopy'):
        if a != b or tok(f.name) != tok(g.name):
            fails.append(Failure('oracle', f'{desc}: {b} name {g.name!r} != {a} name {f.name!r}', c))
        if [dtype_tok(x) for x in f.dtypes.values] != [dtype_tok(x) for x in g.dtypes.values] or f._blocks.shapes.tolist() != g._blocks.shapes.tolist():
            fails.append(Failure('oracle', f'{desc}: dtypes / block shapes changed', c))
        arrays = list(g._blocks._blocks)
        for ax in (g.index, g.columns):
            arrays.append(ax.values)
            if ax.depth > 1:
                arrays += [ax.values_at_depth(dd) for dd in range(ax.depth)]
        if any(x.flags.writeable for x in arrays):
            fails.append(Failure('oracle', f'{desc}: a writeable array after {route}', c))
        if type(g) is not type(f) or type(g.index) is not type(f.index) or type(g.columns) is not type(f.columns):
            fails.append(Failure('oracle', f'{desc}: container classes changed', c))
        return fails
    if n == 0 or m == 0:
        ctx.count('struct_empty_labels_only')
        if a['index'] != b['index'] or (n > 0 and a['columns'] != b['columns']):
            fails.append(Failure('oracle', f'{desc}: labels {b["index"]} {b["columns"]} != {a["index"]} {a["columns"]}', c))
        return fails
    for k in ('shape', 'index', 'columns', 'icls', 'ccls'):
        if a[k] != b[k]:
            fails.append(Failure('oracle', f'{desc}: {k} {b[k]} != {a[k]}', c, detail={'field': k, 'route': route}))
            return fails
    for j, (gc, ec) in enumerate(zip(b['cols'], a['cols'])):
        if spec['cols'][j]['dt'] == 'obj' and gc['vals'] == ec['vals']:
            continue    # a column of Python objects may come back typed (all texts -> str): every VALUE must be what it was
        if gc != ec:
            fails.append(Failure('oracle', f'{desc}: column {j} {gc} != {ec}', c,
                                 detail={'field': 'cols', 'route': route, 'col': j, 'got_kind': gc['kind'], 'exp_kind': ec['kind']}))
            break
    return fails


def classify(f):
    c = f.case or {}
    d = f.detail or {}
    if f.kind != 'oracle':
        return None
    if c.get('k') == 'frame':
        spec, cfg = c['spec'], c['cfg']
        n, m = spec['rows'], len(spec['cols'])
        width = m + (spec['index']['depth'] if cfg['include_index'] else 0)
        if width == 1 and (n >= 1 or cfg['include_columns']):
            return 'F42-single-text-column-file'
        str_cols = [[untok(t) for t in col['vals']] for col in spec['cols'] if col['dt'] == 'str']
        if cfg['include_index']:
            str_cols += [[untok(t) for t in lv] for lv in spec['index']['levels'] if lv and lv[0].startswith('s:')]
        if d.get('exc') == 'TypeError' and 'to a dtype is not allowed' in d.get('msg', '') and any(f31_trigger(cells) for cells in str_cols):
            return 'F43-genfromtxt-int-then-text-typeerror'
    if c.get('k') == 'struct' and c.get('route', '').startswith('pairs1') and d.get('field') == 'cols':
        dts = {col['dt'] for col in c['spec']['cols']}
        if 'int' in dts and 'float' in dts and not ({'str', 'bool'} & dts) and d.get('exp_kind') == 'i' and d.get('got_kind') == 'f':
            return 'F44-to-pairs-axis1-int-float-coercion'
    return None
